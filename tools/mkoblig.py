"""Rebuild lean/obligations.json: every theorem in lean/SafeC/Props/Cxx.lean is an obligation of Cxx
(kind from the name suffix), plus the supporting lemmas listed in EXTRA."""
import os, re, json
HERE = os.path.dirname(os.path.abspath(__file__))
LEAN = os.path.join(os.path.dirname(HERE), "lean")
EXTRA = {
    "C01": [("SafeC.exec_frame", "SafeC.Machine", "meta", "frame lemma for every Prog: no stray write => undeclared cells unchanged"),
            ("SafeC.copyLoop_safe", "SafeC.Proofs.CopyLoop", "lemma", "the bumper copy loop shared by the str*/wcs* copy family, any placement and content")],
    "C02": [("SafeC.copyLoop_disjoint", "SafeC.Proofs.CopyFunctional", "lemma", "copy loop reads only the source string / first slen cells"),
            ("SafeC.copyLoop_disjoint_bounded", "SafeC.Proofs.CopyFunctional", "lemma", "bounded variant")],
    "C06": [("SafeC.Props.C06Mem.memcpy_s_C06", "SafeC.Props.C06Mem", "full", "memcpy_s, valid arguments, non-overlapping operands: EOK and dest[0..slen) = old src[0..slen), nothing else changed"),
            ("SafeC.Props.C06Mem.memmove_s_C06", "SafeC.Props.C06Mem", "full", "memmove_s, valid arguments, any placement: EOK and the exact copy"),
            ("SafeC.Props.C06Mem.memcpy16_s_C06", "SafeC.Props.C06Mem", "full", "memcpy16_s, valid arguments, non-overlapping: exact copy of slen 16-bit elements"),
            ("SafeC.Props.C06Mem.memcpy32_s_C06", "SafeC.Props.C06Mem", "full", "memcpy32_s, valid arguments, non-overlapping: exact copy of slen 32-bit elements"),
            ("SafeC.Props.C06Mem.wmemcpy_s_C06", "SafeC.Props.C06Mem", "full", "wmemcpy_s, valid arguments, non-overlapping: exact copy of count wchar_t elements")],
    "C05": [("SafeC.strncpyG_two_handlers", "SafeC.Proofs.CopyWrappers", "witness", "for max > RSIZE_MAX_STR the inner strnlen_s reports too: why the wrappers need max <= RSIZE_MAX_STR")],
    "C07": [("SafeC.copyLoop_overlap", "SafeC.Proofs.CopyOverlap", "lemma", "the loop reaches the bumper after exactly g iterations"),
            ("SafeC.Props.C07Mem.mem_prim_move_C07", "SafeC.Props.C07Mem", "full", "mem_prim_move (bytes, 64-bit word variant) = memmove for every length, overlap and alignment"),
            ("SafeC.Props.C07Mem.mem_prim_move_elems_C07", "SafeC.Props.C07Mem", "full", "mem_prim_move8/16/32 = memmove on elements for every length and overlap"),
            ("SafeC.Props.C07Mem.memmove_s_C07", "SafeC.Props.C07Mem", "full", "memmove_s, valid arguments, any overlap: EOK and exactly the bytes a copy through a temporary would give"),
            ("SafeC.Props.C07Mem.memmove_s_C07_bos", "SafeC.Props.C07Mem", "full", "memmove_s with known object sizes (destbos/srcbos arbitrary, dmax and slen within them): exact memmove"),
            ("SafeC.Props.C07Mem.memmove16_s_C07", "SafeC.Props.C07Mem", "full", "memmove16_s, valid arguments, any overlap: memmove semantics"),
            ("SafeC.Props.C07Mem.memmove32_s_C07", "SafeC.Props.C07Mem", "full", "memmove32_s, valid arguments, any overlap: memmove semantics"),
            ("SafeC.Props.C07Mem.wmemmove_s_C07", "SafeC.Props.C07Mem", "full", "wmemmove_s, valid arguments (dlen*4 <= RSIZE_MAX_WMEM: byte size against element limit), any overlap: memmove semantics"),
            ("SafeC.Props.C07Mem.memcpy_s_C07_overlap", "SafeC.Props.C07Mem", "full", "memcpy_s rejects every true overlap with ESOVRLP, dest zeroed, one mem-handler event"),
            ("SafeC.moveFwdAlign_ok", "SafeC.Proofs.MemMove", "lemma", "forward alignment prologue of mem_prim_move: 1 <= tsp <= len in every branch"),
            ("SafeC.moveBwdAlign_ok", "SafeC.Proofs.MemMove", "lemma", "backward alignment prologue: tsp = sp % 8 is non-zero when it is chosen (bit-level lemma or_xor_mod8)"),
            ("SafeC.wordsFwd_ok", "SafeC.Proofs.MemMove", "lemma", "8-byte word loop, ascending, induction on the word count"),
            ("SafeC.wordsBwd_ok", "SafeC.Proofs.MemMove", "lemma", "8-byte word loop, descending")],
    "C20": [("SafeC.Alloc.exec_bind", "SafeC.Proofs.Alloc", "meta", "exec of a sequential composition = exec of the parts (every Prog of the allocation machine)"),
            ("SafeC.Alloc.exec_mono", "SafeC.Proofs.Alloc", "meta", "request, failure and handler counters never decrease; a cleared dest stays cleared"),
            ("SafeC.Alloc.engine_spec", "SafeC.Proofs.Alloc", "lemma", "every run of the printf engine over any list of format pieces (induction): returns with live blocks unchanged, or is the %ls conversion-failure leak, or the unchecked format-copy null dereference"),
            ("SafeC.Alloc.reorderLoop_wp", "SafeC.Proofs.AllocNorm", "lemma", "loop invariant of wcsnorm_reorder_s (live = seq_ext ++ entry blocks) over any mark pattern: repaired code under every oracle, code as it is when no request fails"),
            ("SafeC.Alloc.composeLoop_wp", "SafeC.Proofs.AllocNorm", "lemma", "the same for wcsnorm_compose_s over any (mark?, composed?) pattern"),
            ("SafeC.Alloc.keeps_reorderLoop", "SafeC.Proofs.AllocTight", "lemma", "unrepaired reorder loop, any mark pattern, any oracle: no surviving run contains a failed request"),
            ("SafeC.Alloc.keeps_composeLoop", "SafeC.Proofs.AllocTight", "lemma", "the same for the compose loop"),
            ("SafeC.Alloc.normProg_wp", "SafeC.Proofs.AllocNorm", "lemma", "wcsnorm_s: scratch buffer + reorder + compose composed")],
    "C15": [("SafeC.Conv.Libc.utf8Body_enc", "SafeC.Proofs.ConvCodec", "lemma", "glibc's UTF-8 decoder applied to the 1..6-byte encoding of ANY 31-bit non-surrogate value (followed by anything) returns that value and its length"),
            ("SafeC.Conv.Libc.decodeAll_encodeAll", "SafeC.Proofs.ConvCodec", "lemma", "string-level codec round trip by induction over the list of wide characters, both locales"),
            ("SafeC.Conv.Libc.mbsrtowcs_out_le", "SafeC.Proofs.ConvLibc", "lemma", "the model of glibc's mbsrtowcs (window loop, pending state) never stores more than len cells: induction over the loop and the gconv step"),
            ("SafeC.Conv.Libc.wcsrtombs_out_le", "SafeC.Proofs.ConvLibc", "lemma", "the model of glibc's wcsrtombs never stores more than len bytes"),
            ("SafeC.Conv.Libc.mbsrtowcs_shape", "SafeC.Proofs.ConvLibc", "lemma", "count returned vs cells stored: (size_t)-1, or count <= cells <= count + 1"),
            ("SafeC.Conv.stored_then_zeroed", "SafeC.Proofs.ConvWrap", "lemma", "dest after 'libc stored out, wrapper zeroed n cells from index k': no fault, extent, prefix = out, zeros"),
            ("SafeC.Conv.tailW_ok", "SafeC.Proofs.ConvWrap", "lemma", "success tail of mbstowcs_s/mbsrtowcs_s for an arbitrary libc result"),
            ("SafeC.Conv.tailB_ok", "SafeC.Proofs.ConvWrap", "lemma", "success tail of wcstombs_s/wcsrtombs_s for an arbitrary libc result"),
            ("SafeC.Conv.Libc.utf8Body_ok", "SafeC.Proofs.ConvDecode", "lemma", "converse codec, one character: whatever glibc's UTF-8 decoder accepts is exactly the encoder's form of the value delivered (5 length classes, omega)"),
            ("SafeC.Conv.Libc.body_prefix_incomplete", "SafeC.Proofs.ConvMbs", "lemma", "a proper non-empty prefix of an encoding is an incomplete (never an illegal) sequence"),
            ("SafeC.Conv.Libc.mbMain_window", "SafeC.Proofs.ConvMbs", "lemma", "the gconv main loop on a window (any prefix) of a valid string: whole characters, then used up at a boundary / inside a character / output full"),
            ("SafeC.Conv.Libc.gconvMb_window", "SafeC.Proofs.ConvMbs", "lemma", "the same for one step call entered with a pending state (consume_incomplete through the staging buffer)"),
            ("SafeC.Conv.Libc.mbsLoop_valid", "SafeC.Proofs.ConvMbsLoop", "lemma", "loop invariant of glibc's mbsrtowcs window loop on a valid terminated string, every limit and genuine entry state: = character-by-character decoding"),
            ("SafeC.Conv.Libc.wcsrtombs_valid", "SafeC.Proofs.ConvWcs", "lemma", "wcsrtombs model on a valid terminated wide string = encodeAll limited to the whole characters that fit"),
            ("SafeC.Conv.Libc.mbs_query_valid", "SafeC.Proofs.ConvQuery", "lemma", "mbsrtowcs(NULL, ...) on ANY terminated source: no illegal sequence reported => the source is the encoding of some ws and the count is |ws|"),
            ("SafeC.Conv.Libc.mbs_query_valid_st", "SafeC.Proofs.ConvQuerySt", "lemma", "the same entered with any genuine (incomplete-sequence) conversion state: ps ++ source valid, ps a proper prefix of the first character"),
            ("SafeC.Conv.Libc.wcs_query_valid", "SafeC.Proofs.ConvQuery", "lemma", "wcsrtombs(NULL, ...) on ANY terminated wide source: no illegal character reported => every character encodable and the count is the byte length")],
    "C16": [("SafeC.Sort.cycleGo_perm", "SafeC.Proofs.SortRel", "lemma", "the element moves of cycle() (tmp = a[ar0]; a[ar_i] = a[ar_i+1]; a[ar_last] = tmp), ANY position list incl. repeated positions: result is a permutation"),
            ("SafeC.Sort.smooth_rel", "SafeC.Proofs.SortRel", "lemma", "the whole smoothsort (main loop, final trinkle, dismantling loop), any bit vector/pshift/table state, any comparator: permutation + logged comparisons in range with the caller's ctx"),
            ("SafeC.Sort.bsearchLoop_spec", "SafeC.Proofs.Bsearch", "lemma", "loop invariant of the halving loop on a partitioned array: left of the window compares greater, right of it less"),
            ("SafeC.Sort.bsearchLoop_any", "SafeC.Proofs.Bsearch", "lemma", "halving loop under an arbitrary comparator: returns, probes inside the window, at most steps(m) probes"),
            ("SafeC.Sort.siftLoop_safe", "SafeC.Proofs.SortSafe", "lemma", "loop invariant of sift: the walk stays inside the Leonardo tree (positions < n, no pointer below base, ar[] not overrun), any comparator"),
            ("SafeC.Sort.cycleGo_tot", "SafeC.Proofs.SortSafe", "lemma", "the element moves of cycle() on in-range positions never fault"),
            ("SafeC.Sort.steps_bound", "SafeC.Proofs.Bsearch", "lemma", "steps(m) <= ceil(log2 m) + 1, in the form 2^(steps m - 1) <= 2(m-1) for m >= 2"),
            ("SafeC.Sort.shl_bit", "SafeC.Proofs.SortBits", "lemma", "shl(p, n) on the two-word vector with x86 shift-count masking, 0 < n < 128: bit i of the result = bit i-n of p (bit-level spec; shr_bit, or1_bit, xor7_bit, and3_iff alike)"),
            ("SafeC.Sort.pntz_spec64", "SafeC.Proofs.SortBits", "lemma", "whole-word ntz + repaired pntz (p[1] != 0 tested itself): pntz = distance from bit 0 to the next set bit of the 128-bit vector, EVERY distance"),
            ("SafeC.Sort.pntz_spec64_partial", "SafeC.Proofs.SortBits", "lemma", "whole-word ntz, pntz repaired or not: pntz = distance to the next set bit unless that distance is exactly 64 (pntz_at64: the unrepaired pntz answers 0)"),
            ("SafeC.Sort.pntz_none", "SafeC.Proofs.SortBits", "lemma", "whole-word ntz: no set bit above bit 0 in either word: pntz = 0 (repaired or not)"),
            ("SafeC.Sort.pntz_spec32", "SafeC.Proofs.SortBits", "lemma", "pntz with the int builtin (tzcnt on 32 bits) is right as long as the next set bit is at most 32 away"),
            ("SafeC.Sort.mkLp_spec", "SafeC.Proofs.SortLp", "lemma", "the lp[] generation loop: no overflow of the 96 entries, no 64-bit wrap, table = Leonardo numbers up to the first one >= nmemb"),
            ("SafeC.Sort.Forest.next", "SafeC.Proofs.SortShape", "lemma", "forest invariant: pntz is the distance to the next tree order, shr drops the smallest tree, the stepson head - lp[pshift] is the next root"),
            ("SafeC.Sort.trinkle_safe", "SafeC.Proofs.SortShape", "lemma", "trinkle on a forest inside the array returns with every position < n, any comparator, ar[] not overrun (at most one entry per tree)"),
            ("SafeC.Sort.mainStep_safe", "SafeC.Proofs.SortShape", "lemma", "one round of the main loop preserves the forest-shape invariant (merge of two adjacent trees / new tree of order 1 / order 0)"),
            ("SafeC.Sort.dismantleStep_safe", "SafeC.Proofs.SortShape", "lemma", "one round of the dismantling loop preserves the shape (drop a one-element tree / split the smallest tree, both trinkle calls on valid forests), head >= 1"),
            ("SafeC.Sort.smooth_safe", "SafeC.Proofs.SortShape", "lemma", "whole smoothsort on n elements returns with the size kept: Shape.init, mainLoop_safe, trinkle_safe, dismantle_safe (ends exactly at head = 0)"),
            ("SafeC.Sort.qsortMusl_safe", "SafeC.Proofs.SortWhole", "lemma", "qsort_musl with the table it builds itself, whole-word ntz and repaired pntz: returns for EVERY nmemb (nmemb*size <= 2^63)"),
            ("SafeC.Sort.qsortMusl_safe_partial", "SafeC.Proofs.SortWhole", "lemma", "qsort_musl with the table it builds itself and the real pntz, any switches: nmemb up to leo 65 (whole-word ntz) / leo 34 (int builtin)"),
            ("SafeC.Sort.qsortMusl_sorted", "SafeC.Proofs.SortSorted", "lemma", "qsort_musl, whole-word ntz and repaired pntz, consistent comparator: result ordered for EVERY nmemb"),
            ("SafeC.Sort.qsortMusl_sorted_partial", "SafeC.Proofs.SortSorted", "lemma", "the same for any switches with nmemb up to leo 65 / leo 34"),
            ("SafeC.Sort.trinkle_gap64_overrun", "SafeC.Proofs.SortGap64", "lemma", "unrepaired pntz, state p = {1,1}, pshift 1, comparator answering 'greater': trinkle overruns ar[]"),
            ("SafeC.Sort.sift_spec", "SafeC.Proofs.SortSift", "lemma", "sift restores the heap order of one Leonardo tree given both subtrees are heaps (consistent comparator); touches only the tree; the new root dominates the old tree"),
            ("SafeC.Sort.cycle_fn", "SafeC.Proofs.SortSift", "lemma", "cycle on in-range positions = rot on the array seen as a function (sequential moves, repeated positions allowed)"),
            ("SafeC.Sort.trinkle_spec", "SafeC.Proofs.SortTrinkle", "lemma", "trinkle on a forest of heaps with ascending roots from the second tree on (first tree trusted or with heap-ordered subtrees): all trees heaps, all roots ascending, only [0, head] rearranged"),
            ("SafeC.Sort.RootsFin.roots", "SafeC.Proofs.SortSorted", "lemma", "build phase: when the tree at head is final (lp[pshift-1] >= high-head) every tree to its left was final when decided, so the roots left of it ascend"),
            ("SafeC.Sort.mainStep_sorted", "SafeC.Proofs.SortSorted", "lemma", "one round of the main loop preserves: subtrees of the smallest tree heaps, all other trees heaps, roots of final trees ascending"),
            ("SafeC.Sort.dismantleStep_sorted", "SafeC.Proofs.SortSorted", "lemma", "one round of the dismantling loop preserves heaps + ascending roots and puts the maximum of [0, head] at head for good"),
            ("SafeC.Sort.smooth_sorted", "SafeC.Proofs.SortSorted", "lemma", "whole smoothsort, consistent comparator: result ordered"),
            ("SafeC.Sort.Cyc.chunkGo_rep2", "SafeC.Proofs.SortCycle", "lemma", "one chunk of the byte-level cycle rotates exactly the byte columns [off, off+l) of every listed element, repeated positions included"),
            ("SafeC.Sort.Cyc.cycleBytes_rep2", "SafeC.Proofs.SortCycle", "lemma", "the while(width) loop of cycle rotates every byte column once (induction on the chunk count)")],
    "C11": [("SafeC.Printf.ntoaDigits_eq", "SafeC.Proofs.PrintfDigits", "lemma", "the do-while digit loop from any fill state with room and fuel: appends the digits of the value, least significant first (induction on the fuel)"),
            ("SafeC.Printf.revDigits_length_64", "SafeC.Proofs.PrintfDigits", "lemma", "a 64-bit value has at most 22 digits in a base >= 8: the 32-byte buffer never cuts the digits"),
            ("SafeC.Printf.revDigits_eq_reverse", "SafeC.Proofs.PrintfDigits", "lemma", "least-significant-first digits = reverse of Spec.digits"),
            ("SafeC.Printf.ntoaPrep_nohash", "SafeC.Proofs.PrintfFormat", "lemma", "safec_ntoa_format without '#': buffer = digits ++ precision zeros ++ width zeros ++ sign, for every flag combination, value, width and precision within the 32-byte buffer"),
            ("SafeC.Printf.outRev_eq", "SafeC.Proofs.PrintfEmit", "lemma", "safec_out_rev = one emitAll of (left padding ++ reversed buffer ++ right padding), any sink, any state"),
            ("SafeC.Printf.emitRep_eq", "SafeC.Proofs.PrintfEmit", "lemma", "the padding loops = emitAll of a replicate"),
            ("SafeC.Printf.emitAll_idx", "SafeC.Proofs.PrintfEmit", "lemma", "a successful emitAll advances idx by the number of characters, whatever the sink"),
            ("SafeC.Printf.ntoaLong_renderInt_nohash", "SafeC.Proofs.PrintfRender", "lemma", "layout of ntoa_format without '#' rewritten into Spec.renderInt (digit block, sign, fill, field padding), every 64-bit value"),
            ("SafeC.Printf.ntoaPrep_hash", "SafeC.Proofs.PrintfHash", "lemma", "safec_ntoa_format (repaired) with '#', bases 8/16: buffer = digits ++ zeros ++ prefix, the room for the prefix taken from padding zeros only"),
            ("SafeC.Printf.ntoaLong_renderInt_hash", "SafeC.Proofs.PrintfHash", "lemma", "the '#' class = Spec.renderInt"),
            ("SafeC.Printf.convInt_eq", "SafeC.Proofs.PrintfConv", "lemma", "convInt (flag adjustments, va_arg promotions/truncations for hh h l ll j z t, ntoa) = Spec.render for d i u o x X"),
            ("SafeC.Printf.parseDir_stages", "SafeC.Proofs.PrintfParse", "lemma", "Spec.parseDir = width stage >>= precision stage >>= length/conversion stage"),
            ("SafeC.Printf.parseFlags_eq", "SafeC.Proofs.PrintfParse", "lemma", "the engine's flag loop = takeWhile isFlag + setFlags (induction on the format)"),
            ("SafeC.Printf.atoi_eq", "SafeC.Proofs.PrintfParse", "lemma", "safec_atoi = the decimal value of the numeral while it stays below 2^32"),
            ("SafeC.Printf.directive_eq", "SafeC.Proofs.PrintfDirective", "lemma", "directive (parser + conversion) = Spec.parseDir + Spec.render for one conversion specification"),
            ("SafeC.Printf.engLoop_eq", "SafeC.Proofs.PrintfEngine", "lemma", "the engine's main loop = one emitAll of Spec.go's text, by induction over the format, from any state")],
    "C17": [("SafeC.Norm.canonVi_ok", "SafeC.Proofs.NormTables", "table", "every value the three-level canonical lookup can return addresses an existing slot of UNWIF_canon_tbl_1..4 (kernel check over all rows, regenerated tables)"),
            ("SafeC.Norm.tbl1_stable", "SafeC.Proofs.NormTables2", "table", "every cell of UNWIF_canon_tbl_1 is a non-zero code point that is not decomposable and not a Hangul syllable"),
            ("SafeC.Norm.tbl2_stable", "SafeC.Proofs.NormTables2", "table", "the same for UNWIF_canon_tbl_2"),
            ("SafeC.Norm.tbl3_stable", "SafeC.Proofs.NormTables2", "table", "the same for UNWIF_canon_tbl_3"),
            ("SafeC.Norm.tbl4_stable", "SafeC.Proofs.NormTables2", "table", "the same for UNWIF_canon_tbl_4"),
            ("SafeC.Norm.ccc_check", "SafeC.Proofs.NormUCD", "table", "combining classes: tree = UCD 14.0 on every assigned code point of every block in which either side has a page (decide +kernel)"),
            ("SafeC.Norm.dm_check", "SafeC.Proofs.NormUCD", "table", "stored decompositions = recursive expansion of UCD 14.0 mappings, expansion complete and inside the assigned set, every block in which either side has a page; U+037E excepted"),
            ("SafeC.Norm.comp_fwd_check", "SafeC.Proofs.NormCompose", "table", "every UCD 14.0 primary composite is returned by _composite_cp for its pair and is not excluded (as is, and repaired)"),
            ("SafeC.Norm.comp_bwd_check", "SafeC.Proofs.NormCompose", "table", "every stored pair with an assigned, non-excluded composite is a UCD 14.0 primary composite with exactly that pair"),
            ("SafeC.Norm.decLoop_spec", "SafeC.Proofs.NormNFD", "lemma", "the decomposition loop of wcsnorm_decompose_s, every input and size: no out-of-bounds index, and on success the concatenated per-character decompositions, cells used + cells left = dmax"),
            ("SafeC.Norm.reorderLoop_eq_pure", "SafeC.Proofs.NormReorder", "lemma", "the reorder loop (runs of non-starters collected, sorted by (class, arrival), emitted) = the pure canonical reordering, all lists"),
            ("SafeC.Norm.composeLoop_no_oob", "SafeC.Proofs.NormRange", "lemma", "the compose loop indexes no table out of bounds on code points (or with the range check), every state of the loop"),
            ("SafeC.Norm.composeLoop_no_overrun", "SafeC.Proofs.NormRange", "lemma", "with more room than pending cells the compose loop never wraps its unsigned dmax"),
            ("SafeC.Norm.compositeCp_class0", "SafeC.Proofs.NormCompose2", "table", "whatever _composite_cp returns, for every pair of 32-bit values, has combining class 0 in the tree's table and in UCD 14.0 (stored composites kernel-checked, Hangul by arithmetic)"),
            ("SafeC.Norm.fwd2_check", "SafeC.Proofs.NormPairMap", "table", "every UCD 14.0 primary composite (pair order) is what the repaired lookup returns, not excluded, non-zero, assigned"),
            ("SafeC.Norm.bwd2_check", "SafeC.Proofs.NormPairMap", "table", "every stored pair with a non-excluded composite: the composite is assigned in 14.0 and is UCD's primary composite of exactly that pair"),
            ("SafeC.Norm.cellcp_check", "SafeC.Proofs.NormPairMap", "table", "the composition list a code point reaches is the list recorded for that code point (every block with a page)"),
            ("SafeC.Norm.pcOf_eq_ucd", "SafeC.Proofs.NormPairMap2", "lemma", "_composite_cp + isExclusion (repaired) = D114 primary composite of UCD 14.0 incl. Hangul, as functions on every pair of code points"),
            ("SafeC.Norm.composeLoop_eq_pure", "SafeC.Proofs.NormComposeSpec", "lemma", "the compose loop of wcsnorm_compose_s (starter / pre_cc / pending sequence, look-ahead) = a pure streaming composition, all lists, any room"),
            ("SafeC.Norm.composePure_eq_d117", "SafeC.Proofs.NormComposeSpec", "lemma", "the streaming composition = D117 as the Standard words it (seek back for the last starter, D115 blocking, replace and delete) on canonically ordered text when composites of starters are starters"),
            ("SafeC.Norm.d117_congr_pc", "SafeC.Proofs.NormComposeSpec", "lemma", "D117 depends on the pair map only through a closed set containing the text"),
            ("SafeC.Norm.comp_dec_tree", "SafeC.Proofs.NormIdemTables", "table", "tree: the stored full decomposition of each of the 941 UCD 14.0 primary composites = stored decomposition of its first constituent ++ that of its second (decide +kernel, regenerated tables)"),
            ("SafeC.Norm.comp_dec_ucd", "SafeC.Proofs.NormIdemTables", "table", "UCD 14.0: the same for the recursive expansion of the single-step mappings (D68)"),
            ("SafeC.Norm.jamo_ucd_stable", "SafeC.Proofs.NormIdemTables", "table", "UCD 14.0: the conjoining jamo L, V, T have no decomposition"),
            ("SafeC.Norm.composeGo_roundtrip", "SafeC.Proofs.NormIdem", "lemma", "invariant of the streaming composition (last starter, pre_cc, pending marks), every state: whatever it outputs from here decomposes and reorders to the same string as dec(starter) ++ pending ++ rest"),
            ("SafeC.Norm.ucd_fullDecomp_stable", "SafeC.Proofs.NormIdemTables", "lemma", "whatever the reference expansion produces for ANY cell value is not expanded further"),
            ("SafeC.Fold.fcLoop_spec", "SafeC.Proofs.FoldStr", "lemma", "the loop of wcsfc_s for every string and every dmax, as is and with the room check of the multi-character branch: each iteration emits fcCell(cp, next), the loop as a whole fcPure, with the exact conditions for too_small / overrun; with the room check no overrun at all"),
            ("SafeC.Fold.tbl_room4", "SafeC.Proofs.FoldStr", "table", "every tbl2 / tbl3 entry of towfc_s (regenerated tables) has at most 4 cells, also after each cell has been canonically decomposed: what `dmax < 5` in the multi-character branch of wcsfc_s has to cover"),
            ("SafeC.Fold.fcLoop_cstr", "SafeC.Proofs.FoldRoom", "lemma", "the loop of wcsfc_s reads its source as a C string: cells behind the first 0 do not influence the outcome"),
            ("SafeC.Fold.wcsfcS_room", "SafeC.Proofs.FoldRoom", "lemma", "range check + room check: no store behind dest + dmax and no table index out of bounds for every cell list (embedded terminators allowed) and every dmax"),
            ("SafeC.Fold.hot_single_le", "SafeC.Proofs.FoldStr", "table", "_towfc_single maps every code point of the hot ranges to a code point (outside them it is the identity): what wcsfc_s hands to _decomp_s is a valid table index"),
            ("SafeC.Fold.fold_announce_exceptions", "SafeC.Proofs.FoldCount", "full", "each of the 748 listed code points really disagrees (announces 0 but folds / announces 1 but unchanged): the exception lists of fold_announce_partial are tight"),
            ("SafeC.Fold.tables_lit", "SafeC.Proofs.FoldCount", "table", "the written-out copies of casemaps / pairs / casemapsl used by the fold proofs equal the generated tables")],
    "C09": [("SafeC.Fmt.Gram.PParse.unique", "SafeC.Proofs.FmtGram", "lemma", "the printf grammar of the standard (inductive PParse) is unambiguous: a format has at most one reading, with or without an n conversion"),
            ("SafeC.Fmt.Gram.PParse.append", "SafeC.Proofs.FmtGram", "lemma", "text before and after: formats of the grammar concatenate, the n flags are or-ed"),
            ("SafeC.Fmt.Gram.pparse_n_anywhere", "SafeC.Proofs.FmtGram", "lemma", "every spelling % flags width .prec length n between two formats of the grammar is an n conversion"),
            ("SafeC.Fmt.Gram.look_sound", "SafeC.Proofs.FmtScan", "lemma", "the pre-scan followed through a derivation of the printf grammar, any character in front: it rejects only formats with an n conversion (induction over the format)"),
            ("SafeC.Fmt.Gram.slook_sound", "SafeC.Proofs.FmtScan", "lemma", "the same for the scanf grammar without % in scan sets"),
            ("SafeC.Fmt.Gram.PRej_of_look", "SafeC.Proofs.FmtScan", "lemma", "a grammatical format the pre-scan rejects is in PRej (bare %n before every %%n, not directly behind %%)"),
            ("SafeC.Fmt.Gram.look_of_PRej", "SafeC.Proofs.FmtScan", "lemma", "every format in PRej is rejected by the pre-scan"),
            ("SafeC.Fmt.Gram.engDirective_gram", "SafeC.Proofs.FmtEngine", "lemma", "one conversion specification of the grammar: the engine's flag loop, width, precision and length phases consume exactly the decoration; FLAGS_LONG_DOUBLE iff L"),
            ("SafeC.Fmt.Gram.engLoop_gram", "SafeC.Proofs.FmtEngine", "lemma", "the engine's loop on a format of the grammar, induction over the format: case 'n' iff an n conversion, unless %L+integer stopped it before; never the default exit"),
            ("SafeC.Printf.directive_ok_next", "SafeC.Proofs.PrintfN", "lemma", "whenever the full engine model (arguments, output, run-time failures) gets through a conversion specification, the directive-parser model reads the same characters and continues"),
            ("SafeC.Printf.engLoop_ok_none", "SafeC.Proofs.PrintfN", "lemma", "induction over the loop: the full engine returns normally only if the directive-parser model did not stop"),
            ("SafeC.Printf.engine_good", "SafeC.Proofs.PrintfFrame", "lemma", "the full engine, every format and argument list (Good judgement walked over every conversion, induction over the format): error exits return negative values; a normal return stored only into dest[0..bufsize) and the stream")],
    "C08": [("SafeC.nullSlack_ok", "SafeC.Lemmas", "lemma", "both slack strategies (memset > 0x20, byte loop) zero the whole tail")],
    "C18": [("SafeC.setPrologue_ok", "SafeC.Proofs.MemSet", "lemma", "mem_prim_set alignment prologue: k <= count bytes stored, stops aligned or exhausted"),
            ("SafeC.setBlocks_ok", "SafeC.Proofs.MemSet", "lemma", "mem_prim_set 16-way unrolled body, induction on the block count: q*128 bytes"),
            ("SafeC.setWords_ok", "SafeC.Proofs.MemSet", "lemma", "mem_prim_set case-15..1 chain: k qwords"),
            ("SafeC.setTail_ok", "SafeC.Proofs.MemSet", "lemma", "mem_prim_set byte tail"),
            ("SafeC.setElemBlocks_ok", "SafeC.Proofs.MemSet", "lemma", "mem_prim_set16/32 unrolled body, induction on the block count"),
            ("SafeC.setBodyG_spec", "SafeC.Proofs.Erase", "lemma", "the shared 'n > dmax ? report, clamp : set' tail of memset_s/16/32: complete outcome"),
            ("SafeC.memset_s_spec", "SafeC.Proofs.Erase", "lemma", "memset_s: complete outcome of every call (success iff, fill on success, handler + clamp on failure)"),
            ("SafeC.strzero_s_spec", "SafeC.Proofs.Erase", "lemma", "strzero_s: complete outcome of every call, both slack configurations")],
}


def main():
    out = {}
    pd = os.path.join(LEAN, "SafeC", "Props")
    for f in sorted(os.listdir(pd)):
        m = re.match(r"(C\d+)([A-Za-z0-9_]*)\.lean$", f)
        if not m:
            continue
        pid = m.group(1)
        modname = "SafeC.Props." + f[:-5]
        src = open(os.path.join(pd, f)).read()
        ns = re.search(r"^namespace\s+([A-Za-z0-9_.]+)", src, re.M)
        nsname = ns.group(1) if ns else modname
        items = out.get(pid, [])
        for mm in re.finditer(r"^theorem\s+([A-Za-z0-9_'.]+)", src, re.M):
            name = mm.group(1)
            if src.count("/-", 0, mm.start()) > src.count("-/", 0, mm.start()):
                continue          # the word `theorem` at the start of a line inside a comment
            head = src[:mm.start()].rstrip()
            doc = None
            if head.endswith("-/"):
                i = head.rfind("/--")
                if i >= 0 and "-/" not in head[i:-2]:
                    doc = head[i + 3:-2]
            kind = "partial" if name.endswith("_partial") else "witness" if name.endswith("_witness") else "full"
            items.append(dict(name="%s.%s" % (nsname, name), module=modname, kind=kind,
                              covers=" ".join((doc or name).split())[:300]))
        if f != pid + ".lean":
            out[pid] = items
            continue
        if pid == "C10":
            ro = open(os.path.join(LEAN, "SafeC", "Proofs", "QueryRO.lean")).read()
            for mm in re.finditer(r"^theorem\s+([A-Za-z0-9_']+_readonly[A-Za-z0-9_']*)", ro, re.M):
                n = mm.group(1)
                items.append(dict(name="SafeC." + n, module="SafeC.Proofs.QueryRO", kind="partial" if n.endswith("_partial") else "full",
                                  covers="%s: the model contains no store: operands are never modified, on any input" % n.split("_readonly")[0]))
            items.append(dict(name="SafeC.exec_noStore", module="SafeC.Proofs.Query", kind="meta",
                              covers="a program without store nodes leaves the memory contents unchanged"))
        for (n, mod, kind, cov) in EXTRA.get(pid, []):
            items.append(dict(name=n, module=mod, kind=kind, covers=cov))
        if items:
            out[pid] = items
    json.dump(out, open(os.path.join(LEAN, "obligations.json"), "w"), indent=1)
    return {k: len(v) for k, v in out.items()}


if __name__ == "__main__":
    print(main())

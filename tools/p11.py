"""C11: formatted output matches C printf for the supported conversions, or fails.

  harness   harness/hprintf.c against the objects built from the current tree: the eight engine-based entry points
            (_sprintf_s_chk, _snprintf_s_chk, _vsprintf_s_chk, _vsnprintf_s_chk, fprintf_s, vfprintf_s, printf_s, vprintf_s)
            called with typed variadic arguments, dest flush against a PROT_NONE page, streams captured on a memfd;
            the same arguments go to glibc vsnprintf (reference).
  oracle    (the property, written here from C11 7.21.6.1 - py_printf / fmt_float_oracle - and cross-checked with glibc on every
            case) ret >= 0  =>  text == C's text, ret == its length, length < dmax;  ret < 0  =>  the text does not fit or an
            argument is invalid; floats: requested layout and |printed - value| <= one unit of the last printed digit (exact
            rationals); stream variants emit the same characters; every case is run twice in different positions of a shuffled
            stream and must give identical output (statelessness); no fault, nothing written in front of dest.
  model     lean/SafeC/Models/Printf.lean run by the compiled driver on the same (entry point, dmax, format, arguments): ret, text,
            and the complete dest image must agree; lean/SafeC/Models/PrintfSpec.lean (Spec.printf, what the theorems compare the
            engine with) must agree with glibc wherever it is defined.
"""
import os, sys, json, random, time, re, struct, hashlib, itertools
from concurrent.futures import ThreadPoolExecutor
from fractions import Fraction
import orch, buildlib, proto, mkoblig
from orch import Result, log, VERIF

PID = "C11"
BUF_FNS = ["sprintf_s", "snprintf_s", "vsprintf_s", "vsnprintf_s"]
STREAM_FNS = ["fprintf_s", "vfprintf_s", "printf_s", "vprintf_s"]
ENGINE_FNS = BUF_FNS + ["fprintf_s", "vfprintf_s", "printf_s"]
INT_MIN, INT_MAX, UINT_MAX = -2**31, 2**31 - 1, 2**32 - 1
LLONG_MIN, LLONG_MAX, ULLONG_MAX = -2**63, 2**63 - 1, 2**64 - 1
NTOA = 32          # PRINTF_NTOA_BUFFER_SIZE; cross-checked against lean/SafeC/Gen/Printf.lean below
RSIZE_MAX_STR = 4096


def bhex(b):
    return bytes(b).hex() or "-"


# ------------------------------------------------------------------ directives
class D:
    """one conversion specification with its argument value(s).
    width: None | int | ('*', int)      prec: None | '.' | int | ('*', int)      ln: '' hh h l ll j z t L"""
    __slots__ = ("flags", "width", "prec", "ln", "conv", "val")

    def __init__(self, flags="", width=None, prec=None, ln="", conv="d", val=0):
        self.flags, self.width, self.prec, self.ln, self.conv, self.val = flags, width, prec, ln, conv, val

    def text(self):
        w = "" if self.width is None else "*" if isinstance(self.width, tuple) else str(self.width)
        p = "" if self.prec is None else "." if self.prec == "." else ".*" if isinstance(self.prec, tuple) else ".%d" % self.prec
        return "%" + self.flags + w + p + self.ln + self.conv

    def args(self):
        a = []
        if isinstance(self.width, tuple):
            a.append("i:%d" % self.width[1])
        if isinstance(self.prec, tuple):
            a.append("i:%d" % self.prec[1])
        c = self.conv
        if c in "diuxXob":
            a.append(("l:%d" if self.ln in ("l", "ll", "j", "z", "t") else "i:%d") % self.val)
        elif c == "c":
            a.append("i:%d" % self.val)
        elif c == "s":
            if self.ln == "l":
                a.append("w:null" if self.val is None else "w:" + ("".join("%08x" % x for x in self.val) or "-"))
            else:
                a.append("s:null" if self.val is None else "s:" + bhex(self.val))
        elif c in "fFeEgGaA":
            a.append(("D:%020x" if self.ln == "L" else "d:%016x") % self.val)
        elif c == "p":
            a.append("p:%x" % self.val)
        return a

    # ---- the parts as C11 7.21.6.1 names them
    def eff(self):
        """(minus, width, precision or None) after the `*` rules of paragraph 5"""
        minus = "-" in self.flags
        if isinstance(self.width, tuple):
            w = self.width[1]
            if w < 0:
                minus, w = True, -w
        else:
            w = self.width or 0
        if self.prec is None:
            p = None
        elif self.prec == ".":
            p = 0
        elif isinstance(self.prec, tuple):
            p = None if self.prec[1] < 0 else self.prec[1]
        else:
            p = self.prec
        return minus, w, p


def wrap_s(bits, v):
    v &= (1 << bits) - 1
    return v - (1 << bits) if v >> (bits - 1) else v


def wrap_u(bits, v):
    return v & ((1 << bits) - 1)


def int_value(d):
    """the converted integer argument (7.21.6.1 paragraph 7)"""
    bits = {"": 32, "hh": 8, "h": 16}.get(d.ln, 64)
    return wrap_s(bits, d.val) if d.conv in "di" else wrap_u(bits, d.val)


def to_base(n, base, upper):
    s = ""
    while n:
        s = ("0123456789ABCDEF" if upper else "0123456789abcdef")[n % base] + s
        n //= base
    return s


def py_directive(d):
    """the bytes C's printf writes for one directive, or None where C11 leaves it undefined / invalid.  Written from the
    standard's text, independently of the library and of the Lean files."""
    minus, w, p = d.eff()
    f = d.flags
    c = d.conv

    def field(core):
        pad = b" " * max(0, w - len(core))
        return core + pad if minus else pad + core
    if c in "diuxXo":
        if d.ln == "L" or ("#" in f and c in "diu"):
            return None
        v = int_value(d)
        base = 16 if c in "xX" else 8 if c == "o" else 10
        digs = to_base(abs(v), base, c == "X")
        digs = "0" * max(0, (1 if p is None else p) - len(digs)) + digs
        if "#" in f and c == "o" and not digs.startswith("0"):
            digs = "0" + digs
        pre = ("0X" if c == "X" else "0x") if ("#" in f and c in "xX" and v != 0) else ""
        sign = ""
        if c in "di":
            sign = "-" if v < 0 else "+" if "+" in f else " " if " " in f else ""
        fill = ""
        if "0" in f and not minus and p is None:
            fill = "0" * max(0, w - len(sign) - len(pre) - len(digs))
        return field((sign + pre + fill + digs).encode())
    if c == "c" and d.ln == "":
        if "#" in f or "0" in f or d.prec is not None:
            return None
        return field(bytes([d.val & 0xFF]))
    if c == "s" and d.ln == "":
        if "#" in f or "0" in f or d.val is None:
            return None
        return field(bytes(d.val) if p is None else bytes(d.val)[:p])
    return None


# ------------------------------------------------------------------ deviation classes (from the INPUT only)
CLASS_ORDER = ["negative-star-precision", "minus-drops-precision", "digit-buffer-32", "hash-takes-digits", "hash-octal-precision",
               "width-numeral-wraps", "lc-clobbers-dest", "lc-nul", "s-precision0-precheck"]


def dev_classes(d, dmax=None, idx=None):
    """which documented deviation classes of the engine a directive falls in (computed from the directive and its value)"""
    cl = []
    minus, w, p = d.eff()
    f = d.flags
    c = d.conv
    if isinstance(d.prec, tuple) and d.prec[1] < 0 and c in "diuxXos":
        cl.append("negative-star-precision")
    if (isinstance(d.width, int) and d.width >= 2**31) or (isinstance(d.prec, int) and d.prec >= 2**31):
        cl.append("width-numeral-wraps")
    if c in "diuxXo" and d.ln != "L":
        v = int_value(d)
        a = abs(v)
        base = 16 if c in "xX" else 8 if c == "o" else 10
        hasp = d.prec is not None              # the engine: FLAGS_PRECISION
        pe = 0 if (p is None) else p           # the engine's precision number
        if isinstance(d.prec, tuple) and d.prec[1] < 0 and "negative-star-precision" in REPAIRED:
            hasp, pe = False, 0                # repaired: a negative '*' precision is taken as omitted (C11 7.21.6.1p5)
        nd = len(to_base(a, base, False)) if a else (0 if hasp else 1)
        zp = "0" in f and not hasp and not minus
        hash_ = "#" in f and c in "xXo" and a != 0
        sign = c in "di" and (v < 0 or "+" in f or " " in f)
        k = 2 if c in "xX" else 1
        nz = max(nd, pe) if hasp else nd
        if c == "o" and "#" in f and (hash_ or (a == 0 and hasp and pe == 0)) and not (hasp and pe > nd):
            nz = nd + 1
        body = nz + (2 if hash_ and c in "xX" else 0) + (1 if sign else 0)
        if zp:
            body = max(body, w)
        if body > NTOA:
            cl.append("digit-buffer-32")
        if minus and hasp and pe > nd:
            cl.append("minus-drops-precision")
        if hash_ and not hasp:
            if zp:
                if nd <= w - (1 if sign else 0) < nd + k:
                    cl.append("hash-takes-digits")
            elif nd == w:
                cl.append("hash-takes-digits")
        if "#" in f and c == "o" and hasp and ((a != 0 and pe > nd) or (a == 0 and pe == 0)):
            cl.append("hash-octal-precision")
    if c == "c" and d.ln == "l":
        cl.append("lc-nul" if d.val == 0 else "lc-clobbers-dest")
    if c == "s" and d.ln == "" and d.val is not None and d.prec is not None and p == 0 and len(d.val) > 0:
        cl.append("s-precision0-precheck")
    return [x for x in CLASS_ORDER if x in cl and x not in REPAIRED]


# classes whose repair is in the tree: the model says which switches of `Fixes` are on (`pf=fixes`); an input of such a
# class is expected to behave like C now, so the class no longer labels (or excuses) anything
REPAIRED = set()
FIX_CLASSES = [("minus-drops-precision",), ("hash-takes-digits", "hash-octal-precision"), ("negative-star-precision",),
               ("lc-clobbers-dest",), ("s-precision0-precheck",), ()]


def set_repaired(bits):
    REPAIRED.clear()
    for b, cls in zip(bits or "", FIX_CLASSES):
        if b == "1":
            REPAIRED.update(cls)


# ------------------------------------------------------------------ cases
class Case:
    __slots__ = ("fn", "dmax", "items", "origin", "slack", "key", "noref")

    def __init__(self, fn, dmax, items, origin, slack=1):
        self.fn, self.dmax, self.items, self.origin, self.slack = fn, dmax, items, origin, slack
        self.key = None
        self.noref = False

    def fmt(self):
        return b"".join(i.text().encode("latin-1") if isinstance(i, D) else bytes(i).replace(b"%", b"%%") for i in self.items)

    def args(self):
        a = []
        for i in self.items:
            if isinstance(i, D):
                a += i.args()
        return a

    def hline(self):
        return "fn=%s dmax=%d fmt=%s args=%s%s" % (self.fn, self.dmax, bhex(self.fmt()), ",".join(self.args()) or "-", " noref=1" if self.noref else "")

    def mline(self):
        return "pf=%s slack=%d dmax=%d fmt=%s args=%s" % (self.fn, self.slack, self.dmax, bhex(self.fmt()), ",".join(self.args()) or "-")

    def desc(self):
        return "%s(dmax=%d, %r, %s)" % (self.fn, self.dmax, self.fmt().decode("latin-1"), ", ".join(self.args()))

    def directives(self):
        return [i for i in self.items if isinstance(i, D)]

    def expected(self):
        """C's text for the whole format from the Python rendering of the standard, or None if some directive is not defined there"""
        out = b""
        for i in self.items:
            if isinstance(i, D):
                t = py_directive(i)
                if t is None:
                    return None
                out += t
            else:
                out += bytes(i)
        return out

    def has_float(self):
        return any(d.conv in "fFeEgGaA" for d in self.directives())


FLAGSETS = ["".join(c for c, b in zip("-+ #0", bits) if b) for bits in itertools.product([0, 1], repeat=5)]
WIDTHS = [None, 1, 5, 31, 32, 33, 40, ("*", 7), ("*", -7)]
PRECS = [None, ".", 0, 1, 5, 31, 32, 33, ("*", 6), ("*", -3)]
LENS = ["", "hh", "h", "l", "ll", "z", "j", "t"]
IVALS = [0, 1, -1, 9, 10, 255, 256, -128, 32767, 65535, INT_MIN, INT_MAX, UINT_MAX, LLONG_MIN, LLONG_MAX, ULLONG_MAX, 123456789, -987654321012]


IVALS_T = [0, -1, 255, INT_MIN, LLONG_MAX, ULLONG_MAX]      # the thorough tier's complete product uses these six values


def gen_int_grid(rng, tier):
    """every conversion x every flag subset x widths x precisions, with length modifiers and values rotated through (quick) or in
    full (thorough: the complete product)"""
    out = []
    n = 0
    for conv in "diuxXo":
        for fl in FLAGSETS:
            for w in WIDTHS:
                for p in PRECS:
                    if tier == "quick":
                        picks = [(LENS[(n + j * 3) % len(LENS)], IVALS[(n * 7 + j * 5 + rng.randrange(len(IVALS))) % len(IVALS)]) for j in range(2)]
                        picks.append(("", 0))
                    else:
                        picks = [(l, v) for l in LENS for v in IVALS_T]
                    n += 1
                    for ln, v in picks:
                        out.append(Case("sprintf_s", 128, [D(fl, w, p, ln, conv, v)], "int-grid"))
    return out


STRS = [b"", b"a", b"hello", b"h\xc3\xa9llo w\xc3\xb6rld", b"x" * 40, b"0123456789" * 30]


def gen_cs(rng, tier):
    out = []
    for fl in ["", "-", "+", " ", "- ", "0", "#", "-0"]:
        for w in [None, 1, 2, 5, 40, ("*", 4), ("*", -4)]:
            for v in [65, 0, 255, 0x141, -1, 37]:
                out.append(Case("sprintf_s", 64, [D(fl, w, None, "", "c", v)], "c-grid"))
            for p in [None, ".", 0, 1, 3, 5, 50, ("*", 2), ("*", -1)]:
                for s in STRS:
                    out.append(Case("sprintf_s", 512, [D(fl, w, p, "", "s", s)], "s-grid"))
            out.append(Case("sprintf_s", 64, [D(fl, w, None, "", "s", None)], "s-null"))
    # wide: ASCII, empty, non-ASCII (encoding error in the C locale), NULL
    for fl in ["", "-"]:
        for w in [None, 3, 8]:
            for v in [65, 120, 0, 0xE9, 0x4E2D, -1]:
                for pre in [b"", b"ab"]:
                    out.append(Case("sprintf_s", 64, [pre, D(fl, w, None, "l", "c", v)], "lc-grid"))
            for p in [None, 0, 2, 9]:
                for ws in [[], [0x41], [0x68, 0x65, 0x6C, 0x6C, 0x6F], [0x68, 0xE9], [0x4E2D], None]:
                    out.append(Case("sprintf_s", 64, [b"<", D(fl, w, p, "l", "s", ws), b">"], "ls-grid"))
    return out


def dbits(x):
    return struct.unpack("<Q", struct.pack("<d", x))[0]


def ldbits(fr):
    """x87 80-bit pattern of a double value given as float (exactly representable)"""
    import math
    if fr != fr:
        return 0x7FFFC000000000000000
    sign = 1 if math.copysign(1.0, fr) < 0 else 0
    if fr in (float("inf"), float("-inf")):
        return (sign << 79) | (0x7FFF << 64) | (1 << 63)
    if fr == 0:
        return sign << 79
    m, e = math.frexp(abs(fr))            # abs = m * 2**e, 0.5 <= m < 1
    mant = int(m * (1 << 64))             # 64-bit significand with explicit integer bit (exact: m has 53 bits)
    return (sign << 79) | ((e - 1 + 16383) << 64) | mant


FVALS = [0.0, -0.0, 1.0, -1.0, 0.5, 1.5, 2.5, 0.125, 3.14159265358979, 123456.789, 1e-5, 9.9999995e-5, 0.1, 0.3, 999999.9999995, 1e6,
         5e-324, 2.2250738585072014e-308, 999999999.0, 1e9, 1000000000.5, 1e9 + 1, 4294967296.0, 1e10, 1e15, 1e17, 1e300, 1.7976931348623157e308,
         float("inf"), float("-inf"), float("nan"), 0.05, 0.95, 9.5, 99.5, 0.001234, 1234567.0, 0.0001, 0.00001234]


def gen_float(rng, tier):
    out = []
    flags = ["", "-", "+", " ", "#", "0", "-+", "+0", "#0", " 0", "-#"]
    widths = [None, 1, 8, 20, 40, ("*", 12)]
    precs = [None, ".", 0, 1, 3, 6, 9, 10, 12, 17, ("*", 4)]
    n = 0
    for conv in "fFeEgGaA":
        for ln in ["", "L"]:
            for fl in flags:
                for w in widths:
                    for p in precs:
                        n += 1
                        vs = FVALS if tier != "quick" else [FVALS[(n * 5 + j * 11) % len(FVALS)] for j in range(2)]
                        if (conv in "aA" or ln == "L") and (isinstance(w, tuple) or isinstance(p, tuple)):
                            continue        # `*` with a directive that is handed to libc: see the star-handoff cases below
                        for v in vs:
                            bits = ldbits(v) if ln == "L" else dbits(v)
                            out.append(Case("sprintf_s", 512, [b"[", D(fl, w, p, ln, conv, bits), b"]"], "float-grid"))
    # %a / %L? directives are handed to libc snprintf as a format substring WITHOUT their `*` arguments
    out.append(Case("sprintf_s", 512, [b"[", D("", ("*", 12), None, "", "a", dbits(1.5)), b"]"], "star-handoff"))
    out.append(Case("sprintf_s", 512, [b"[", D("", ("*", 12), None, "L", "f", ldbits(1.5)), b"]"], "star-handoff"))
    out.append(Case("sprintf_s", 512, [b"[", D("", None, ("*", 3), "L", "e", ldbits(1.5)), b"]"], "star-handoff"))
    return out


def rand_directive(rng, allow_float=True, allow_wide=True):
    r = rng.random()
    fl = "".join(c for c in "-+ #0" if rng.random() < 0.25)
    w = rng.choice([None, None, 1, 3, 8, 12, 31, 32, 33, 40, ("*", rng.randint(-12, 12))])
    p = rng.choice([None, None, ".", 0, 1, 4, 9, 20, 31, 32, 33, ("*", rng.randint(-3, 12))])
    if r < 0.55:
        conv = rng.choice("diuxXo")
        ln = rng.choice(LENS)
        v = rng.choice(IVALS + [rng.randint(-2**63, 2**64 - 1), rng.randint(-300, 300), rng.randint(-2**31, 2**32 - 1)])
        return D(fl, w, p, ln, conv, v)
    if r < 0.65:
        return D(fl.replace("#", "").replace("0", ""), w if not isinstance(w, int) or w < 31 else 5, None, "", "c", rng.choice([65, 97, 48, 0, 200, 0x2541]))
    if r < 0.80:
        s = rng.choice(STRS[:5] + [bytes(rng.choice(b"abc xyz%") for _ in range(rng.randint(0, 20)))])
        return D(fl.replace("#", "").replace("0", ""), w, p, "", "s", s if rng.random() > 0.03 else None)
    if r < 0.86 and allow_wide:
        if rng.random() < 0.4:
            return D(rng.choice(["", "-"]), rng.choice([None, 3, 6]), None, "l", "c", rng.choice([65, 90, 0, 0xE9, 0x4E2D]))
        ws = rng.choice([[0x41, 0x42, 0x43], [], [0x61] * 12, [0x61, 0xE9], None, [0x7A]])
        return D(rng.choice(["", "-"]), rng.choice([None, 3, 6, 20]), rng.choice([None, None, 0, 2, 30]), "l", "s", ws)
    if allow_float:
        conv = rng.choice("fFeEgGaA")
        ln = rng.choice(["", "", "L"])
        v = rng.choice(FVALS + [rng.uniform(-1000, 1000), rng.uniform(0, 1), rng.uniform(-1e9, 1e9), 10 ** rng.uniform(-12, 12)])
        if conv in "aA" or ln == "L":
            w = None if isinstance(w, tuple) else w
            p = None if isinstance(p, tuple) else p
        return D(fl, w if not isinstance(w, int) or w < 30 else 12, p if not isinstance(p, int) or p < 18 else 6, ln, conv, ldbits(v) if ln == "L" else dbits(v))
    return D(fl, w, p, "", "d", rng.randint(-99999, 99999))


def gen_random(rng, tier, count):
    """formats with 0..4 directives + literal text incl. %%, over all eight entry points, dmax around the needed size"""
    out = []
    for _ in range(count):
        items = []
        nd = rng.choice([0, 1, 1, 2, 2, 3, 4])
        for k in range(nd):
            if rng.random() < 0.7:
                items.append(bytes(rng.choice(b"ab z%:,") for _ in range(rng.randint(1, 6))))
            d = rand_directive(rng)
            if d.conv in "fFeEgGaA":
                items.append(b"|"); items.append(d); items.append(b"|")
            else:
                items.append(d)
        if rng.random() < 0.6 or not items:
            items.append(bytes(rng.choice(b"end %.") for _ in range(rng.randint(0, 5))))
        if any(isinstance(i, D) and i.conv in "fFeEgGaA" for i in items):
            # the float pieces are cut out of the output between the exact renderings of the other pieces
            for k, i in enumerate(items):
                while isinstance(i, D) and i.conv not in "fFeEgGaA" and (dev_classes(i) or py_directive(i) is None or b"|" in py_directive(i) or b"\x00" in py_directive(i)):
                    i = rand_directive(rng, allow_float=False, allow_wide=False)
                items[k] = i
        c0 = Case("sprintf_s", 600, items, "random")
        exp = c0.expected()
        need = len(exp) + 1 if exp is not None else None
        fn = rng.choice(ENGINE_FNS + ["vprintf_s"])
        dsl = [i for i in items if isinstance(i, D)]
        if fn == "printf_s" and any(d.conv == "c" and d.ln == "l" for d in dsl[:-1]):
            fn = "fprintf_s"      # after the frame damage printf_s fetches garbage arguments (field widths of 10^9): kept out of the random stream
        if fn in BUF_FNS:
            dm = [600]
            if need is not None and need < 590:
                dm += [max(1, need - 1), need, need + 1] + ([max(1, need - rng.randint(2, 9))] if rng.random() < 0.3 else [])
            for d_ in dm:
                out.append(Case(fn, d_, items, "random"))
        else:
            out.append(Case(fn, 0, items, "random"))
            out.append(Case("sprintf_s", 600, items, "random"))
    return out


def gen_edges(rng, tier):
    out = []
    lit = lambda b: [b]
    # entry checks, literal text, %%, exact fit, unknown / illegal directives
    for fn in BUF_FNS:
        for text in [b"", b"a", b"abc", b"100%", b"%"[:0] + b"x" * 31, b"y" * 100]:
            for dm in sorted({1, 2, len(text), len(text) + 1, len(text) + 2, 64}):
                if dm >= 1:
                    out.append(Case(fn, dm, lit(text), "literal"))
        out.append(Case(fn, 0, lit(b"abc"), "entry"))
    for fn in ENGINE_FNS:
        for bad in ["%y", "%", "%5", "%ll", "%n", "%ln", "%hhn", "%5n", "%.3n", "%Ld", "%Lx", "%w", "abc%", "%-", "%lq", "%k%d", "%hL"]:
            c = Case(fn, 64 if fn in BUF_FNS else 0, [b"ok"], "illegal")
            c.items = [RawFmt(b"ok" + bad.encode(), ["i:1", "i:2"])]
            out.append(c)
    # width / precision numerals: large, leading zeros, 2^32 wrap-around
    for wtxt in ["4294967297", "4294967301", "2147483647", "2147483615", "2147483614", "99999", "4095", "4096"]:
        out.append(Case("sprintf_s", 64, [RawFmt(("%" + wtxt + "d").encode(), ["i:5"])], "numeral"))
        out.append(Case("sprintf_s", 64, [RawFmt(("%." + wtxt + "d").encode(), ["i:5"])], "numeral"))
        out.append(Case("sprintf_s", 64, [RawFmt(("%-" + wtxt + "s|").encode(), ["s:6162"])], "numeral"))
    out.append(Case("sprintf_s", 64, [RawFmt(b"%*d", ["i:-2147483648", "i:5"])], "numeral"))
    for c in out:
        if c.origin == "numeral":
            c.noref = True
    # %p, %b (outside the documented list: executed for memory safety and model agreement only)
    for v in [0, 1, 0x7FFDEADBEEF0, 2**64 - 1]:
        out.append(Case("sprintf_s", 64, [D("", None, None, "", "p", v)], "p"))
        out.append(Case("sprintf_s", 128, [D("", None, None, "l", "b", v)], "b"))
        out.append(Case("sprintf_s", 128, [D("#", 12, None, "", "b", v)], "b"))
    # dmax sweep around the needed size for single directives of every kind
    for d in [D("", None, None, "", "d", -12345), D("+", 8, 3, "l", "d", 77), D("#", None, None, "", "x", 255), D("-", 6, None, "", "s", b"abc"),
              D("", 6, 2, "", "s", b"abcdef"), D("", 3, None, "", "c", 65), D("0", 10, None, "ll", "u", ULLONG_MAX), D("", None, None, "", "s", b"")]:
        e = py_directive(d)
        for fn in BUF_FNS:
            for dm in range(1, len(e) + 4):
                out.append(Case(fn, dm, [d], "dmax-sweep"))
                out.append(Case(fn, dm + 2, [b"p=", d], "dmax-sweep"))
                out.append(Case(fn, dm + 1, [d, b";"], "dmax-sweep"))
    # stream variants: total text lengths around the sizes an implementation might stage through (powers of two and the
    # stdio buffer sizes), as literal text, as one padded directive and as a mix — the bytes must be the text, whatever its length
    for fn in STREAM_FNS:
        for n in [63, 64, 65, 127, 128, 129, 255, 256, 257, 511, 512, 513, 1023, 1024, 1025, 4095, 4096, 4097, 8191, 8192, 8193]:
            lit = bytes(0x61 + i % 26 for i in range(n))
            out.append(Case(fn, 0, [lit], "stream-length"))
            out.append(Case(fn, 0, [D("", n, None, "", "d", 7)], "stream-length"))
            out.append(Case(fn, 0, [lit[:n - 3], D("", None, None, "", "d", 123)], "stream-length"))
            out.append(Case(fn, 0, [D("-", n - 1, None, "", "s", b"xy"), b"|"], "stream-length"))
    # %lc with small destinations (the stray two-byte copy to dest[0])
    for dm in [1, 2, 3, 8]:
        for pre in [b"", b"a", b"abcd"]:
            out.append(Case("sprintf_s", dm, [pre, D("", None, None, "l", "c", 120)], "lc-small"))
    return out


class RawFmt:
    """a piece of format given literally (for formats outside the grammar) with its argument tokens"""

    def __init__(self, raw, args):
        self.raw, self._args = raw, args
    conv, ln = "?", ""

    def text(self):
        return self.raw.decode("latin-1")

    def args(self):
        return list(self._args)


def _raw_patch():
    # RawFmt items behave like directives the Python spec does not define
    def is_d(i):
        return isinstance(i, (D, RawFmt))
    Case.fmt = lambda self: b"".join(i.text().encode("latin-1") if is_d(i) else bytes(i).replace(b"%", b"%%") for i in self.items)
    Case.args = lambda self: [a for i in self.items if is_d(i) for a in i.args()]
    old = Case.expected

    def expected(self):
        if any(isinstance(i, RawFmt) for i in self.items):
            return None
        return old(self)
    Case.expected = expected


_raw_patch()


# ------------------------------------------------------------------ running
def run_parallel(cmd, lines, workers=4):
    chunks = [lines[i::workers] for i in range(workers)]

    def one(ch):
        if not ch:
            return {}
        o, rc, err = proto.run_lines(cmd, ch, timeout=3000)
        if rc != 0:
            raise RuntimeError("%s exited %d: %s" % (cmd[0], rc, err[:300]))
        return o
    res = {}
    with ThreadPoolExecutor(max_workers=workers) as ex:
        for o in ex.map(one, chunks):
            res.update(o)
    return res


def unh(s):
    return b"" if s in (None, "-") else bytes.fromhex(s)


def invalid_arg(c):
    """does the case pass an argument the documentation calls invalid (NULL string, character with no multibyte form in the C locale)?"""
    for d in c.directives():
        if d.conv == "s" and d.val is None:
            return True
        if d.conv == "c" and d.ln == "l" and not (0 <= d.val < 128):
            return True
        if d.conv == "s" and d.ln == "l" and d.val is not None:
            _, _, p = d.eff()
            if any(x >= 128 for x in (d.val if p is None else d.val[:p] if p else d.val)):
                return True
    return False


def float_classes(d, tags):
    """input class of a float directive (for the signature of a finding): from the directive and its value only"""
    import math
    minus, w, p = d.eff()
    cl = []
    if d.ln == "L":
        cl.append("L")
    return cl


def float_value(d):
    import fmt_float_oracle as ffo
    return ffo.frac_of_x87_bits(d.val) if d.ln == "L" else ffo.frac_of_double_bits(d.val)


def float_input_class(d):
    """coarse, input-derived class of a float directive: which documented rough edge of the engine it touches"""
    v = float_value(d)
    minus, w, p = d.eff()
    c = d.conv.lower()
    big = isinstance(v, Fraction) and abs(v) > 10**9
    if (c == "a" or d.ln == "L") and (isinstance(d.width, tuple) or isinstance(d.prec, tuple)):
        return "star-handoff"
    if c == "a":
        return "a"
    if d.ln == "L":
        return "L"
    pe = 6 if p is None else p
    tags = []
    if big and c == "f":
        tags.append("f-above-1e9")
    if pe > 9:
        tags.append("prec-above-9")
    if c == "g":
        tags.append("g")
    if c == "e":
        tags.append("e")
    if isinstance(d.prec, tuple) and d.prec[1] < 0:
        tags.append("negstar")
    if isinstance(v, str):
        tags.append("nonfinite")
    return "+".join(tags) or c


def split_float_pieces(c, out):
    """output text of each float directive of a case whose float directives are enclosed in '|' or '[' ']' literals.
    Returns [(directive, bytes)] or None if the output does not have the expected shape."""
    rx = b""
    ds = []
    for i in c.items:
        if isinstance(i, D) and i.conv in "fFeEgGaA":
            rx += b"([^|\\[\\]]*)"
            ds.append(i)
        elif isinstance(i, D):
            t = py_directive(i)
            if t is None:
                return None
            rx += re.escape(t)
        elif isinstance(i, RawFmt):
            return None
        else:
            rx += re.escape(bytes(i))
    m = re.fullmatch(rx, out, re.S)
    if not m:
        return None
    return list(zip(ds, m.groups()))


def case_class(c):
    """input class used in signatures that are not tied to one directive"""
    for d in c.directives():
        if isinstance(d, D):
            k = dev_classes(d)
            if k:
                return k[0]
    for d in c.directives():
        if isinstance(d, D) and d.conv in "fFeEgGaA":
            return float_input_class(d)
    return "unclassified"


def oracle(c, dc, dm):
    """the property on one implementation observation -> [(sig, detail)]"""
    import fmt_float_oracle as ffo
    fails = []
    if c.fn == "printf_s" and dm is not None and dm.get("why") == "fault":
        # printf_s hands the engine `char buffer[1]`; %lc copies two bytes there.  What happens next depends on the frame layout
        # (with gcc -O0 the va_list is hit and later arguments are fetched from the wrong place), so nothing else is judged.
        return [("printf_s:lc:overruns-local-buffer", "%%lc stores two bytes into printf_s's one-byte local buffer; out=%r C=%r" % (unh(dc["out"])[:40], unh(dc["ref"])[:40]))]
    ret = int(dc["ret"])
    out = unh(dc["out"])
    ref = unh(dc["ref"])
    refret = int(dc["refret"])
    sig = int(dc["sig"])
    isbuf = c.fn in BUF_FNS
    ds = c.directives()
    classes = [k for d in ds for k in dev_classes(d)]
    first = classes[0] if classes else None
    kind = "float" if c.has_float() else "fmt"
    if sig:
        fails.append(("%s:crash:%s" % (c.fn, first or "unclassified"), "signal %d, fault offset %s relative to dest (dmax=%d)" % (sig, dc["fo"], c.dmax)))
        return fails
    if dc.get("under") == "1":
        fails.append(("%s:writes-below-dest" % c.fn, "bytes in front of dest changed"))
    exp = c.expected()
    defined = exp is not None
    if c.fn == "vprintf_s":
        defined = defined or not any(isinstance(i, RawFmt) for i in c.items)
    if c.fn == "vprintf_s":
        # vprintf_s hands format and arguments to libc's vprintf: what it writes IS the C library's text (also for floats, where
        # glibc has quirks of its own, e.g. %#Lg); it is compared with glibc's vsnprintf on the same arguments
        if refret >= 0 and (ret != refret or out != ref):
            fails.append(("vprintf_s:differs-from-libc", "got %r (ret=%d), libc gives %r (%d)" % (out[:80], ret, ref[:80], refret)))
        return fails
    if c.has_float():
        # integer / string parts must be exact, float parts are judged by layout + one unit of the last digit
        if ret >= 0:
            pieces = split_float_pieces(c, out)
            if pieces is None:
                if refret >= 0 and out != ref:
                    fails.append(("%s:float:unparsable-output:%s" % (c.fn, case_class(c)), "got %r, C gives %r" % (out[:80], ref[:80])))
            else:
                for d, txt in pieces:
                    minus, w, p = d.eff()
                    if isinstance(d.prec, tuple) and d.prec[1] < 0:
                        p = None
                    tags = ffo.check_float(d.conv, d.flags + ("-" if minus and "-" not in d.flags else ""), w, p, float_value(d), txt)
                    tags = [t for t in tags if t != "value:not-nearest"]
                    for t in tags[:1]:
                        fails.append(("%s:float:%s:%s" % (c.fn, t, float_input_class(d)), "%s of %s printed as %r (C: %r)" % (d.text(), float_value(d) if isinstance(float_value(d), str) else float(float_value(d)), txt, ref[:60])))
            if isbuf and ret != len(out):
                fails.append(("%s:float:count:%s" % (c.fn, case_class(c)), "ret=%d but %d characters stored (a NUL inside the text)" % (ret, len(out))))
        return fails
    if not defined or refret < 0:
        # outside what C11 defines (or glibc itself fails): only memory safety and the model are checked
        if ret >= 0 and isbuf and ret != len(out) and not (ret == c.dmax):
            pass
        return fails
    exp = exp if exp is not None else ref
    if c.fn == "printf_s" and b"\x00" in exp:
        strip = exp.replace(b"\x00", b"")
        if ret >= 0 and out == strip:
            fails.append(("printf_s:nul-character-dropped", "C writes the NUL of %%c, printf_s drops it: %r vs %r" % (out[:60], exp[:60])))
            return fails
    if ret >= 0:
        want = exp
        stored = out
        if isbuf and b"\x00" in want:
            want = want[:want.index(b"\x00")]          # dest is read back as a C string
        if isbuf and len(exp) >= c.dmax:
            if ret == c.dmax and len(exp) == c.dmax:
                fails.append(("%s:exact-fit:nonnegative-return" % c.fn, "text of exactly dmax=%d characters: ret=%d, dest holds %r" % (c.dmax, ret, out[:60])))
            else:
                fails.append(("%s:does-not-fit-but-succeeds:%s" % (c.fn, first or "unclassified"), "C's text has %d characters, dmax=%d, ret=%d" % (len(exp), c.dmax, ret)))
        elif stored != want or ret != len(exp):
            fails.append(("%s:%s:%s" % (c.fn, "text-differs" if stored != want else "count-differs", first or "unclassified"),
                          "got %r (ret=%d), C gives %r (%d)" % (stored[:80], ret, exp[:80], len(exp))))
    else:
        fits = (not isbuf) or len(exp) < c.dmax
        if fits and not invalid_arg(c):
            fails.append(("%s:spurious-failure:%s" % (c.fn, first or "unclassified"), "ret=%d although C's text %r (%d characters) fits dmax=%d" % (ret, exp[:60], len(exp), c.dmax)))
        if isbuf:
            cells = unh(dc.get("cells"))
            if cells and cells[0] != 0:
                fails.append(("%s:failed-but-dest-not-cleared" % c.fn, "dest[0]=%d after ret=%d" % (cells[0], ret)))
    return fails


def projection_diff(c, dc, dm):
    """None if the model's observation equals the implementation's, else a description"""
    if dm.get("why") in ("unmodelled",):
        return None
    isig = int(dc["sig"]) != 0
    if c.fn == "printf_s" and dm.get("why") == "fault":
        return None          # the two-byte copy into printf_s's `char buffer[1]`: no signal, the caller's frame is damaged (see oracle)
    if dm.get("why") == "fault" or isig:
        return None if (dm.get("why") == "fault") == isig else "fault: impl sig=%s, model %s" % (dc["sig"], dm.get("why"))
    if dm.get("why") == "stuck":
        return "model stuck (argument list does not match the format as the engine reads it)"
    if dm["ret"] != dc["ret"]:
        return "ret: impl %s, model %s" % (dc["ret"], dm["ret"])
    if c.fn in BUF_FNS:
        if int(dc["ret"]) < 0 and not c.slack:
            # `*dest = '\0'`: what the engine wrote before it failed stays behind the terminator (not part of the C11 projection)
            if dm.get("cells", "")[:2] != dc.get("cells", "")[:2]:
                return "dest[0] after failure: impl %s, model %s" % (dc.get("cells", "")[:2], dm.get("cells", "")[:2])
        elif dm.get("cells") != dc.get("cells"):
            return "dest image: impl %s, model %s" % (dc.get("cells", "")[:80], dm.get("cells", "")[:80])
    elif int(dc["ret"]) >= 0 and dm.get("out") != dc.get("out"):
        return "stream bytes: impl %s, model %s" % (dc.get("out", "")[:80], dm.get("out", "")[:80])
    return None


KNOWN_FLOAT_RE = None


def run(tier, seed, replay=None):
    res = Result(PID, tier, seed)
    orch.gen_mod.main()
    mkoblig.main()
    targets = orch.prop_targets(PID)
    lean_ok, lean_log, dt = orch.lake_build(targets)
    res.extra["lean_build_s"] = round(dt, 1)
    drv_ok = lean_ok or orch.lake_build(["safec_model"])[0]
    obs = orch.obligations(PID)
    audit, _ = orch.audit_axioms(PID, obs) if lean_ok else ([dict(o, ok=False, axioms=None, error="build failed") for o in obs], "")
    forb = orch.forbidden_tokens()
    known = orch.load_known()
    gp = open(os.path.join(orch.LEAN, "SafeC", "Gen", "Printf.lean")).read()
    if not re.search(r"def PRINTF_NTOA_BUFFER_SIZE : Nat := %d\b" % NTOA, gp):
        res.mismatch.append(dict(kind="correspondence", property=PID, fn="constants", what="PRINTF_NTOA_BUFFER_SIZE is no longer %d in src/str/vsnprintf_s.c" % NTOA))
    fxenv = os.environ.get("VERIF_C11_FX", "")
    fx = (" fx=" + fxenv) if re.fullmatch(r"[01]{6}", fxenv) else ""

    def build(slack):
        L = buildlib.build(slack=bool(slack))
        return buildlib.build_harness(L, os.path.join(VERIF, "harness", "hprintf.c"), os.path.join(L["dir"], "hprintf"))

    if replay:
        rep = json.load(open(replay))
        if "h" not in rep:
            print(json.dumps(rep, indent=1)[:4000]); return 0
        hbin = build(rep.get("slack", 1))
        c, _, _ = proto.run_lines([hbin], ["id=0 " + rep["h"]])
        m, _, _ = proto.run_lines([orch.MODEL_BIN], ["id=0 " + rep["m"] + fx])
        print("case :", rep.get("desc"))
        print("impl :", {k: v for k, v in c.get("0", {}).items() if k != "id"})
        print("model:", {k: v for k, v in m.get("0", {}).items() if k != "id"})
        print("recorded impl:", rep.get("impl"))
        same = {k: v for k, v in c.get("0", {}).items() if k != "id"} == {k: v for k, v in (rep.get("impl") or {}).items() if k != "id"}
        print("reproduced" if same else "differs from the recorded observation")
        return 0

    if drv_ok:
        fxo, _, _ = proto.run_lines([orch.MODEL_BIN], ["id=0 pf=fixes"])
        res.extra["model_fixes"] = dict(order="minusPrec,hash,negStarPrec,lcMemcpy,strPrec0,sprintfExact", current=fxo.get("0", {}).get("fx"), override=fx.strip() or None)
        set_repaired(fxenv if fx else fxo.get("0", {}).get("fx"))
    rng = random.Random(seed * 7919 + 11)
    t0 = time.time()
    thorough = tier != "quick"
    cases = gen_edges(rng, tier) + gen_int_grid(rng, tier) + gen_cs(rng, tier) + gen_float(rng, tier) + gen_random(rng, tier, 60000 if thorough else 9000)
    # the other entry points on a sample of the grid cases (same text expected from every sink)
    grid = [c for c in cases if c.origin in ("int-grid", "c-grid", "s-grid", "float-grid", "lc-grid", "ls-grid")]
    for c in rng.sample(grid, min(len(grid), 40000 if thorough else 6000)):
        fn = rng.choice(ENGINE_FNS[1:] + ["vprintf_s"])
        cases.append(Case(fn, c.dmax if fn in BUF_FNS else 0, c.items, c.origin + "/fn"))
        if fn in BUF_FNS:
            e = c.expected()
            if e is not None:
                for dm in {max(1, len(e) - 1), len(e), len(e) + 1}:
                    cases.append(Case(rng.choice(BUF_FNS), max(1, dm), c.items, c.origin + "/dmax"))
    seen, uniq = set(), []
    for c in cases:
        k = (c.fn, c.dmax, c.fmt(), tuple(c.args()))
        if k not in seen:
            seen.add(k); c.key = k; uniq.append(c)
    cases = uniq
    log("  C11: %d distinct cases generated in %.1fs" % (len(cases), time.time() - t0))
    # Lean spec and Python spec and glibc must agree wherever the Lean spec is defined (checked below per case)
    configs = [1, 0] if thorough else [1]
    sample0 = None if thorough else set(rng.sample(range(len(cases)), min(len(cases), 15000)))
    nspec = 0
    for slack in ([1, 0]):
        idxs = list(range(len(cases))) if (slack == 1 or thorough) else sorted(sample0)
        sub = [cases[i] for i in idxs]
        for c in sub:
            c.slack = slack
        hbin = build(slack)
        # every case twice, in two independently shuffled halves of one stream (statelessness: unrelated calls in between)
        order1 = list(range(len(sub))); order2 = list(range(len(sub)))
        rng.shuffle(order1); rng.shuffle(order2)
        hl = ["id=a%d %s" % (i, sub[i].hline()) for i in order1] + ["id=b%d %s" % (i, sub[i].hline()) for i in order2]
        t1 = time.time()
        ci = run_parallel([hbin], hl, workers=4)
        t2 = time.time()
        mi = run_parallel([orch.MODEL_BIN], ["id=%d %s%s" % (i, c.mline(), fx) for i, c in enumerate(sub)], workers=4) if drv_ok else {}
        log("  C11 slack=%d: %d cases, harness %.1fs (x2 runs), model %.1fs" % (slack, len(sub), t2 - t1, time.time() - t2))
        # the sprintf_s twin of a stream case (same items, ample dmax), for the sinks comparison
        twin = {}
        for i, c in enumerate(sub):
            if c.fn == "sprintf_s" and c.dmax >= 512:
                twin[(c.fmt(), tuple(c.args()))] = i
        for i, c in enumerate(sub):
            dc, dc2, dm = ci.get("a%d" % i), ci.get("b%d" % i), mi.get(str(i))
            if dc is None or "err" in dc:
                res.notes.append("harness gave no observation for %s" % c.desc()[:200]); continue
            res.evaluations += 1
            res.count("entry", c.fn)
            res.count("origin", c.origin.split("/")[0])
            res.count("build", "slack=%d" % slack)
            ret = int(dc["ret"])
            res.count("outcome", "crash" if dc["sig"] != "0" else "ret>=0" if ret >= 0 else "ret=%d" % ret)
            for d in c.directives():
                res.count("conversion", (d.ln if d.ln in ("l", "L") and d.conv in "csfFeEgGaA" else "") + d.conv)
            if ret >= 0 and dc["sig"] == "0" and c.directives():
                res.distinct.add((c.key, slack))
            if len(res.samples) < 10 and res.evaluations % 7919 == 17:
                res.samples.append(dict(case=c.desc()[:300], harness_op=c.hline()[:400], slack=slack, impl={k: v[:200] for k, v in dc.items() if k not in ("id", "cells")},
                                        model=dm and {k: v[:200] for k, v in dm.items() if k not in ("id", "cells")}))
            fails = oracle(c, dc, dm)
            # statelessness
            if dc2 is not None and {k: v for k, v in dc.items() if k != "id"} != {k: v for k, v in dc2.items() if k != "id"}:
                fails.append(("%s:%sdepends-on-earlier-calls:%s" % (c.fn, "float:" if c.has_float() else "", case_class(c)), "two runs of the same call differ: %s vs %s" % ({k: v[:60] for k, v in dc.items()}, {k: v[:60] for k, v in dc2.items()})))
            # sinks: the stream variants emit what sprintf_s stores
            if c.fn in STREAM_FNS and ret >= 0:
                j = twin.get((c.fmt(), tuple(c.args())))
                if j is not None:
                    dt_ = ci.get("a%d" % j)
                    if dt_ and int(dt_["ret"]) >= 0 and dt_["sig"] == "0":
                        tw = unh(dt_["out"])
                        o = unh(dc["out"])
                        res.count("sinks", "compared")
                        if o != tw and not (b"\x00" in o and o[:o.index(b"\x00")] == tw) and c.fn != "vprintf_s":
                            if not (c.fn == "printf_s" and any(d.conv == "c" and d.val & 0xFF == 0 for d in c.directives())):
                                lcs = [k for d in c.directives() for k in dev_classes(d) if k.startswith("lc-")]
                                fails.append(("%s:%sstream-differs-from-buffer:%s" % (c.fn, "float:" if c.has_float() and not lcs else "", lcs[0] if lcs else case_class(c)), "stream %r, sprintf_s %r" % (o[:60], tw[:60])))
            # spec <-> glibc, spec <-> python
            diff = None
            if dm is not None and "err" not in dm:
                res.modelled.add(c.fn)
                sp = dm.get("spec")
                if sp not in (None, "none", "skipped") and int(dc["refret"]) >= 0:
                    nspec += 1
                    if unh(sp) != unh(dc["ref"]):
                        res.mismatch.append(dict(kind="correspondence", property=PID, fn="Spec.printf", what="Lean Spec.printf and glibc differ: spec %r, glibc %r" % (unh(sp)[:80], unh(dc["ref"])[:80]), desc=c.desc()))
                    e = c.expected()
                    if e is not None and e != unh(dc["ref"]):
                        res.mismatch.append(dict(kind="correspondence", property=PID, fn="py_printf", what="Python rendering and glibc differ: %r vs %r" % (e[:80], unh(dc["ref"])[:80]), desc=c.desc()))
                    if e is None and not any(isinstance(x, RawFmt) for x in c.items):
                        res.mismatch.append(dict(kind="correspondence", property=PID, fn="py_printf", what="Lean spec defines a format the Python rendering calls undefined", desc=c.desc()))
                elif sp == "none" and c.expected() is not None:
                    res.mismatch.append(dict(kind="correspondence", property=PID, fn="Spec.printf", what="Python rendering defines a format the Lean spec does not", desc=c.desc()))
                diff = projection_diff(c, dc, dm)
            elif drv_ok and c.fn != "vprintf_s":
                res.unmodelled.add(c.fn)
            agree = None if (dm is None or "err" in dm) else diff is None
            isfloat = c.has_float()
            for sig, detail in fails:
                ent = next((e for e in known if orch.known_match(e, PID, sig, slack)), None)
                # a finding in the modelled part is accepted only when the model shows the same behaviour on this input
                ok_model = (agree is True) or (isfloat and ":float:" in sig)
                if ent is not None and ok_model:
                    kk = ent.get("id") or ent.get("sig") or ent.get("sig_re")
                    hh = res.known_hit.setdefault(kk, dict(ent, count=0, example=c.desc()[:200], sigs=set()))
                    hh["count"] += 1; hh["sigs"].add(sig)
                else:
                    res.violations.append((sig, dict(kind="property-fails-on-implementation", property=PID, sig=sig, detail=detail, desc=c.desc(), fn=c.fn,
                                                     h=c.hline(), m=c.mline(), slack=slack, impl=dc, model=dm, model_predicts=agree, model_diff=diff)))
            if diff is not None and not fails:
                res.mismatch.append(dict(kind="correspondence", property=PID, fn=c.fn, what=diff, desc=c.desc(), h=c.hline(), m=c.mline(), slack=slack, impl=dc, model=dm))
    seen_mm = set()
    for x in res.mismatch:
        kk = (x.get("fn"), re.sub(r"[0-9a-f]{6,}|-?\d+", "#", str(x.get("what")))[:60])
        if kk in seen_mm or len(seen_mm) > 25:
            continue
        seen_mm.add(kk)
        log("   mismatch:", x.get("fn"), x.get("what"), "|", x.get("desc", "")[:200])
    res.extra["spec_vs_glibc_compared"] = nspec
    res.extra["cases"] = len(cases)
    res.extra["exhaustive_scope"] = ("int-grid: d i u x X o x all 32 flag subsets x %d widths x %d precisions x %d length modifiers x %d values, complete product" % (len(WIDTHS), len(PRECS), len(LENS), len(IVALS_T))) if thorough else None
    trusted = ["Lean 4.33 kernel; axioms propext, Classical.choice, Quot.sound only (audited per theorem on every run)",
               "lean/SafeC/Models/Printf.lean: hand-written model of safec_vsnprintf_s and its wrappers (integer / character / string conversions, three sinks), tied to the C by running this run's cases only",
               "lean/SafeC/Models/PrintfSpec.lean (Spec.printf): my rendering of C11 7.21.6.1, compared with glibc 2.36 vsnprintf and an independent Python rendering on every case where it is defined",
               "harness/hprintf.c: the generic variadic call (x86-64 SysV: 6 GP words, 8 doubles, by-value overflow block), guard page, memfd stream capture, SIGSEGV recovery",
               "tools/p11.py (generators, oracle, input classes of the findings), tools/fmt_float_oracle.py (exact-rational float oracle)",
               "gcc -O0 build of the current tree, glibc 2.36 as the reference printf, C locale"]
    assumptions = ["arguments match the format (types as the conversion expects); int = 32 bits two's complement, long = long long = size_t = 64 bits",
                   "C locale (wctomb / wcstombs fail for characters >= 0x80)",
                   "object size of dest unknown (BOS_UNKNOWN); dest non-null; formats shorter than RSIZE_MAX_STR",
                   "conversions the C standard leaves undefined for a flag / precision / length modifier (e.g. %#d, %05s, %.3c) and %p / %b are run for memory safety and model agreement only",
                   "floating conversions: no model and no theorem - judged by the exact-rational oracle only"]
    return orch.finish(res, PID, lean_ok, lean_log, audit, forb, "", trusted, assumptions,
                       extra_cov=dict(rule="cases come from the directive grammar: integer grid (conversion x flag subset x width x precision, length modifiers and values rotated in quick / complete product in thorough), "
                                           "%c %s %lc %ls grids, float grid, entry / illegal-directive / numeral / dmax-sweep edge cases, then seeded random formats with 0..4 directives and literal text over all eight entry points with dmax "
                                           "at needed-1, needed, needed+1; every case is run twice at unrelated positions of a shuffled stream; evaluation = one (entry point, dmax, format, arguments, build) observation; "
                                           "distinct = distinct such tuple; non-trivial = the call returned >= 0 and the format has at least one conversion",
                                      exhaustive=bool(thorough)))

#!/bin/sh
# usage: tools/allseeds.sh "<seeds>" [tier]   — every claimed check at the given seeds; prints one line per (check, seed)
cd "$(dirname "$0")/.."
[ -d lean/.lake ] || ./setup.sh >/dev/null 2>&1
tier=${2:-quick}
for s in $1; do
  for p in C01 C02 C03 C04 C05 C06 C07 C08 C09 C10 C11 C12 C13 C14 C15 C16 C17 C18 C19 C20; do
    t0=$(date +%s)
    VERIF_SEED=$s ./check $p --tier $tier > /tmp/as_${p}_$s.log 2>&1
    rc=$?
    echo "$p seed=$s tier=$tier exit=$rc viol=$(grep -c '^VIOLATION' /tmp/as_${p}_$s.log) $(( $(date +%s)-t0 ))s $(grep -A1 '^VIOLATION' /tmp/as_${p}_$s.log | grep -v '^VIOLATION\|^--' | head -2 | cut -c1-160 | tr '\n' '|')"
  done
done

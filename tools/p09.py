"""C09: %n is never executed by any printf_s / scanf_s family member.

Formats are built from a STRUCTURE (list of literal characters, `%%` items and directive records), so
the check knows by construction which directive is an `n` conversion and which variadic slot it would
store through; nothing on the Python side parses a format string.  The real entry points (library
built from the current tree) are called by harness/hfmt.c with every variadic slot carrying the
address of its own sentinel; the Lean models (SafeC/Models/Fmt.lean) answer for the same format text
through the compiled driver.

  oracle (the property, independent of the models):
     - no sentinel belonging to an `n` directive may change (printf: no sentinel at all may change)
     - a format with a storing `n` directive must be rejected: negative return and a handler call
  correspondence (model vs. implementation):
     - delegating entry points: sentinels changed == (not prescan) and what plain glibc did with the same
       format, input and arguments; return value == glibc's when the pre-scan lets the format through,
       EINVAL rejection with one handler call when it does not
     - engine entry points: rejected == prescan or engine model stops; never a changed sentinel
     - libc grammar models: libcPrintfStoresN / libcScanfStoresN == plain glibc stored through an `n`
       slot, on every format the generator marks as fully matched by its input
"""
import os, sys, json, random, time, itertools, hashlib, subprocess
from concurrent.futures import ThreadPoolExecutor
import orch, buildlib, proto, mkoblig
from orch import Result, log, VERIF

PID = "C09"
ENGINE = ["sprintf_s", "vsprintf_s", "snprintf_s", "vsnprintf_s", "printf_s", "fprintf_s", "vfprintf_s"]
NPRINTF_LIBC = ["vprintf_s"]
WPRINTF = ["swprintf_s", "vswprintf_s", "snwprintf_s", "vsnwprintf_s", "wprintf_s", "vwprintf_s", "fwprintf_s", "vfwprintf_s"]
NSCANF = ["sscanf_s", "vsscanf_s", "fscanf_s", "vfscanf_s", "scanf_s", "vscanf_s"]
WSCANF = ["swscanf_s", "vswscanf_s", "fwscanf_s", "vfwscanf_s", "wscanf_s", "vwscanf_s"]
REF = {"p": {"n": "ref_vsnprintf", "w": "ref_vswprintf"}, "s": {"n": "ref_vsscanf", "w": "ref_vswscanf"}}
EPS = {"p": [(e, "n") for e in ENGINE + NPRINTF_LIBC] + [(e, "w") for e in WPRINTF],
       "s": [(e, "n") for e in NSCANF] + [(e, "w") for e in WSCANF]}
EINVAL = 22
LENGTHS = ["", "hh", "h", "l", "ll", "j", "z", "t", "L"]


# ------------------------------------------------------------------ format structures
class D:
    """one conversion specification"""
    __slots__ = ("pos", "flags", "width", "prec", "length", "conv", "sup", "raw")

    def __init__(self, conv, pos=None, flags="", width="", prec="", length="", sup=False, raw=None):
        self.conv, self.pos, self.flags, self.width, self.prec, self.length, self.sup, self.raw = conv, pos, flags, width, prec, length, sup, raw

    def text(self):
        if self.raw is not None:
            return self.raw
        return "%" + ("%d$" % self.pos if self.pos else "") + ("*" if self.sup else "") + self.flags + self.width + self.prec + self.length + self.conv

    def spell(self, whole):
        """how an `n` directive is written: the class a finding is filed under"""
        if self.pos:
            return "positional"
        if self.flags:
            return "flag"
        if self.width == "*":
            return "star-width"
        if self.width:
            return "width"
        if self.prec:
            return "precision"
        if self.length:
            return "length"
        return "escaped-percent" if "%%n" in whole else "bare"


class Fmt:
    """items: str (one literal character), "%%", D, or ("set", text, input it reads, "+members" | "-excluded")"""

    def __init__(self, kind, items, origin):
        self.kind, self.items, self.origin = kind, items, origin
        self.text = "".join(i if isinstance(i, str) else i.text() if isinstance(i, D) else i[1] for i in items)
        self.nslots = {}          # slot -> D, for the `n` directives that store
        self.overflow = False
        self.reach = True         # every directive is valid for the family and matched by the input
        self.input = ""
        (self._layout_p if kind == "p" else self._layout_s)()
        self.has_n = bool(self.nslots)

    def _layout_p(self):
        nxt = 0
        for it in self.items:
            if not isinstance(it, D):
                continue
            if it.pos:
                slot = it.pos - 1
            else:
                if it.width == "*":
                    nxt += 1
                if it.prec == ".*":
                    nxt += 1
                slot = nxt
                nxt += 1
            if it.conv == "n":
                self.nslots[slot] = it
            if slot > 9 or nxt > 10:
                self.overflow = True      # would read beyond the ten arguments the harness passes

    def _layout_s(self):
        nxt = 0
        pieces = []
        for it in self.items:
            if it == "%%":
                pieces.append(("%", True)); continue
            if isinstance(it, str):
                pieces.append(("" if it == " " else it, True)); continue
            if isinstance(it, tuple):
                pieces.append((it[2], "set:" + it[3]))
                nxt += 1
                continue
            valid = not (it.prec or any(f in "-+ #0" for f in it.flags) or it.width == "*")
            if valid and not it.sup:
                slot = it.pos - 1 if it.pos else nxt
                nxt += 1
                if it.conv == "n":
                    self.nslots[slot] = it
                if slot > 9:
                    self.overflow = True
            w = int(it.width) if it.width and it.width != "*" else None
            if not valid:
                pieces.append(("", False))
            elif it.conv in "dux":
                pieces.append((" 7", it.length in ("", "hh", "h", "l", "ll", "j", "z", "t", "L")))
            elif it.conv == "c":
                pieces.append(("q" * (w or 1), it.length in ("", "l")))
            elif it.conv == "s":
                pieces.append((" w", ("str" if w != 1 else True) if it.length in ("", "l") else False))
            else:
                pieces.append(("", True))
        # reachability: conservative
        for k, (txt, ok) in enumerate(pieces):
            rest = "".join(p[0] for p in pieces[k + 1:])
            if ok is False:
                self.reach = False
            elif ok == "str":
                if rest and not rest.startswith(" "):
                    self.reach = False
            elif isinstance(ok, str) and ok.startswith("set:"):
                # "+abc": the set is {a,b,c}; "-abc": the set is everything but a, b, c.  It must stop where its own text ends.
                if rest and ((rest[0] in ok[5:]) == (ok[4] == "+")):
                    self.reach = False
        self.input = "".join(p[0] for p in pieces) or " "

    dm = None     # dest size handed to the buffer variants (None: the RSIZE_MAX limits)

    def line(self, i, only=None):
        s = "id=%d kind=%s fmt=%s in=%s" % (i, self.kind, self.text.encode().hex(), self.input.encode().hex())
        if self.dm is not None:
            s += " dm=%d" % self.dm
        return s + (" only=" + only if only else "")


# ------------------------------------------------------------------ generators
P_FLAGS_Q = ["", "-", "+", " ", "#", "0", "-0", "+ ", "-+ #0"]
P_FLAGS_ALL = ["".join(c for c, b in zip("-+ #0", bits) if b) for bits in itertools.product([0, 1], repeat=5)]
P_LIT = "anl$5 "
S_LIT = "nlhZ$ "


def gen_formats(rng, tier):
    out = []
    thorough = tier != "quick"

    def add(kind, items, origin):
        out.append(Fmt(kind, list(items), origin))

    # -- 1. every single directive of the grammar (exhaustive), alone and behind a literal / an escaped percent
    pflags = P_FLAGS_ALL if thorough else P_FLAGS_Q
    for conv in "nduxc" + ("ioX" if thorough else ""):
        for pos in (None, 1):
            for fl in (pflags if conv == "n" or thorough else ["", "-", "0"]):
                for w in (("", "1", "5") if pos else ("", "1", "5", "*")):
                    for pr in (("", ".3") if pos else ("", ".3", ".*", ".")) if (conv == "n" or thorough) else ("", ".3"):
                        for ln in LENGTHS + (["q", "Z"] if thorough else []):
                            d = D(conv, pos=pos, flags=fl, width=w, prec=pr, length=ln)
                            add("p", [d], "single")
                            if conv == "n" and (thorough or (not fl and not pr)):
                                add("p", ["%%", d], "single+esc")
                                add("p", ["a", D("d", pos=pos), d if not pos else D("n", pos=2, flags=fl, width=w, prec=pr, length=ln)], "single+pre")
    for conv in "nduxcs":
        for pos in (None, 1):
            for sup in (False, True):
                for fl in ("", "'", "I"):
                    for w in ("", "1", "5"):
                        for ln in LENGTHS + ["q", "m"]:
                            if fl and not (conv == "n" or thorough):
                                continue
                            d = D(conv, pos=pos, flags=fl, width=w, length=ln, sup=sup)
                            add("s", [d], "single")
                            if conv == "n":
                                add("s", ["%%", d], "single+esc")
                                if not pos:
                                    add("s", [D("d"), "n", d], "single+pre")
    # printf-only decoration in a scanf format: invalid there, libc stops
    for fl, pr in (("-", ""), ("0", ""), ("#", ""), ("", ".3")):
        d = D("n", flags=fl, prec=pr)
        add("s", [d], "single-invalid")
        add("s", [D("d"), d, D("n", length="l")], "single-invalid")

    # -- 1b. small destinations: the rejection of `%n` must not depend on how much room dest has
    #        (a pre-scan bounded by dmax, or an engine that runs out of space before it reaches the directive)
    for k in (0, 1, 2, 3, 5, 8, 13):
        for tail in ([], ["b"], [D("d")]):
            for nd in (D("n"), D("n", length="l")):
                for pre in (["a"] * k, [D("d")] + ["a"] * k):
                    items = list(pre) + [nd] + list(tail)
                    tlen = len(Fmt("p", list(items), "x").text)
                    for dm in sorted({1, 2, 3, k, k + 1, k + 2, k + 3, tlen - 1, tlen, tlen + 1, tlen + 2}):
                        if dm >= 1:
                            add("p", items, "small-dest")
                            out[-1].dm = dm

    # -- 2. runs of percent signs in front of n / ln / 5n / d, with and without something in front
    for k in range(1, 7 if thorough else 5):
        for tail in ("n", "ln", "5n", "d", "hhn"):
            for pre in ([], ["a"], [D("d")], ["n"], ["%%", "n"]):
                for kind in "ps":
                    items = list(pre) + ["%%"] * (k // 2)
                    if k % 2:
                        conv = tail[-1]
                        items.append(D(conv, width=tail[0] if tail[0] == "5" else "", length=tail[:-1].lstrip("5")))
                    else:
                        items += list(tail)
                    add(kind, items, "pct-run")

    # -- 3. every sequence of up to 3 (thorough: 4) atoms
    def atoms(kind):
        a = [["a"], ["n"], ["%%"], [D("d")], [D("n")], [D("n", length="l")], [D("n", length="hh")], [D("n", width="5")], [D("c")]]
        if kind == "p":
            a += [[D("n", width="*")], [D("n", flags="-")], [D("n", flags=" ")], [D("n", prec=".3")], [D("d", width="*")]]
        else:
            a += [[D("n", sup=True)], [D("s")], [("set", "%[%n]", "n", "+%n")], [" "], [D("n", flags="'")]]
        return a
    for kind in "ps":
        A = atoms(kind)
        for n in range(1, 5 if thorough else 4):
            for seq in itertools.product(range(len(A)), repeat=n):
                if n == 4 and sum(1 for s in seq if isinstance(A[s][0], D) and A[s][0].conv == "n") == 0:
                    continue
                add(kind, [x for s in seq for x in A[s]], "atoms")

    # -- 4. all-positional formats
    for kind in "ps":
        for m in (1, 2, 3):
            for perm in itertools.permutations(range(1, m + 1)):
                for convs in itertools.product(["d", "n", "ln", "5n"], repeat=m):
                    if not any(c.endswith("n") for c in convs):
                        continue
                    for sep in ([], ["%%"], ["a"]):
                        items = []
                        for p_, c in zip(perm, convs):
                            items += [D(c[-1], pos=p_, width="5" if c[0] == "5" else "", length="l" if c == "ln" else "")] + sep
                        add(kind, items, "positional")
        add("p", [D("d", pos=1), D("n", raw="%1$*2$n", pos=3)], "positional")

    # -- 4b. formats longer than RSIZE_MAX_STR / RSIZE_MAX_WSTR: an `n` directive behind the point where a length-bounded
    #        pre-scan (strnstr / wcsnstr with the limit) stops looking
    for kind in "ps":
        for k in (1000, 1019, 1020, 1021, 1030, 4000, 4091, 4092, 4093, 4094, 4100, 6000):
            add(kind, [D("d"), " " * k, D("n")], "long")
            add(kind, [" " * k, D("n"), D("d")], "long")

    # -- 5. random longer formats
    nrand = 60000 if thorough else 4000
    for _ in range(nrand):
        kind = rng.choice("ps")
        items = []
        for _ in range(rng.randint(2, 8)):
            r = rng.random()
            if r < 0.25:
                items.append(rng.choice(P_LIT if kind == "p" else S_LIT))
            elif r < 0.40:
                items.append("%%")
            elif kind == "s" and r < 0.45:
                items.append(rng.choice([("set", "%[%n]", "n", "+%n"), ("set", "%[^]%n]", "w", "-]%n"), ("set", "%[]n]", "n", "+]n")]))
            else:
                conv = rng.choice("nnnduxc" + ("s" if kind == "s" else "iXo"))
                if kind == "p":
                    items.append(D(conv, flags=rng.choice(P_FLAGS_ALL) if rng.random() < 0.4 else "",
                                   width=rng.choice(["", "", "1", "5", "*", "12"]),
                                   prec=rng.choice(["", "", "", ".3", ".*", "."]), length=rng.choice(LENGTHS + ["", "", ""])))
                else:
                    items.append(D(conv, sup=rng.random() < 0.15, flags=rng.choice(["", "", "", "", "'", "I"]),
                                   width=rng.choice(["", "", "1", "5"]), length=rng.choice(LENGTHS + ["", "", "", "m", "q"])))
        add(kind, items, "random")
    # distinct (kind, text, input)
    seen, uniq = set(), []
    for f in out:
        k = (f.kind, f.text, f.input, f.dm)
        if k not in seen and not f.overflow:
            seen.add(k); uniq.append(f)
    return uniq


# ------------------------------------------------------------------ running
def run_harness(hbin, lines, workers=8):
    chunks = [lines[i::workers] for i in range(workers)]

    def one(ch):
        if not ch:
            return {}
        out, rc, err = proto.run_lines([hbin], ch, timeout=3000)
        if rc != 0:
            raise RuntimeError("hfmt exited %d: %s" % (rc, err[:300]))
        return out
    res = {}
    with ThreadPoolExecutor(max_workers=workers) as ex:
        for o in ex.map(one, chunks):
            res.update(o)
    return res


def mask(d):
    return int(d.get("ch", "0"), 16)


def run(tier, seed, replay=None):
    res = Result(PID, tier, seed)
    orch.gen_mod.main()
    mkoblig.main()
    lean_ok, lean_log, dt = orch.lake_build(orch.prop_targets(PID))
    res.extra["lean_build_s"] = round(dt, 1)
    drv_ok = lean_ok or orch.lake_build(["safec_model"])[0]
    obs = orch.obligations(PID)
    audit, _ = orch.audit_axioms(PID, obs) if lean_ok else ([dict(o, ok=False, axioms=None, error="build failed") for o in obs], "")
    forb = orch.forbidden_tokens()
    L = buildlib.build(slack=True)
    hbin = buildlib.build_harness(L, os.path.join(VERIF, "harness", "hfmt.c"), os.path.join(L["dir"], "hfmt"),
                                  extra=["-U_FORTIFY_SOURCE", "-D_FORTIFY_SOURCE=0"])
    known = orch.load_known()
    if replay:
        rep = json.load(open(replay))
        if "fmt" not in rep:
            print(json.dumps(rep, indent=1)[:3000]); return 0
        line = "id=0 kind=%s fmt=%s in=%s only=%s" % (rep["fkind"], rep["fmt"].encode().hex(), rep.get("input", " ").encode().hex(), rep["ep"])
        if rep.get("dmax") is not None:
            line += " dm=%d" % rep["dmax"]
        c, _, _ = proto.run_lines([hbin], [line])
        m, _, _ = proto.run_lines([orch.MODEL_BIN], ["id=0 fmtq=%s" % (rep["fmt"].encode().hex() or "-")])
        print("format:", repr(rep["fmt"]), "input:", repr(rep.get("input")), "entry point:", rep["ep"])
        print("impl  :", c); print("model :", m); print("recorded impl:", rep.get("impl"))
        return 0

    t0 = time.time()
    fmts = gen_formats(random.Random(seed), tier)
    lines = [f.line(i) for i, f in enumerate(fmts)]
    c = run_harness(hbin, lines)
    texts = sorted({f.text for f in fmts})
    tid = {t: i for i, t in enumerate(texts)}
    m = {}
    if drv_ok:
        m, rc, err = proto.run_lines([orch.MODEL_BIN], ["id=%d fmtq=%s" % (i, t.encode().hex() or "-") for i, t in enumerate(texts)])
        if rc != 0:
            res.notes.append("model driver exited %d: %s" % (rc, err[:200]))
    log("  C09: %d formats (%d distinct texts), harness+model %.1fs" % (len(fmts), len(texts), time.time() - t0))

    def fail(f, ep, sig, detail, dc, dm, agree):
        ent = next((e for e in known if orch.known_match(e, PID, sig, 1)), None)
        if ent is not None and agree:
            kk = ent.get("id") or ent.get("sig") or ent.get("sig_re")
            h = res.known_hit.setdefault(kk, dict(ent, count=0, example="%s(%r)" % (ep, f.text), sigs=set()))
            h["count"] += 1; h["sigs"].add(sig)
        else:
            res.violations.append((sig, dict(kind="property-fails-on-implementation", property=PID, sig=sig, detail=detail, ep=ep,
                                             fmt=f.text, input=f.input, fkind=f.kind, impl=dc, model=dm, model_predicts=agree, origin=f.origin, dmax=f.dm)))

    def mismatch(f, ep, what, dc, dm, ref=None):
        res.mismatch.append(dict(kind="correspondence", property=PID, fn=ep, what=what, fmt=f.text, input=f.input, impl=dc, model=dm, ref=ref, fkind=f.kind))

    for i, f in enumerate(fmts):
        dm = m.get(str(tid[f.text]))
        if dm is not None and "ps" not in dm:
            dm = None
        nmask = sum(1 << s for s in f.nslots) if f.kind == "s" else 0x1FFFF
        refs = {w: c.get("%d.%s" % (i, REF[f.kind][w])) for w in "nw"}
        # --- libc grammar model against plain glibc
        if dm is not None and f.dm is None:
            pred_libc = dm["pn" if f.kind == "p" else "sn"] != "-"
            for w in "nw":
                r = refs[w]
                if r is None or "sig" in r:
                    res.notes.append("reference %s died on %r" % (REF[f.kind][w], f.text)); continue
                stored = bool(mask(r) & nmask)
                res.count("libc-grammar", "agree" if stored == pred_libc else ("unreached" if pred_libc and not f.reach else "DIFF"))
                if stored != pred_libc and (f.reach or stored):
                    mismatch(f, REF[f.kind][w], "libc grammar model says stores=%s, glibc stored=%s" % (pred_libc, stored), r, dm)
                # the generator's own slot bookkeeping against glibc (keeps the oracle honest)
                if f.kind == "s" and f.reach and f.has_n != stored:
                    mismatch(f, REF[f.kind][w], "generator expects n-store=%s, glibc stored=%s" % (f.has_n, stored), r, dm)
        for ep, w in EPS[f.kind]:
            dc = c.get("%d.%s" % (i, ep))
            if dc is None:
                res.notes.append("no observation for %s %r" % (ep, f.text)); continue
            res.evaluations += 1
            res.count("entry", ep)
            if f.has_n:
                res.distinct.add((f.kind, f.text, ep))
            engine = ep in ENGINE
            if "sig" in dc:
                res.count("outcome", "killed")
                fail(f, ep, "%s:killed:sig=%s" % (ep, dc["sig"]), "the call killed its process", dc, dm, False)
                continue
            ret, hn, hc, ch = int(dc["ret"]), int(dc["hn"]), int(dc["hc"]), mask(dc)
            if dc.get("nd") == "1":
                res.notes.append("non-deterministic result %s %r" % (ep, f.text))
            rejected = ret < 0 and hn >= 1
            nstore = ch & nmask
            res.count("outcome", "rejected" if rejected else "n-store" if nstore else "accepted")
            if len(res.samples) < 8 and res.evaluations % 9973 == 7:
                res.samples.append(dict(entry=ep, fmt=f.text, input=f.input if f.kind == "s" else None, impl={k: v for k, v in dc.items() if k != "id"}))
            # --- model prediction
            agree = None
            if dm is not None and f.dm is None:
                ps = dm["ps"] == "1"
                r = refs[w]
                if engine:
                    pred_rej = ps or dm["eng"] != "-"
                    agree = (pred_rej == (ret < 0)) and ch == 0 and (not pred_rej or hn >= 1)
                    if not agree:
                        mismatch(f, ep, "engine model: rejects=%s" % pred_rej, dc, dm)
                elif r is not None and "sig" not in r:
                    if ps:
                        agree = ret < 0 and hn == 1 and hc == EINVAL and ch == 0
                    else:
                        agree = ch == mask(r) and ret == int(r["ret"])
                    if not agree:
                        mismatch(f, ep, "delegating model: prescan=%s, then as glibc" % ps, dc, dm, r)
                res.modelled.add(ep)
            # --- oracle
            if nstore:
                slot = next(s for s in range(17) if nstore >> s & 1)
                d = f.nslots.get(slot) or next(iter(f.nslots.values()), None)
                cls = d.spell(f.text) if d else "no-n-directive"
                fail(f, ep, "%s:stores-via:%s" % (ep, cls), "sentinel slot %d changed (ch=%x) ret=%d" % (slot, ch, ret), dc, dm, agree is not False)
            elif f.has_n and not rejected:
                d = next(iter(f.nslots.values()))
                fail(f, ep, "%s:accepts-n:%s" % (ep, d.spell(f.text)), "format with an n conversion not rejected: ret=%d handler calls=%d" % (ret, hn), dc, dm, agree is not False)
    for x in res.mismatch[:12]:
        log("   mismatch:", x["fn"], repr(x["fmt"]), repr(x["input"]), x["what"], "| impl", {k: v for k, v in x["impl"].items() if k != "id"},
            "| ref", x.get("ref") and {k: v for k, v in x["ref"].items() if k != "id"}, "| model", x["model"])
    res.dist["formats"] = {"printf": sum(1 for f in fmts if f.kind == "p"), "scanf": sum(1 for f in fmts if f.kind == "s"),
                           "with-storing-n": sum(1 for f in fmts if f.has_n), "fully-matched": sum(1 for f in fmts if f.reach)}
    res.dist["origin"] = {o: sum(1 for f in fmts if f.origin == o) for o in sorted({f.origin for f in fmts})}
    trusted = ["Lean 4.33 kernel; axioms propext, Classical.choice, Quot.sound only (audited per theorem on every run)",
               "Lean models lean/SafeC/Models/Fmt.lean: prescan (strstr + look-behind, as written in all 28 entry points), the directive parser of safec_vsnprintf_s, "
               "and the printf / scanf directive grammars of C11 + glibc; tied to the implementation and to glibc 2.36 by running this run's formats only",
               "harness/hfmt.c: pointer-valued variadic words (x86-64 SysV), sentinel comparison under two fill patterns, forked children",
               "the format generator's own bookkeeping of which argument slot belongs to which directive (cross-checked against plain glibc on every fully matched scanf format)",
               "gcc -O0 build of the current tree, glibc 2.36"]
    assumptions = ["x86-64 SysV: pointer and integer variadic arguments are interchangeable; no floating-point conversions are exercised",
                   "formats are ASCII; the wide entry points get the same characters widened",
                   "suppressed scanf `%*n` (stores nothing) is not counted as an executed n conversion",
                   "engine: run-time failures of accepted conversions (NULL %s argument, full buffer, > 2^63 characters) only stop it earlier and are not modelled"]
    return orch.finish(res, PID, lean_ok, lean_log, audit, forb, "", trusted, assumptions,
                       extra_cov=dict(rule="formats are generated from the grammar literal* ( %% | % [m$] flags* width? (.prec)? length? conv )* : every single directive "
                                           "(flags x width x precision x 9+ length modifiers x conversions, positional or not), runs of 1..4(6) percent signs in front of n/ln/5n/hhn/d, "
                                           "every sequence of <= 3 (thorough 4) atoms from a 14-letter alphabet, all-positional formats, and a seeded random stream of longer ones; "
                                           "each is run on all 16 printf or 12 scanf entry points + plain glibc; evaluation = one (format, entry point) call pair; "
                                           "distinct = distinct (family, format text, entry point); non-trivial = the format contains an n conversion that would store",
                                      exhaustive=False, formats=len(fmts)))

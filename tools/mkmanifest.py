"""Regenerate MANIFEST.json from the table below (kept in one place so that it stays valid)."""
import json, os
HERE = os.path.dirname(os.path.abspath(__file__))
VERIF = os.path.dirname(HERE)

NOTE = ("Trusted: Lean 4.33 kernel + propext/Classical.choice/Quot.sound (audited per theorem on every run); the hand-written "
        "models, tied to the C only on the inputs explored by the correspondence run (exhaustive small scope + boundary sweep + "
        "seeded random); harness, compiled Lean driver, generators, oracles; gcc -O0 / glibc 2.36 / x86-64 page protection. "
        "Functions with a harness binding but no Lean model are listed in evidence.coverage.unmodelled_functions: for them only "
        "the property oracle on the implementation speaks, no theorem.")

CLAIMS = {
 "C01": ("no-stray-write + frame theorems for the whole str*/wcs* copy family on the guarded-memory machine, for all arguments, placements and contents; write-extent oracle under guard pages and canaries for every harness-bound writer", "Lean 4 theorems (guarded-memory machine) + differential correspondence"),
 "C02": ("theorems with ONLY the declared extents mapped: no fault and no stray access for strcpy/strncpy/strcat/wcscpy on valid operands; every readable extent flush against PROT_NONE in the harness", "Lean 4 theorems (only declared extents mapped) + guard-page correspondence"),
 "C03": ("terminator-exists theorems for every exit of strcpy/strncpy/strcat/strncat/wcscpy with arbitrary prior dest; partial + kernel-checked witness where the code violates it (dest == src)", "Lean 4 exit analysis + correspondence with dirty dest"),
 "C04": ("cleared-on-failure theorems (dest[0]=0, all zero with null-slack, outside untouched) for the copy family; both slack configurations in the correspondence", "Lean 4 exit analysis + frame lemma + correspondence"),
 "C05": ("handler-exactly-once-with-the-returned-code theorems for all arguments of the copy family, early rejection with nothing mapped; counting handlers in the harness, violation-class product in the generator", "Lean 4 theorems over handler events + correspondence with counting handlers"),
 "C06": ("refinement theorems: EOK iff the complete result fits, and then dest is exactly the standard function's result (strcpy, strncpy, strcat; memcpy_s, memmove_s, memcpy16/32_s, wmemcpy_s copy exactly); reference semantics evaluated on the implementation for copy and mem families", "Lean 4 refinement to list specs + differential reference"),
 "C07": ("overlap-detected and disjoint-never-rejected theorems for all placements of strcpy/wcscpy/strcat, witness for the slack-fill finding; mem_prim_move and the 8/16/32-bit variants proved equal to memmove for every length, overlap, direction and alignment, memmove_s/memmove16_s/memmove32_s/wmemmove_s exact, memcpy_s rejects every true overlap; every offset of src relative to dest swept in one arena", "Lean 4 bumper invariant + placement sweep"),
 "C08": ("zero-tail theorems through both slack strategies (memset > 0x20, byte loop) for strcpy/strncpy/strcat/wcscpy; result length x dmax sweep across the 0x20 switch with dirty buffers", "Lean 4 zero-fill lemmas + dirty-buffer sweep"),
 "C09": ("the engine's directive parser proved to reject every format in which libc's printf grammar finds an n conversion (all strings, by induction); pre-scan soundness for the 21 libc-delegating entry points proved under two syntactic hypotheses, with kernel-decided witnesses for the general failure; all 28 entry points executed with sentinel-address varargs against the models and plain glibc", "Lean 4 induction over format strings + sentinel-vararg correspondence"),
 "C10": ("answers of strnlen/wcsnlen, memchr/memrchr, memcmp/wmemcmp, strspn/strcspn proved equal to the standard function's answer computed from the memory contents restricted to dmax, for all contents, lengths and bounds; strcmp_s characterised exactly (partial theorem + kernel-checked witnesses for the signed-char and read-at-dmax defects); every query model proved store-free, hence operands never modified on any input; all 60 query entry points run against reference answers over the small-alphabet scope", "Lean 4 refinement to pure specs + NoStore meta-theorem + differential reference"),
 "C14": ("one tokenizer call characterised completely as a function of the memory contents (token start/end, returned pointer, *ptr, *dmaxp, the single overwritten delimiter) for all strings, lengths and delimiter sets of 1..16 characters; corollaries: *ptr + *dmaxp is conserved (never beyond the original dmax), token shape, only a delimiter cell is overwritten; whole call sequences (any number of calls threading *ptr/*dmaxp) proved to return exactly the maximal delimiter-free runs of the ORIGINAL string in order, each once, then NULL forever (loop invariant + soundness/completeness of the run list); call sequences run against a reference tokenizer", "Lean 4 loop lemmas + invariants over call sequences + sequence correspondence"),
 "C18": ("PARTIAL. Proved (all n, alignments, fill values, dmax, object sizes): after a successful memset_s, memset16_s, memset32_s, memzero_s, memzero16_s, memzero32_s, strzero_s exactly the addressed cells hold the fill value and nothing else changed (n < 2^32 when the object size is known: witness + known finding), and what a failed call leaves; the word-unrolled set primitives proved by induction on the block count; models tied to the tree by differential execution (all n <= 160 x alignment 0..15 x values, guard pages). NOT proved — no model tied to this code can express it: that compilers keep the stores when the buffer is dead (O0..O3, LTO). That assumption is sampled by a validator: clients with dead stack / non-escaping stack / heap / static buffers through the public macros, gcc 12 -O0..-O3/-Os, -flto, clang 14, shared and static links, bytes inspected out-of-band; it found two genuine defects (word stores of mem_prim_set and strzero_s's fills dropped under LTO), repaired by fix commits 7b875c5 and 42c61dd", "Lean 4 proofs (prologue/body/tail lemmas) + guard-page correspondence + out-of-band dead-buffer validator on real builds"),
 "C20": ("theorems over an allocation-skeleton machine (alloc/realloc/free/deref under an ARBITRARY failure oracle) for all 16 allocating entry points: no use of a failed allocation, live blocks at return = at entry on every path, a failed request implies failure indication + handler + cleared dest — full for the tree as it stands after fix commits 96f0289, fb5a86e, 4fa8430 (17 defects found and repaired: unchecked mallocs in the printf engine, the wide printf probe and wcsnorm_s, leaks on the ESNOSPC and %ls error exits), with partial + witness theorems documenting the unrepaired code; tied to the implementation by failing every allocation request (singly, in pairs, all) of structured inputs reaching each of the 18 allocation calls found by a per-run source inventory and comparing crash / alloc-free sequence / outstanding blocks / failure indication / handler / dest with the model", "Lean 4 induction + WP calculus over an allocation machine + link-time malloc wrapping fault injection in forked children + source inventory"),
 "C12": ("schedule-independent theorem: two calls with disjoint footprints under ANY interleaving equal the calls run alone, footprints derived from the no-stray theorems (strcpy_s instance), witness for the shared-scratch defect class; the library's writable segments are snapshotted around every representative call and must be bit-identical, N-thread stress as the failing-schedule search", "Lean 4 interleaving theorem + static-segment snapshots + thread stress"),
 "C19": ("results of timingsafe_bcmp/memcmp proved against the unsigned first-difference spec, and the source-level trace (addresses + branch decisions) proved independent of the contents for every n; valgrind-lackey traces of the compiled function compared across contents as an assumption validator", "Lean 4 induction (Int32 arithmetic, trace observer) + lackey trace comparison"),
 "C13": ("the registration state machine proved for every history (dispatch rule, returns-previous, NULL selects default, kind independence, thread isolation, fresh threads); histories executed with real pthreads", "Lean 4 induction over registration histories + pthread correspondence"),
}
NA_REASON = "check under construction in this session; not yet claimed"


def main():
    props = [json.loads(l) for l in open(os.path.join(VERIF, "properties.jsonl"))]
    checks = []
    for pid, (text, tech) in CLAIMS.items():
        checks.append(dict(property_id=pid, quick_cmd="./check %s --tier quick" % pid,
                           thorough_cmd="./check %s --tier thorough" % pid,
                           evidence_file="/verif/evidence/%s.json" % pid,
                           replay_cmd_template="./check %s --replay {path}" % pid,
                           engine="lean4+correspondence",
                           level_claimed=dict(category="proof", text=text, design_ref="DESIGN.md §4 " + pid),
                           level_note=NOTE, technique=tech))
    na = [dict(property_id=p["id"], reason=NA_REASON) for p in props if p["id"] not in CLAIMS]
    m = dict(version=1, setup_cmd="./setup.sh",
             hooks=dict(guard="SAFECLIB_VERIF",
                        enable="none needed: the harness observes through the public ABI, guard pages, canaries and its own handlers; no guarded source change exists",
                        baseline_off_cmd="make -C /repo -k check", source_commits=[], add_only=True),
             engines=[dict(name="lean4+correspondence", path="/verif/lean", serves_properties=sorted(CLAIMS),
                           kind_free_text="Lean 4 models and theorems (lake project), C harnesses under harness/, compiled Lean driver, tools/orch.py")],
             checks=checks, not_applicable=na,
             notes="Unguarded 'fix:' commits in /repo repair genuine defects these checks found (known_findings.jsonl, status fixed).")
    json.dump(m, open(os.path.join(VERIF, "MANIFEST.json"), "w"), indent=1)


if __name__ == "__main__":
    main()

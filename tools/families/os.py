"""F9: getenv_s (src/os/getenv_s.c), strerror_s / strerrorlen_s (src/str/strerror_s.c).

Reference semantics = the doc comments + C11 K.3.6.2.1 / K.3.7.4.2:

  getenv_s(len, dest, dmax, name)   value found and strlen(value) < dmax: dest = value (terminated; with
        SAFECLIB_STR_NULL_SLACK the rest of the dmax cells nulled), *len = strlen(value), EOK.  dest == NULL and
        dmax == 0: size query, *len = strlen(value), EOK.  Not found: *len = 0, dest[0] = 0, returns -1 (a result,
        not a constraint violation: no handler).  @pre name != NULL (ESNULLP); dmax <= RSIZE_MAX_STR (ESLEMAX);
        dmax <= object size (EOVERFLOW per the @retval list — the code reports ESLEMAX: either accepted);
        dmax == 0 if dest == NULL (ESNULLP); dmax > strlen(value) (ESNOSPC).  "On any error, writes zero to *len".
  strerror_s(dest, dmax, errnum)    the message of errnum; "No more than dmax-1 bytes are written, the buffer is always
        null-terminated.  If the message had to be truncated ... and dmax is greater than 3, then only dmax-4 bytes are
        written, and the characters "..." are appended" (a DOCUMENTED truncation, returns EOK); ESLEMIN "when the
        result would be longer than 4 and dmax < 4".
  strerrorlen_s(errnum)             strlen of that message.

Process state is made explicit: the op carries the environment value (or none) and the message text as regions; the
harness shim puts the value into the environment / checks the text against the library's, the model reads the region.
Messages: the library's own codes from the tree's header (via tools/gen.py), libc's from os.strerror (same glibc).
"""
import os as _os, re
from proto import Op, Region, ptr
from gens import (X, LIM, cstr, bosarg, EOK, ESNULLP, ESZEROL, ESLEMIN, ESLEMAX, ESNOSPC, EOVERFLOW, ESUNTERM)
from oracles import Fail, usable_dest, dest_cells

LIMS = LIM[1]
NAME = [ord(c) for c in "SAFEC_VERIF_T"] + [0]
DOTS = [0x2E, 0x2E, 0x2E, 0]
_MSGS = None


def lib_msgs():
    """errmsgs of the current tree: parsed by tools/gen.py into lean/SafeC/Gen/Errmsgs.lean"""
    global _MSGS
    if _MSGS is None:
        here = _os.path.dirname(_os.path.dirname(_os.path.dirname(_os.path.abspath(__file__))))
        src = open(_os.path.join(here, "lean", "SafeC", "Gen", "Errmsgs.lean")).read()
        m = re.search(r"def errmsgs : List String := \[(.*?)\]\n", src, re.S)
        _MSGS = re.findall(r'"((?:[^"\\]|\\.)*)"', m.group(1))
    return _MSGS


def message(errnum):
    e = errnum if errnum < (1 << 31) else errnum - (1 << 32)
    if 400 <= e <= 400 + len(lib_msgs()) - 1:
        return lib_msgs()[e - 400]
    return _os.strerror(e)


def enc(s):
    return [b for b in s.encode()] + [0]


# ------------------------------------------------------------------ ops
def mk_getenv(value, dmax, prior=None, dnull=False, bos=None, nnull=False, haslen=True, objsize=None, tag=""):
    """value: list of cells without NUL, or None = unset"""
    objsize = objsize if objsize is not None else max(dmax, 1)
    dcells = (list(prior or []) + [X] * objsize)[:objsize]
    regs = [Region(1, dcells), Region(1, NAME)]
    if value is not None:
        regs.append(Region(1, list(value) + [0]))
    d = "null" if dnull else ptr(0)
    nm = "null" if nnull else ptr(1)
    v = "null" if value is None else ptr(2)
    W = [] if dnull else [(0, 0, min(dmax, objsize))]
    Rd = list(W) + ([] if nnull else [(1, 0, len(NAME))]) + ([] if value is None else [(2, 0, len(value) + 1)])
    args = (["_"] if haslen else []) + [d, dmax, nm, bosarg(bos), v]
    meta = dict(fam="os", fn="getenv_s", w=1, dest=None if dnull else (0, 0), dmax=dmax, bos=bos, objsize=objsize,
                src=None, value=None if value is None else list(value), nnull=nnull, haslen=haslen, prior=dcells,
                truthful=(dnull or dmax <= objsize) and (bos is None or bos <= objsize), tag=tag)
    return Op("getenv_s" if haslen else "getenv_s_nl", regs, args, W, Rd, meta)


def mk_strerror(errnum, dmax, prior=None, dnull=False, bos=None, objsize=None, tag=""):
    objsize = objsize if objsize is not None else max(dmax, 1)
    dcells = (list(prior or []) + [X] * objsize)[:objsize]
    msg = enc(message(errnum & 0xFFFFFFFF))
    regs = [Region(1, dcells), Region(1, msg), Region(1, DOTS)]
    d = "null" if dnull else ptr(0)
    W = [] if dnull else [(0, 0, min(dmax, objsize))]
    Rd = list(W) + [(1, 0, len(msg)), (2, 0, 4)]
    meta = dict(fam="os", fn="strerror_s", w=1, dest=None if dnull else (0, 0), dmax=dmax, bos=bos, objsize=objsize,
                src=None, errnum=errnum, msg=msg[:-1], prior=dcells,
                truthful=(dnull or dmax <= objsize) and (bos is None or bos <= objsize), tag=tag)
    return Op("strerror_s", regs, [d, dmax, errnum, bosarg(bos), ptr(1), ptr(2)], W, Rd, meta)


def mk_strerrorlen(errnum):
    msg = enc(message(errnum & 0xFFFFFFFF))
    meta = dict(fam="os", fn="strerrorlen_s", w=1, dest=None, dmax=0, bos=None, src=None, errnum=errnum, msg=msg[:-1],
                truthful=True, tag="len")
    return Op("strerrorlen_s", [Region(1, msg)], [errnum, ptr(0)], [], [(0, 0, len(msg))], meta)



WD = ["Sun", "Mon", "Tue", "Wed", "Thu", "Fri", "Sat"]
MN = ["Jan", "Feb", "Mar", "Apr", "May", "Jun", "Jul", "Aug", "Sep", "Oct", "Nov", "Dec"]
TMF = ["sec", "min", "hour", "mday", "mon", "year", "wday", "yday", "isdst"]
TM_OK = dict(sec=59, min=30, hour=23, mday=31, mon=11, year=99, wday=5, yday=364, isdst=0, gmtoff=0)


def asctime_text(tm):
    """glibc's asctime_r: "%.3s %.3s%3d %.2d:%.2d:%.2d %d\n" """
    return ("%.3s %.3s%3d %.2d:%.2d:%.2d %d\n" % (WD[tm["wday"]] if 0 <= tm["wday"] < 7 else "???", MN[tm["mon"]] if 0 <= tm["mon"] < 12 else "???",
                                                  tm["mday"], tm["hour"], tm["min"], tm["sec"], 1900 + tm["year"])).encode()


def tm_cells(tm):
    c = [tm[f] & 0xFFFFFFFF for f in TMF] + [0]
    g = tm["gmtoff"] & 0xFFFFFFFFFFFFFFFF
    return c + [g & 0xFFFFFFFF, g >> 32, 0, 0]


def tm_in_range(tm):
    lo = all(tm[f] >= (1 if f == "mday" else 0) for f in TMF) and tm["gmtoff"] >= -1036800
    hi = (tm["year"] <= 8099 and tm["mon"] <= 11 and tm["yday"] <= 365 and tm["mday"] <= 31 and tm["wday"] <= 6 and tm["hour"] <= 23
          and tm["min"] <= 59 and tm["sec"] <= 60 and tm["isdst"] <= 1 and tm["gmtoff"] <= 1036800)
    return lo, hi


def mk_time(fn, dmax, tm=None, timer=None, prior=None, dnull=False, bos=None, objsize=None, anull=False, tz=0, tag=""):
    """fn: asctime_s (tm: dict) or ctime_s (timer: int)"""
    objsize = objsize if objsize is not None else max(dmax, 1)
    dcells = (list(prior or []) + [X] * objsize)[:objsize]
    check = 0
    if fn == "asctime_s":
        arg = Region(4, tm_cells(tm))
        lo, hi = tm_in_range(tm)
        text = asctime_text(tm) if (lo and hi) else b"?\n"
        check = 1 if (lo and hi) else 0
    else:
        arg = Region(8, [timer & 0xFFFFFFFFFFFFFFFF])
        ok = 0 <= timer < 253402300800
        import time as _t
        # tz: hours east of UTC the call runs in (the shim sets TZ=XXX-14 for check = 2); glibc's ctime_r returns NULL when the
        # local year has five digits: text None (a null pointer)
        loc = timer + tz * 3600
        full = (_t.asctime(_t.gmtime(loc)) + "\n").encode() if ok else b"?\n"
        libc_fails = ok and loc >= 253402300800
        text = full[:25] if libc_fails else full          # what glibc's snprintf(buf, 26, ...) leaves in its buffer
        check = (3 if libc_fails else 2 if tz else 1) if ok else 0
    regs = [Region(1, dcells), arg, Region(1, (list(text) + [0]) if text is not None else [0])]
    d = "null" if dnull else ptr(0)
    a = "null" if anull else ptr(1)
    W = [] if dnull else [(0, 0, min(dmax, objsize))]
    Rd = list(W) + ([] if anull else [(1, 0, len(arg.cells))]) + [(2, 0, len(text or b"") + 1)]
    meta = dict(fam="os", fn=fn, w=1, dest=None if dnull else (0, 0), dmax=dmax, bos=bos, objsize=objsize, src=None if anull else (1, 0),
                tm=tm, timer=timer, anull=anull, text=list(text) if text is not None else None, libc_fails=(fn == 'ctime_s' and check == 3), prior=dcells,
                truthful=(dnull or dmax <= objsize) and (bos is None or bos <= objsize), tag=tag)
    return Op(fn, regs, [d, dmax, a, bosarg(bos), "null" if text is None else ptr(2), check if not anull else 0], W, Rd, meta)


def gen_time(rng, tier, ops):
    for dmax in (0, 1, 25, 26, 27, 40, 119, 120, 121, 128, 200):
        ops.append(mk_time("asctime_s", dmax, tm=dict(TM_OK), tag="fit"))
        ops.append(mk_time("asctime_s", dmax, tm=dict(TM_OK), prior=[0x51] * dmax, tag="dirty"))
        ops.append(mk_time("ctime_s", dmax, timer=1000000000, tag="fit"))
        ops.append(mk_time("ctime_s", dmax, timer=1000000000, prior=[0x51] * dmax, tag="dirty"))
    for fn, kw in (("asctime_s", dict(tm=dict(TM_OK))), ("ctime_s", dict(timer=86399))):
        ops.append(mk_time(fn, 64, dnull=True, tag="dnull", **kw))
        ops.append(mk_time(fn, 64, anull=True, tag="anull", **kw))
        ops.append(mk_time(fn, 64, dnull=True, anull=True, tag="dnull+anull", **kw))
        for dmax, bos, obj in ((64, 64, 64), (26, 64, 64), (65, 64, 65), (26, 26, 26), (26, 25, 26), (30, 25, 30), (LIMS + 1, 64, 64), (130, 200, 200),
                               (LIMS + 1, LIMS + 100, LIMS + 100), (LIMS + 100, LIMS + 100, LIMS + 100)):
            ops.append(mk_time(fn, dmax, bos=bos, objsize=obj, tag="bos", **kw))
        ops.append(mk_time(fn, LIMS + 1, objsize=64, tag="limit+1", **kw))
        ops.append(mk_time(fn, LIMS, objsize=LIMS, tag="limit", **kw))
    # every field of struct tm at, below and above its documented range
    rngs = dict(sec=(0, 60), min=(0, 59), hour=(0, 23), mday=(1, 31), mon=(0, 11), year=(0, 8099), wday=(0, 6), yday=(0, 365), isdst=(0, 1),
                gmtoff=(-1036800, 1036800))
    for f, (lo, hi) in rngs.items():
        for v in (lo - 1, lo, hi, hi + 1, -2147483648 if f != "gmtoff" else -(1 << 40), 2147483647 if f != "gmtoff" else (1 << 40)):
            tm = dict(TM_OK); tm[f] = v
            for dmax in (64, 128):
                ops.append(mk_time("asctime_s", dmax, tm=tm, prior=[0x51] * dmax, tag="field:" + f))
    # the last hours of the year 9999 UTC in a zone 14 hours east of UTC: the local year is 10000, libc gives up
    for t in (253402300799, 253402300799 - 14 * 3600, 253402300799 - 14 * 3600 + 1, 253402300799 - 7 * 3600, 1000000000):
        for dmax in (26, 27, 64, 119, 120, 200):
            ops.append(mk_time("ctime_s", dmax, timer=t, prior=[0x51] * dmax, tz=14, tag="tz+14"))
    # the same second converted again right after the zone changed (a cached last conversion must not survive tzset)
    for t in (1000000000, 86399, 4102444800):
        for dmax in (26, 64, 128):
            ops.append(mk_time("ctime_s", dmax, timer=t, prior=[0x51] * dmax, tag="zone-change"))
            ops.append(mk_time("ctime_s", dmax, timer=t, prior=[0x51] * dmax, tz=14, tag="zone-change"))
            ops.append(mk_time("ctime_s", dmax, timer=t, prior=[0x51] * dmax, tag="zone-change"))
    for t in (0, 1, 59, 86399, 86400, 951782400, 2147483647, 2147483648, 4102444800, 253402300799, 253402300800, 313360441199, 313360441200,
              1 << 40, -1, -(1 << 62), (1 << 63) - 1):
        for dmax in (26, 64, 128):
            ops.append(mk_time("ctime_s", dmax, timer=t, prior=[0x51] * dmax, tag="timer"))
    n = 100 if tier == "quick" else 3000
    for _ in range(n):
        tm = dict(sec=rng.randint(0, 60), min=rng.randint(0, 59), hour=rng.randint(0, 23), mday=rng.randint(1, 31), mon=rng.randint(0, 11),
                  year=rng.choice([rng.randint(0, 200), rng.randint(0, 8099)]), wday=rng.randint(0, 6), yday=rng.randint(0, 365), isdst=rng.randint(0, 1),
                  gmtoff=rng.choice([0, 3600, -18000]))
        dmax = rng.choice([26, 27, 32, 119, 120, 121, 300])
        ops.append(mk_time("asctime_s", dmax, tm=tm, prior=[rng.choice([0x51, 0, 0x41]) for _ in range(dmax)], tag="random"))
        ops.append(mk_time("ctime_s", dmax, timer=rng.choice([rng.randint(0, 1 << 31), rng.randint(0, 313360441199)]),
                           prior=[rng.choice([0x51, 0, 0x41]) for _ in range(dmax)], tag="random"))


def mk_gets(inp, dmax, prior=None, dnull=False, bos=None, objsize=None, front=None, tag=""):
    """inp: the bytes stdin still holds (list of ints); None: a stream whose first read fails (errno EISDIR);
    front: cells of the caller's memory directly in front of dest (same region, not declared)"""
    objsize = objsize if objsize is not None else max(dmax, 1)
    front = list(front or [])
    doff = len(front)
    dcells = front + (list(prior or []) + [X] * objsize)[:objsize]
    rderr = inp is None
    inp = [] if rderr else list(inp)
    regs = [Region(1, dcells), Region(1, inp + [0])]           # the trailing 0 is not part of the stream (length passed separately)
    d = "null" if dnull else ptr(0, doff)
    W = [] if dnull else [(0, doff, min(dmax, objsize))]
    Rd = list(W) + [(1, 0, len(inp))]
    meta = dict(fam="os", fn="gets_s", w=1, dest=None if dnull else (0, doff), dmax=dmax, bos=bos, objsize=objsize, src=(1, 0),
                inp=inp, rderr=rderr, prior=dcells[doff:],
                truthful=(dnull or dmax <= objsize) and (bos is None or bos <= objsize), tag=tag)
    return Op("gets_s", regs, [d, dmax, bosarg(bos), "null" if rderr else ptr(1), len(inp)], W, Rd, meta)


def gen_gets(rng, tier, ops):
    NL = 10
    line = lambda n: [0x61 + i % 26 for i in range(n)]
    for dmax in (1, 2, 3, 5, 8, 33, 64):
        for n in sorted(set([0, 1, max(dmax - 2, 0), dmax - 1, dmax, dmax + 1, dmax + 7])):
            for tail in ([NL], [], [NL, 0x7A, 0x7A, NL]):
                for prior in (None, [0x51] * (dmax + 8)):
                    ops.append(mk_gets(line(n) + tail, dmax, prior=prior, objsize=dmax, tag="flush"))       # dest[dmax] unmapped
                    ops.append(mk_gets(line(n) + tail, dmax, prior=prior, objsize=dmax + 8, tag="roomy"))   # dest[dmax] mapped, not declared
    # the caller's previous line, newline included, directly in front of dest; results of length 0 (dmax 1, a line starting
    # with NUL, an empty line, end of file)
    for dmax in (1, 2, 8):
        for inp in ([NL], [], [0x61, NL], [0, 0x61, NL], [0], line(dmax + 3)):
            ops.append(mk_gets(inp, dmax, prior=[0x51] * dmax, front=[0x41, 0x42, NL], tag="newline-in-front"))
    # a stream whose read fails
    for dmax in (1, 2, 8, 64):
        ops.append(mk_gets(None, dmax, prior=[0x51] * dmax, tag="read-error"))
        ops.append(mk_gets(None, dmax, tag="read-error"))
    ops.append(mk_gets([], 8, tag="eof"))
    ops.append(mk_gets([], 8, prior=[0x51] * 8, tag="eof-dirty"))
    ops.append(mk_gets([NL], 8, prior=[0x51] * 8, tag="empty-line"))
    ops.append(mk_gets(line(3) + [NL], 8, dnull=True, tag="dnull"))
    ops.append(mk_gets(line(3) + [NL], 0, tag="dmax0"))
    ops.append(mk_gets(line(3) + [NL], LIMS + 1, objsize=8, tag="limit+1"))
    ops.append(mk_gets(line(3) + [NL], LIMS, objsize=LIMS, tag="limit"))
    ops.append(mk_gets(line(3) + [NL], LIMS + 1, bos=LIMS + 100, objsize=LIMS + 100, prior=[0x51] * (LIMS + 100), tag="limit+1-within-bos"))
    for dmax, bos, obj in ((8, 8, 8), (8, 16, 16), (9, 8, 9), (LIMS + 1, 8, 8)):
        ops.append(mk_gets(line(3) + [NL], dmax, bos=bos, objsize=obj, tag="bos"))
        ops.append(mk_gets(line(20), dmax, bos=bos, objsize=obj, tag="bos-long"))
    # a NUL byte inside the line: fgets copies it, strnlen stops at it (no reference value: implementation-defined)
    ops.append(mk_gets([0x61, 0, 0x62, NL], 8, prior=[0x51] * 8, tag="embedded-nul"))
    ops.append(mk_gets([0x61, 0x62, 0x63, 0x64, 0, 0x62, NL], 6, prior=[0x51] * 14, objsize=14, tag="embedded-nul"))
    n = 150 if tier == "quick" else 4000
    for _ in range(n):
        dmax = rng.choice([1, 2, 4, 7, 16, 40])
        L = rng.choice([rng.randint(0, dmax + 3), rng.randint(0, 3 * dmax)])
        tail = rng.choice([[NL], [], [NL] + line(rng.randint(0, 5))])
        ops.append(mk_gets(line(L) + tail, dmax, prior=[rng.choice([0x51, 0, 0x41]) for _ in range(dmax + 8)],
                           objsize=rng.choice([dmax, dmax + 8]), tag="random"))


def tm_of(t):
    """libc's gmtime_r / localtime_r (TZ unset: UTC) as the 14 32-bit cells of glibc's struct tm; tm_zone cleared"""
    import time as _t
    g = _t.gmtime(t)
    tm = dict(sec=g.tm_sec, min=g.tm_min, hour=g.tm_hour, mday=g.tm_mday, mon=g.tm_mon - 1, year=g.tm_year - 1900,
              wday=(g.tm_wday + 1) % 7, yday=g.tm_yday - 1, isdst=0, gmtoff=0)
    return tm_cells(tm)


def mk_tmconv(fn, timer, prior=None, dnull=False, tnull=False, tag=""):
    ok = 0 <= timer < 313360441200
    dcells = list(prior) if prior is not None else [X] * 14
    res = tm_of(timer) if ok else [0] * 14
    regs = [Region(8, [timer & 0xFFFFFFFFFFFFFFFF]), Region(4, dcells), Region(4, res)]
    W = [] if dnull else [(1, 0, 14)]
    Rd = ([] if tnull else [(0, 0, 1)]) + [(2, 0, 14)]
    meta = dict(fam="os", fn=fn, w=4, dest=None if dnull else (1, 0), dmax=14, bos=None, objsize=14, src=None if tnull else (0, 0),
                timer=timer, tnull=tnull, res=res, prior=dcells, truthful=True, tag=tag)
    return Op(fn, regs, ["null" if tnull else ptr(0), "null" if dnull else ptr(1), ptr(2), 1 if (ok and not tnull) else 0], W, Rd, meta)


def gen_tmconv(rng, tier, ops):
    for fn in ("gmtime_s", "localtime_s"):
        for t in (0, 1, 59, 60, 86399, 86400, 951782399, 951782400, 2147483647, 2147483648, 4102444800, 253402300799, 253402300800,
                  313360441199, 313360441200, 1 << 40, -1, -(1 << 62), (1 << 63) - 1):
            ops.append(mk_tmconv(fn, t, tag="timer"))
            ops.append(mk_tmconv(fn, t, prior=[0x51515151] * 14, tag="timer-dirty"))
        ops.append(mk_tmconv(fn, 1000000000, dnull=True, tag="dnull"))
        ops.append(mk_tmconv(fn, 1000000000, tnull=True, tag="tnull"))
        ops.append(mk_tmconv(fn, 1000000000, dnull=True, tnull=True, tag="dnull+tnull"))
        n = 60 if tier == "quick" else 3000
        for _ in range(n):
            ops.append(mk_tmconv(fn, rng.choice([rng.randint(0, 1 << 31), rng.randint(0, 313360441199), rng.randint(-5, 5)]),
                                 prior=[rng.choice([0, 0x51515151])] * 14, tag="random"))

ERRNUMS = list(range(400, 411)) + [0, 1, 2, 9, 12, 22, 34, 75, 84, 133, 134, 399, 411, 4095, -1, -400, 1 << 20]


def gen(rng, tier):
    ops = []
    vals = [None, [], [0x61], [0x61, 0x62], [0x61, 0x62, 0x63, 0x64, 0x65], [0xE9, 0x80, 0x41]]
    # ---- getenv_s: every value x dmax around its length x dest null or not x len null or not
    for v in vals:
        L = 0 if v is None else len(v)
        for dmax in sorted({0, 1, 2, L, L + 1, L + 2, 6, 31, 32, 33, 34, 40}):
            for haslen in (True, False):
                ops.append(mk_getenv(v, dmax, haslen=haslen, tag="fit"))
                ops.append(mk_getenv(v, dmax, prior=[0x51] * dmax, haslen=haslen, tag="dirty"))
            ops.append(mk_getenv(v, dmax, dnull=True, tag="dnull"))
            ops.append(mk_getenv(v, dmax, nnull=True, tag="nnull"))
            ops.append(mk_getenv(v, dmax, dnull=True, nnull=True, tag="dnull+nnull"))
            for bos in (dmax, dmax + 3, max(dmax - 1, 0)):
                ops.append(mk_getenv(v, dmax, bos=bos, objsize=max(bos, dmax, 1), tag="bos"))
        ops.append(mk_getenv(v, LIMS + 1, objsize=8, tag="limit+1"))
        ops.append(mk_getenv(v, LIMS + 1, objsize=8, bos=8, tag="limit+1+bos"))
        ops.append(mk_getenv(v, LIMS, objsize=LIMS, tag="limit"))
        # dmax above the limit inside a known object that really is that large (CHK_DEST_OVR lets it through by design)
        ops.append(mk_getenv(v, LIMS + 1, prior=[0x51] * (LIMS + 100), bos=LIMS + 100, objsize=LIMS + 100, tag="limit+1-within-bos"))
    long = [0x61 + i % 26 for i in range(100)]
    for dmax in (99, 100, 101, 120):
        ops.append(mk_getenv(long, dmax, tag="long"))
    # ---- strerror_s / strerrorlen_s
    for e in ERRNUMS:
        L = len(message(e & 0xFFFFFFFF).encode())
        ops.append(mk_strerrorlen(e))
        for dmax in sorted({0, 1, 2, 3, 4, 5, 6, 8, L - 1, L, L + 1, L + 2, L + 40, 64} - {-1}):
            if dmax < 0:
                continue
            ops.append(mk_strerror(e, dmax, tag="fit"))
            ops.append(mk_strerror(e, dmax, prior=[0x51] * dmax, tag="dirty"))
        ops.append(mk_strerror(e, 8, dnull=True, tag="dnull"))
        for dmax, bos in ((8, 8), (8, 12), (9, 8), (L + 1, L + 1), (L + 1, L + 5)):
            ops.append(mk_strerror(e, dmax, bos=bos, objsize=max(bos, dmax), tag="bos"))
        ops.append(mk_strerror(e, LIMS + 1, objsize=8, tag="limit+1"))
        ops.append(mk_strerror(e, LIMS, objsize=LIMS, tag="limit"))
        ops.append(mk_strerror(e, LIMS + 1, prior=[0x51] * (LIMS + 100), bos=LIMS + 100, objsize=LIMS + 100, tag="limit+1-within-bos"))
    gen_time(rng, tier, ops)
    gen_gets(rng, tier, ops)
    gen_tmconv(rng, tier, ops)
    n = 200 if tier == "quick" else 4000
    for _ in range(n):
        if rng.random() < 0.5:
            L = rng.choice([rng.randint(0, 8), rng.randint(0, 60)])
            v = None if rng.random() < 0.1 else [rng.choice([0x61, 0x62, 0x7A, 0x20, 0xE9, 0x3D]) for _ in range(L)]
            dmax = max(0, L + rng.choice([-2, -1, 0, 1, 1, 2, 5, 40]))
            ops.append(mk_getenv(v, dmax, prior=[0x51] * dmax if rng.random() < 0.5 else None,
                                 haslen=rng.random() < 0.8, tag="random"))
        else:
            e = rng.choice(ERRNUMS + list(range(0, 134)))
            L = len(message(e & 0xFFFFFFFF).encode())
            dmax = max(0, L + rng.choice([-6, -3, -1, 0, 1, 2, 10]))
            ops.append(mk_strerror(e, dmax, prior=[0x51] * dmax if rng.random() < 0.5 else None, tag="random"))
    return ops


# ------------------------------------------------------------------ reference
def annotate(op):
    m = op.meta
    fn, dmax, bos = m["fn"], m["dmax"], m["bos"]
    viol, opt, names, ref = set(), set(), [], {}
    if fn == "strerrorlen_s":
        m.update(hkind="S", retkind="n", producing=False, clears=False, slackdoc=False, limit=LIMS, viol_opt=set(),
                 violname="", ref=dict(count=len(m["msg"])))
        return
    m.update(hkind="S", retkind="e", producing=True, clears=False, slackdoc=(fn == "getenv_s"), limit=LIMS)
    if fn in ("gmtime_s", "localtime_s"):
        # doc comment: NULL "on error (which may be a runtime constraint violation or a failure to convert)"; errno EOVERFLOW
        # when *timer is out of range, ESNULLP when dest or timer is a null pointer
        m.update(producing=False, clears=False, slackdoc=False)
        if m["dest"] is None:
            viol.add(ESNULLP); names.append("dest-null")
        if m["tnull"]:
            viol.add(ESNULLP); names.append("timer-null")
        elif m["dest"] is not None:
            if m["timer"] < 0:
                viol.add(EOVERFLOW); names.append("timer-min")
            if m["timer"] >= 313360441200:
                viol.add(EOVERFLOW); names.append("timer-max")
        if not viol:
            ref["cells"] = list(m["res"][:9])          # tm_sec .. tm_isdst; cell 9 is padding, tm_gmtoff is checked by the family oracle
            ref["gmtoff"] = list(m["res"][10:12])
        m.update(viol=viol, viol_opt=opt, violname="+".join(names), ref=ref)
        return
    if fn == "gets_s":
        # doc comment: ESNULLP dest null, ESZEROL dmax = 0, ESLEMAX dmax > RSIZE_MAX_STR, EOVERFLOW dmax > size of dest,
        # ESNOSPC "endline or eof not encountered after storing dmax-1 characters"; "always writes the terminating null
        # character"; with SAFECLIB_STR_NULL_SLACK "the rest of dmax is cleared"; NULL with errno 0 at end of file
        m.update(slackdoc=True, clears=True, benign=(-1, 21), not_success=(-1, 21))
        inp = m["inp"]
        if m["dest"] is None:
            viol.add(ESNULLP); names.append("dest-null")
        if dmax == 0:
            viol.add(ESZEROL); names.append("dmax-zero")
        if dmax > LIMS:
            if bos is not None and dmax <= bos:
                opt.add(ESLEMAX); names.append("dmax-max-within-bos")
            else:
                viol.add(ESLEMAX); names.append("dmax-max")
        if bos is not None and dmax > bos:
            viol.add(EOVERFLOW); names.append("dmax-bos")
        if m.get("rderr") and not viol:
            m.update(viol=viol, viol_opt=opt, violname="read-error", ref=dict(ret=21))
            return
        if 0 in inp:
            m.update(viol=viol, viol_opt=opt, violname="+".join(names + ["embedded-nul"]), ref=ref)
            del m["viol"]          # no reference: implementation-defined
            return
        if not viol:
            line = inp[:inp.index(10)] if 10 in inp else inp
            if len(line) > dmax - 1:
                viol.add(ESNOSPC); names.append("line-too-long")
            elif not inp:
                ref["ret"] = -1; ref["eof"] = True
            elif m["truthful"]:
                ref["cells"] = list(line) + [0]
        if viol:
            viol |= opt
        m.update(viol=viol, viol_opt=opt, violname="+".join(names), ref=ref)
        return
    if fn in ("asctime_s", "ctime_s"):
        # @retval: ESNULLP dest/tm(timer) null; ESLEMIN dmax < 26 or a member / the time below its range; ESLEMAX dmax > RSIZE_MAX_STR or
        # above the range; EOVERFLOW dmax > size of dest; ESNOSPC dmax too small for the result; the result is libc's 26-byte text
        m["slackdoc"] = False      # no promise about the slack in the documentation of the two
        m["clears"] = True
        if m["dest"] is None:
            viol.add(ESNULLP); names.append("dest-null")
        if dmax < 26:
            viol.add(ESLEMIN); names.append("dmax-min")
        if dmax > LIMS:
            if bos is not None and dmax <= bos:
                opt.add(ESLEMAX); names.append("dmax-max-within-bos")
            else:
                viol.add(ESLEMAX); names.append("dmax-max")
        if bos is not None and dmax > bos:
            viol.add(EOVERFLOW); names.append("dmax-bos")
        if bos is not None and bos < 26 and dmax >= 26:
            viol.add(ESLEMIN); names.append("bos-min")
        if m["anull"]:
            viol.add(ESNULLP); names.append("arg-null")
        elif fn == "asctime_s":
            lo, hi = tm_in_range(m["tm"])
            if not lo:
                viol.add(ESLEMIN); names.append("tm-min")
            if not hi:
                viol.add(ESLEMAX); names.append("tm-max")
        else:
            if m["timer"] < 0:
                viol.add(ESLEMIN); names.append("timer-min")
            if m["timer"] >= 253402300800:    # 01.01.10000 00:00 UTC
                viol.add(ESLEMAX); names.append("timer-max")
        m["benign"] = (-1,); m["not_success"] = (-1,)      # "-1 when asctime_r / ctime_r returned NULL": no constraint violation
        if not viol and (m["text"] is None or m.get("libc_fails")):
            ref["ret"] = -1; ref["libc_null"] = True
        elif not viol and m["truthful"]:
            ref["cells"] = list(m["text"]) + [0]
        if viol:
            viol |= opt
        m.update(viol=viol, viol_opt=opt, violname="+".join(names), ref=ref)
        return
    if fn == "getenv_s":
        m["benign"] = (-1,)
        v = m["value"]
        if m["dest"] is None and dmax != 0:
            viol.add(ESNULLP); names.append("dest-null-dmax")
        if m["dest"] is not None and dmax > LIMS:
            if bos is not None and dmax <= bos:
                # a known object that really is that large: CHK_DEST_OVR lets it through by design; rejecting it with the
                # documented ESLEMAX would be acceptable too - but whatever happens must be reported consistently
                opt.add(ESLEMAX); names.append("dmax-max-within-bos")
            else:
                viol.add(ESLEMAX); names.append("dmax-max")
        if m["dest"] is not None and bos is not None and dmax > bos:
            viol |= {EOVERFLOW, ESLEMAX}; names.append("dmax-bos")     # documented EOVERFLOW; ESLEMAX accepted
        if m["nnull"]:
            viol.add(ESNULLP); names.append("name-null")
        if not viol and v is not None and dmax != 0 and len(v) >= dmax:
            viol.add(ESNOSPC); names.append("value-dmax")
        if m["dest"] is not None and dmax == 0 and not viol:
            # a non-null dest with dmax 0: nothing can be stored; C11 lets the call succeed as a size query
            m["noop"] = True
        if not viol and m["truthful"]:
            if v is None:
                ref["len"] = 0; ref["ret"] = -1
                if m["dest"] is not None and dmax > 0:
                    ref["cells"] = [0]
            else:
                ref["len"] = len(v); ref["ret"] = 0
                if m["dest"] is not None and dmax > 0:
                    ref["cells"] = list(v) + [0]
        else:
            ref["len"] = 0                                             # "On any error, writes zero to *len"
        m["clears"] = True
    else:
        e = m["errnum"]
        msg = m["msg"]
        if m["dest"] is None:
            viol.add(ESNULLP); names.append("dest-null")
        if dmax == 0:
            viol.add(ESZEROL); names.append("dmax-zero")
        if dmax > LIMS:
            if bos is not None and dmax <= bos:
                opt.add(ESLEMAX); names.append("dmax-max-within-bos")
            else:
                viol.add(ESLEMAX); names.append("dmax-max")
        if bos is not None and dmax > bos:
            viol.add(EOVERFLOW); names.append("dmax-bos")
        if not viol and len(msg) >= dmax and dmax < 4:
            viol.add(ESLEMIN); names.append("too-small")
        if not viol and m["truthful"]:
            if len(msg) < dmax:
                ref["cells"] = list(msg) + [0]
            else:
                ref["cells"] = list(msg[:dmax - 4]) + [0x2E, 0x2E, 0x2E, 0]
                ref["truncated"] = True
    if viol:
        viol |= opt
    m.update(viol=viol, viol_opt=opt, violname="+".join(names), ref=ref)


# ------------------------------------------------------------------ family oracles
def o_C06(op, ob, before):
    """the count through *len / the return of strerrorlen_s; the -1 'not found' status"""
    m = op.meta
    if ob.fault or not m.get("truthful", True):
        return []
    ref = m.get("ref") or {}
    out = []
    if m["fn"] == "strerrorlen_s":
        if ob.ret != str(ref["count"]):
            out.append(Fail("C06", "strerrorlen_s:wrong-length", "got %s want %d" % (ob.ret, ref["count"])))
        return out
    if m["fn"] in ("gmtime_s", "localtime_s"):
        if "gmtoff" in ref and ob.reti() == 0 and m["dest"] is not None:
            k, off = m["dest"]
            if ob.img[k][off + 10:off + 12] != ref["gmtoff"]:
                out.append(Fail("C06", "%s:wrong-gmtoff" % m["fn"], "got %s" % ob.img[k][off + 10:off + 12]))
        return out
    if m["fn"] == "getenv_s":
        if m["haslen"] and "len" in ref and ob.outs and ob.outs[0] != str(ref["len"]):
            out.append(Fail("C06", "getenv_s:wrong-len%s" % (":on-error" if m["viol"] else ""),
                            "got %s want %d" % (ob.outs[0], ref["len"])))
        if "ret" in ref and not m["viol"] and ob.reti() != ref["ret"]:
            out.append(Fail("C06", "getenv_s:wrong-status", "got %s want %d" % (ob.ret, ref["ret"])))
    return out


FAMILIES = {
    "os": dict(gen=gen, annotate=annotate, props=["C01", "C02", "C03", "C04", "C05", "C06", "C08"],
               oracles={"C06": o_C06}),
}

"""F9: getenv_s (src/os/getenv_s.c), strerror_s / strerrorlen_s (src/str/strerror_s.c).

Reference semantics = the doc comments + C11 K.3.6.2.1 / K.3.7.4.2:

  getenv_s(len, dest, dmax, name)   value found and strlen(value) < dmax: dest = value (terminated; with
        SAFECLIB_STR_NULL_SLACK the rest of the dmax cells nulled), *len = strlen(value), EOK.  dest == NULL and
        dmax == 0: size query, *len = strlen(value), EOK.  Not found: *len = 0, dest[0] = 0, returns -1 (a result,
        not a constraint violation: no handler).  @pre name != NULL (ESNULLP); dmax <= RSIZE_MAX_STR (ESLEMAX);
        dmax <= object size (EOVERFLOW per the @retval list — the code reports ESLEMAX: either accepted);
        dmax == 0 if dest == NULL (ESNULLP); dmax > strlen(value) (ESNOSPC).  "On any error, writes zero to *len".
  strerror_s(dest, dmax, errnum)    the message of errnum; "No more than dmax-1 bytes are written, the buffer is always
        null-terminated.  If the message had to be truncated ... and dmax is greater than 3, then only dmax-4 bytes are
        written, and the characters "..." are appended" (a DOCUMENTED truncation, returns EOK); ESLEMIN "when the
        result would be longer than 4 and dmax < 4".
  strerrorlen_s(errnum)             strlen of that message.

Process state is made explicit: the op carries the environment value (or none) and the message text as regions; the
harness shim puts the value into the environment / checks the text against the library's, the model reads the region.
Messages: the library's own codes from the tree's header (via tools/gen.py), libc's from os.strerror (same glibc).
"""
import os as _os, re
from proto import Op, Region, ptr
from gens import (X, LIM, cstr, bosarg, EOK, ESNULLP, ESZEROL, ESLEMIN, ESLEMAX, ESNOSPC, EOVERFLOW)
from oracles import Fail, usable_dest, dest_cells

LIMS = LIM[1]
NAME = [ord(c) for c in "SAFEC_VERIF_T"] + [0]
DOTS = [0x2E, 0x2E, 0x2E, 0]
_MSGS = None


def lib_msgs():
    """errmsgs of the current tree: parsed by tools/gen.py into lean/SafeC/Gen/Errmsgs.lean"""
    global _MSGS
    if _MSGS is None:
        here = _os.path.dirname(_os.path.dirname(_os.path.dirname(_os.path.abspath(__file__))))
        src = open(_os.path.join(here, "lean", "SafeC", "Gen", "Errmsgs.lean")).read()
        m = re.search(r"def errmsgs : List String := \[(.*?)\]\n", src, re.S)
        _MSGS = re.findall(r'"((?:[^"\\]|\\.)*)"', m.group(1))
    return _MSGS


def message(errnum):
    e = errnum if errnum < (1 << 31) else errnum - (1 << 32)
    if 400 <= e <= 400 + len(lib_msgs()) - 1:
        return lib_msgs()[e - 400]
    return _os.strerror(e)


def enc(s):
    return [b for b in s.encode()] + [0]


# ------------------------------------------------------------------ ops
def mk_getenv(value, dmax, prior=None, dnull=False, bos=None, nnull=False, haslen=True, objsize=None, tag=""):
    """value: list of cells without NUL, or None = unset"""
    objsize = objsize if objsize is not None else max(dmax, 1)
    dcells = (list(prior or []) + [X] * objsize)[:objsize]
    regs = [Region(1, dcells), Region(1, NAME)]
    if value is not None:
        regs.append(Region(1, list(value) + [0]))
    d = "null" if dnull else ptr(0)
    nm = "null" if nnull else ptr(1)
    v = "null" if value is None else ptr(2)
    W = [] if dnull else [(0, 0, min(dmax, objsize))]
    Rd = list(W) + ([] if nnull else [(1, 0, len(NAME))]) + ([] if value is None else [(2, 0, len(value) + 1)])
    args = (["_"] if haslen else []) + [d, dmax, nm, bosarg(bos), v]
    meta = dict(fam="os", fn="getenv_s", w=1, dest=None if dnull else (0, 0), dmax=dmax, bos=bos, objsize=objsize,
                src=None, value=None if value is None else list(value), nnull=nnull, haslen=haslen, prior=dcells,
                truthful=(dnull or dmax <= objsize) and (bos is None or bos <= objsize), tag=tag)
    return Op("getenv_s" if haslen else "getenv_s_nl", regs, args, W, Rd, meta)


def mk_strerror(errnum, dmax, prior=None, dnull=False, bos=None, objsize=None, tag=""):
    objsize = objsize if objsize is not None else max(dmax, 1)
    dcells = (list(prior or []) + [X] * objsize)[:objsize]
    msg = enc(message(errnum & 0xFFFFFFFF))
    regs = [Region(1, dcells), Region(1, msg), Region(1, DOTS)]
    d = "null" if dnull else ptr(0)
    W = [] if dnull else [(0, 0, min(dmax, objsize))]
    Rd = list(W) + [(1, 0, len(msg)), (2, 0, 4)]
    meta = dict(fam="os", fn="strerror_s", w=1, dest=None if dnull else (0, 0), dmax=dmax, bos=bos, objsize=objsize,
                src=None, errnum=errnum, msg=msg[:-1], prior=dcells,
                truthful=(dnull or dmax <= objsize) and (bos is None or bos <= objsize), tag=tag)
    return Op("strerror_s", regs, [d, dmax, errnum, bosarg(bos), ptr(1), ptr(2)], W, Rd, meta)


def mk_strerrorlen(errnum):
    msg = enc(message(errnum & 0xFFFFFFFF))
    meta = dict(fam="os", fn="strerrorlen_s", w=1, dest=None, dmax=0, bos=None, src=None, errnum=errnum, msg=msg[:-1],
                truthful=True, tag="len")
    return Op("strerrorlen_s", [Region(1, msg)], [errnum, ptr(0)], [], [(0, 0, len(msg))], meta)


ERRNUMS = list(range(400, 411)) + [0, 1, 2, 9, 12, 22, 34, 75, 84, 133, 134, 399, 411, 4095, -1, -400, 1 << 20]


def gen(rng, tier):
    ops = []
    vals = [None, [], [0x61], [0x61, 0x62], [0x61, 0x62, 0x63, 0x64, 0x65], [0xE9, 0x80, 0x41]]
    # ---- getenv_s: every value x dmax around its length x dest null or not x len null or not
    for v in vals:
        L = 0 if v is None else len(v)
        for dmax in sorted({0, 1, 2, L, L + 1, L + 2, 6, 31, 32, 33, 34, 40}):
            for haslen in (True, False):
                ops.append(mk_getenv(v, dmax, haslen=haslen, tag="fit"))
                ops.append(mk_getenv(v, dmax, prior=[0x51] * dmax, haslen=haslen, tag="dirty"))
            ops.append(mk_getenv(v, dmax, dnull=True, tag="dnull"))
            ops.append(mk_getenv(v, dmax, nnull=True, tag="nnull"))
            ops.append(mk_getenv(v, dmax, dnull=True, nnull=True, tag="dnull+nnull"))
            for bos in (dmax, dmax + 3, max(dmax - 1, 0)):
                ops.append(mk_getenv(v, dmax, bos=bos, objsize=max(bos, dmax, 1), tag="bos"))
        ops.append(mk_getenv(v, LIMS + 1, objsize=8, tag="limit+1"))
        ops.append(mk_getenv(v, LIMS + 1, objsize=8, bos=8, tag="limit+1+bos"))
        ops.append(mk_getenv(v, LIMS, objsize=LIMS, tag="limit"))
    long = [0x61 + i % 26 for i in range(100)]
    for dmax in (99, 100, 101, 120):
        ops.append(mk_getenv(long, dmax, tag="long"))
    # ---- strerror_s / strerrorlen_s
    for e in ERRNUMS:
        L = len(message(e & 0xFFFFFFFF).encode())
        ops.append(mk_strerrorlen(e))
        for dmax in sorted({0, 1, 2, 3, 4, 5, 6, 8, L - 1, L, L + 1, L + 2, L + 40, 64} - {-1}):
            if dmax < 0:
                continue
            ops.append(mk_strerror(e, dmax, tag="fit"))
            ops.append(mk_strerror(e, dmax, prior=[0x51] * dmax, tag="dirty"))
        ops.append(mk_strerror(e, 8, dnull=True, tag="dnull"))
        for dmax, bos in ((8, 8), (8, 12), (9, 8), (L + 1, L + 1), (L + 1, L + 5)):
            ops.append(mk_strerror(e, dmax, bos=bos, objsize=max(bos, dmax), tag="bos"))
        ops.append(mk_strerror(e, LIMS + 1, objsize=8, tag="limit+1"))
        ops.append(mk_strerror(e, LIMS, objsize=LIMS, tag="limit"))
    n = 200 if tier == "quick" else 4000
    for _ in range(n):
        if rng.random() < 0.5:
            L = rng.choice([rng.randint(0, 8), rng.randint(0, 60)])
            v = None if rng.random() < 0.1 else [rng.choice([0x61, 0x62, 0x7A, 0x20, 0xE9, 0x3D]) for _ in range(L)]
            dmax = max(0, L + rng.choice([-2, -1, 0, 1, 1, 2, 5, 40]))
            ops.append(mk_getenv(v, dmax, prior=[0x51] * dmax if rng.random() < 0.5 else None,
                                 haslen=rng.random() < 0.8, tag="random"))
        else:
            e = rng.choice(ERRNUMS + list(range(0, 134)))
            L = len(message(e & 0xFFFFFFFF).encode())
            dmax = max(0, L + rng.choice([-6, -3, -1, 0, 1, 2, 10]))
            ops.append(mk_strerror(e, dmax, prior=[0x51] * dmax if rng.random() < 0.5 else None, tag="random"))
    return ops


# ------------------------------------------------------------------ reference
def annotate(op):
    m = op.meta
    fn, dmax, bos = m["fn"], m["dmax"], m["bos"]
    viol, opt, names, ref = set(), set(), [], {}
    if fn == "strerrorlen_s":
        m.update(hkind="S", retkind="n", producing=False, clears=False, slackdoc=False, limit=LIMS, viol_opt=set(),
                 violname="", ref=dict(count=len(m["msg"])))
        return
    m.update(hkind="S", retkind="e", producing=True, clears=False, slackdoc=(fn == "getenv_s"), limit=LIMS)
    if fn == "getenv_s":
        m["benign"] = (-1,)
        v = m["value"]
        if m["dest"] is None and dmax != 0:
            viol.add(ESNULLP); names.append("dest-null-dmax")
        if m["dest"] is not None and dmax > LIMS:
            viol.add(ESLEMAX); names.append("dmax-max")
        if m["dest"] is not None and bos is not None and dmax > bos:
            viol |= {EOVERFLOW, ESLEMAX}; names.append("dmax-bos")     # documented EOVERFLOW; ESLEMAX accepted
        if m["nnull"]:
            viol.add(ESNULLP); names.append("name-null")
        if not viol and v is not None and dmax != 0 and len(v) >= dmax:
            viol.add(ESNOSPC); names.append("value-dmax")
        if m["dest"] is not None and dmax == 0 and not viol:
            # a non-null dest with dmax 0: nothing can be stored; C11 lets the call succeed as a size query
            m["noop"] = True
        if not viol and m["truthful"]:
            if v is None:
                ref["len"] = 0; ref["ret"] = -1
                if m["dest"] is not None and dmax > 0:
                    ref["cells"] = [0]
            else:
                ref["len"] = len(v); ref["ret"] = 0
                if m["dest"] is not None and dmax > 0:
                    ref["cells"] = list(v) + [0]
        else:
            ref["len"] = 0                                             # "On any error, writes zero to *len"
        m["clears"] = True
    else:
        e = m["errnum"]
        msg = m["msg"]
        if m["dest"] is None:
            viol.add(ESNULLP); names.append("dest-null")
        if dmax == 0:
            viol.add(ESZEROL); names.append("dmax-zero")
        if dmax > LIMS:
            viol.add(ESLEMAX); names.append("dmax-max")
        if bos is not None and dmax > bos:
            viol.add(EOVERFLOW); names.append("dmax-bos")
        if not viol and len(msg) >= dmax and dmax < 4:
            viol.add(ESLEMIN); names.append("too-small")
        if not viol and m["truthful"]:
            if len(msg) < dmax:
                ref["cells"] = list(msg) + [0]
            else:
                ref["cells"] = list(msg[:dmax - 4]) + [0x2E, 0x2E, 0x2E, 0]
                ref["truncated"] = True
    if viol:
        viol |= opt
    m.update(viol=viol, viol_opt=opt, violname="+".join(names), ref=ref)


# ------------------------------------------------------------------ family oracles
def o_C06(op, ob, before):
    """the count through *len / the return of strerrorlen_s; the -1 'not found' status"""
    m = op.meta
    if ob.fault or not m.get("truthful", True):
        return []
    ref = m.get("ref") or {}
    out = []
    if m["fn"] == "strerrorlen_s":
        if ob.ret != str(ref["count"]):
            out.append(Fail("C06", "strerrorlen_s:wrong-length", "got %s want %d" % (ob.ret, ref["count"])))
        return out
    if m["fn"] == "getenv_s":
        if m["haslen"] and "len" in ref and ob.outs and ob.outs[0] != str(ref["len"]):
            out.append(Fail("C06", "getenv_s:wrong-len%s" % (":on-error" if m["viol"] else ""),
                            "got %s want %d" % (ob.outs[0], ref["len"])))
        if "ret" in ref and not m["viol"] and ob.reti() != ref["ret"]:
            out.append(Fail("C06", "getenv_s:wrong-status", "got %s want %d" % (ob.ret, ref["ret"])))
    return out


FAMILIES = {
    "os": dict(gen=gen, annotate=annotate, props=["C01", "C02", "C03", "C04", "C05", "C06", "C08"],
               oracles={"C06": o_C06}),
}

"""F1b: the field copies strcpyfld_s, strcpyfldin_s, strcpyfldout_s (src/extstr).

Reference semantics = the doc comments:

  strcpyfld_s(dest,dmax,src,slen)     "copies slen characters from the character array src into the character array
        dest. The copy operation does not stop on the NUL character": dest[0..slen) = src[0..slen); the code nulls the
        rest of the field (dest[slen..dmax) = 0) in every build.
  strcpyfldin_s(dest,dmax,src,slen)   "copies at most slen characters from the zero terminated string src into the fixed
        character array dest. The copy operation stops on the null character ... and then continues to fill the field
        with nulls up to dmax characters": n = min(slen, strlen(src)); dest[0..n) = src[0..n), dest[n..dmax) = 0.
  strcpyfldout_s(dest,dmax,src,slen)  "copies slen characters from the character array src into the string dest. A null is
        included to properly terminate the dest string": dest = src[0..slen) + NUL — which needs slen < dmax; with
        slen == dmax the complete result does not fit (the @pre only says "slen shall not exceed dmax").
  all three: "@retval EOK when operation is successful or slen = 0" (slen == 0: nothing is looked at, nothing stored);
  ESNULLP dest/src null, ESZEROL dmax = 0, ESLEMAX dmax > RSIZE_MAX_STR, EOVERFLOW dmax > object size, ESNOSPC slen > dmax,
  ESOVRLP objects overlap; "If there is a runtime-constraint violation and if dest and dmax are valid, then … nulls dest".
"""
import itertools
from proto import Op, Region, ptr
from gens import (X, LIM, cstr, bosarg, EOK, ESNULLP, ESZEROL, ESLEMAX, ESNOSPC, ESOVRLP, EOVERFLOW)
from oracles import Fail

FNS = ["strcpyfld_s", "strcpyfldin_s", "strcpyfldout_s"]
A, B, C = 0x61, 0x62, 0x63
LIMS = LIM[1]


def src_read(fn, sc, slen):
    """cells of src the caller declares readable"""
    if fn == "strcpyfldin_s":
        s = cstr(sc)
        n = len(sc) if s is None else len(s) + 1
        return min(n, max(slen, 0)) if slen <= len(sc) or s is None else n
    return min(slen, len(sc))


def mk_sep(fn, dmax, prior, sc, slen, bos=None, objsize=None, dnull=False, snull=False, swap=False, tag=""):
    objsize = objsize if objsize is not None else max(dmax, 1)
    dcells = (list(prior) + [X] * objsize)[:objsize]
    dk, sk = (1, 0) if swap else (0, 1)
    regs = [None, None]
    regs[dk] = Region(1, dcells)
    regs[sk] = Region(1, sc)
    srd = src_read(fn, sc, slen)
    d = "null" if dnull else ptr(dk)
    s = "null" if snull else ptr(sk)
    W = [] if dnull else [(dk, 0, min(dmax, objsize))]
    Rd = list(W) + ([] if snull else [(sk, 0, srd)])
    truthful = (dnull or dmax <= objsize) and (bos is None or bos <= objsize)
    if not snull:
        if fn == "strcpyfldin_s":
            truthful = truthful and (cstr(sc) is not None or slen <= len(sc))
        else:
            truthful = truthful and (slen <= len(sc) or slen > dmax)
    meta = dict(fam="fld", fn=fn, w=1, dest=None if dnull else (dk, 0), dmax=dmax, bos=bos, objsize=objsize,
                src=None if snull else (sk, 0), slen=slen, srccells=list(sc), prior=dcells, place="sep",
                truthful=truthful, tag=tag)
    return Op(fn, regs, [d, dmax, s, slen, bosarg(bos)], W, Rd, meta)


def mk_arena(fn, arena, doff, dmax, soff, slen, tag="arena"):
    regs = [Region(1, arena)]
    sc = arena[soff:]
    srd = src_read(fn, sc, slen)
    dobj = len(arena) - doff
    W = [(0, doff, min(dmax, dobj))]
    Rd = list(W) + [(0, soff, srd)]
    truthful = dmax <= dobj and (slen <= len(sc) or slen > dmax or (fn == "strcpyfldin_s" and cstr(sc) is not None))
    meta = dict(fam="fld", fn=fn, w=1, dest=(0, doff), dmax=dmax, bos=None, objsize=dobj, src=(0, soff), slen=slen,
                srccells=list(sc), prior=list(arena[doff:]), place="arena", truthful=truthful, tag=tag)
    return Op(fn, regs, [ptr(0, doff), dmax, ptr(0, soff), slen, bosarg(None)], W, Rd, meta)


def strings(alpha, maxlen):
    for n in range(maxlen + 1):
        for t in itertools.product(alpha, repeat=n):
            yield list(t)


def gen(rng, tier):
    ops = []
    for fn in FNS:
        # small scope: every source over {a, b, NUL} of length <= 4, dmax 0..5, slen 0..6, dirty dest
        srcs = [s for s in strings([A, B, 0], 3 if tier == "quick" else 4)]
        for sc in srcs:
            if not sc:
                continue
            for dmax in range(0, 6):
                for slen in range(0, 7):
                    for swap in (False, True):
                        ops.append(mk_sep(fn, dmax, [X] * dmax, sc, slen, swap=swap, tag="small"))
        # the 0x20 switch of the trailing fill, and dirty fields
        for dmax in (31, 32, 33, 34, 40, 64, 65):
            for slen in (1, 2, dmax - 34, dmax - 33, dmax - 32, dmax - 1, dmax, dmax + 1):
                if slen < 0:
                    continue
                sc = [A + (i % 20) for i in range(max(slen, 1) + 2)]
                ops.append(mk_sep(fn, dmax, [X] * dmax, sc, slen, tag="switch"))
                ops.append(mk_sep(fn, dmax, [X] * dmax, sc[:max(slen - 1, 0)] + [0, B, B], slen, tag="switch-nul"))
        # constraints
        S = [A, B, 0, C]
        ops.append(mk_sep(fn, 4, [X] * 4, S, 2, dnull=True, tag="null"))
        ops.append(mk_sep(fn, 4, [X] * 4, S, 2, snull=True, tag="null"))
        ops.append(mk_sep(fn, 4, [X] * 4, S, 2, dnull=True, snull=True, tag="null"))
        ops.append(mk_sep(fn, 0, [X], S, 2, tag="zero"))
        ops.append(mk_sep(fn, 4, [X] * 4, S, 0, dnull=True, snull=True, tag="slen0"))
        for dmax, bos, obj in ((4, 4, 4), (4, 8, 8), (2, 8, 8), (9, 8, 9), (5, 4, 5), (LIMS + 1, 8, 8), (LIMS + 4, LIMS + 8, LIMS + 8)):
            ops.append(mk_sep(fn, dmax, [X] * min(dmax, obj), S, 2, bos=bos, objsize=obj, tag="bos"))
            ops.append(mk_sep(fn, dmax, [A, 0] + [X] * 8, S, 2, bos=bos, objsize=obj, tag="bos-term"))
        # slen > dmax with dmax above the limit inside a known object that large: the clearing exit measures dest with strnlen_s
        ops.append(mk_sep(fn, LIMS + 4, [A, 0] + [X] * 8, S, LIMS + 5, bos=LIMS + 8, objsize=LIMS + 8, tag="bos-big+slen"))
        ops.append(mk_sep(fn, LIMS + 1, [X] * 8, S, 2, objsize=8, tag="limit+1"))
        ops.append(mk_sep(fn, LIMS, [X] * LIMS, [A] * 8 + [0], 4, objsize=LIMS, tag="limit"))
        for slen in (5, LIMS, LIMS + 1, 1 << 40):
            ops.append(mk_sep(fn, 4, [X] * 4, S, slen, tag="slen"))
            ops.append(mk_sep(fn, 4, [A, B, 0, X], S, slen, tag="slen-term"))
        # overlap placements: every offset of src relative to dest in one arena
        for dmax in (1, 2, 3, 4):
            for slen in (1, 2, 3, 4):
                for body in ([A, B, A, B], [A, 0, B, A]):
                    arena = [X] * 4 + body + [0] + [X] * 5
                    for doff in range(0, 10):
                        for soff in range(0, 10):
                            if doff + dmax <= len(arena) and soff + slen <= len(arena):
                                ops.append(mk_arena(fn, arena, doff, dmax, soff, slen))
        n = 200 if tier == "quick" else 4000
        for _ in range(n):
            L = rng.randint(0, 40)
            sc = [rng.choice([A, B, C, 0x7A, 0xE9, 0]) for _ in range(L)] + [0]
            dmax = rng.randint(1, 50)
            slen = rng.choice([rng.randint(0, L + 1), dmax, dmax - 1, rng.randint(0, dmax)])
            ops.append(mk_sep(fn, dmax, [rng.choice([X, 0, A]) for _ in range(dmax)], sc, max(slen, 0),
                              swap=rng.random() < 0.5, tag="random"))
    return ops


def _inter(a0, a1, b0, b1):
    return a0 < b1 and b0 < a1


def annotate(op):
    m = op.meta
    fn, dmax, slen, bos = m["fn"], m["dmax"], m["slen"], m["bos"]
    # ESNOSPC is an ENTRY check here (slen > dmax, nothing copied yet): dest[0] = 0 and no partial result is what C04 asks
    m.update(producing=(fn == "strcpyfldout_s"), clears=True, slackdoc=False, hkind="S", retkind="e", limit=LIMS,
             entry_codes=(ESNOSPC,))
    viol, opt, names, ref = set(), set(), [], {}
    if slen == 0:
        m.update(viol=set(), viol_opt=set(), violname="", ref={}, noop=True)    # "EOK when ... slen = 0"
        return
    if m["dest"] is None:
        viol.add(ESNULLP); names.append("dest-null")
    if dmax == 0:
        viol.add(ESZEROL); names.append("dmax-zero")
    if dmax > LIMS:
        if bos is not None and dmax <= bos:
            opt.add(ESLEMAX); names.append("dmax-max-within-bos")
        else:
            viol.add(ESLEMAX); names.append("dmax-max")
    if bos is not None and dmax > bos:
        viol.add(EOVERFLOW); names.append("dmax-bos")
    if m["src"] is None:
        viol.add(ESNULLP); names.append("src-null")
    if not viol and slen > dmax:
        viol.add(ESNOSPC); names.append("slen-dmax")
        if slen > LIMS:
            viol.add(ESLEMAX)
    if not viol and m["truthful"]:
        sc = m["srccells"]
        if fn == "strcpyfldin_s":
            s = cstr(sc)
            n = min(slen, len(s) if s is not None else len(sc))
            nread = min(n + 1, slen, len(sc))
        else:
            n = slen
            nread = slen
        res = list(sc[:n])
        disjoint, must = True, False
        if m["place"] == "arena":
            d0, s0 = m["dest"][1], m["src"][1]
            disjoint = not _inter(d0, d0 + dmax, s0, s0 + max(nread, 1))
            must = _inter(d0, d0 + min(n, dmax), s0, s0 + nread) and d0 != s0
            m["ovl"] = dict(disjoint=disjoint, must=must, same=d0 == s0)
            if d0 == s0:
                opt |= {ESOVRLP}
        # C08 speaks about strings: the zero fill behind the copied characters is checked through ref["cells"] (C06);
        # "stale behind the terminator" only makes sense when the copied characters contain no NUL themselves
        m["slackdoc"] = fn != "strcpyfld_s" and 0 not in res
        if fn == "strcpyfldout_s" and n + 1 > dmax:
            ref["must_fail"] = True                     # slen == dmax: no room for the promised terminator
            opt |= {ESNOSPC}
            if not disjoint:
                opt |= {ESOVRLP}
            m.pop("ovl", None)
        elif must:
            viol.add(ESOVRLP); names.append("overlap")
        else:
            if not disjoint:
                opt.add(ESOVRLP)
            ref["cells"] = res + [0] * (dmax - len(res))
    if viol:
        viol |= opt
    m.update(viol=viol, viol_opt=opt, violname="+".join(names), ref=ref)


FAMILIES = {
    "fld": dict(gen=gen, annotate=annotate, props=["C01", "C02", "C03", "C04", "C05", "C06", "C07", "C08"], oracles={}),
}

"""Memory family.

  "memccpy" : memccpy_s - generator, reference and property-specific oracles (this file)
  "mem_extras": extra memcpy/memset-shaped cases (backward copies against a LEFT guard page, fault
              probes for every primitive, object-size / size-arithmetic corner cases)
  "mem"     : AGGREGATE - the whole memory family in one run: gens.gen_memcpy + gens.gen_memset
              (references in refs.py) + memccpy + mem_extras.

Reference semantics of memccpy_s (from its doc comment in src/extmem/memccpy_s.c and from the
standard memccpy it names as its counterpart - NOT from the C body):

  * standard memccpy(dest, src, c, n): bytes are copied from src to dest until the byte
    (unsigned char)c has been copied or n bytes have been copied; nothing else is touched.
  * runtime-constraints (@pre/@retval): dest/src NULL -> ESNULLP; dmax == 0 -> ESZEROL;
    dmax or n > RSIZE_MAX_MEM -> ESLEMAX; dmax > object size -> EOVERFLOW; n > dmax -> ESNOSPC;
    overlapping regions -> ESOVRLP.  On a violation the first dmax bytes of dest are zeroed
    (dest non-null, n valid).  n == dmax is NOT a violation.
  * "EOK when operation is successful or n = 0", "With n=0, dest[0] is set to '\\0'".  Whether n == 0
    is looked at before or after the other constraints is not said: with n == 0 every other
    violation is optional (viol_opt).
  * "With SAFECLIB_STR_NULL_SLACK defined the rest (max. n bytes, not dmax) is cleared with NULL
    bytes": after the stop character, dest[k+1 .. n) is 0 in a slack build; dest[n .. dmax) is never
    part of "the rest".  Nothing is said about terminating a truncated copy: a 0 stored at dest[n]
    (inside dmax) is tolerated, any other change behind the copied bytes is not.
  * the regions that must not overlap are dest[0 .. dmax) and src[0 .. n).  ESOVRLP is REQUIRED when
    the bytes actually copied overlap, OPTIONAL when only the declared regions do.
  * the source extent a caller must provide is what memccpy reads: up to and including the first
    (unsigned char)c inside the first n bytes, else n bytes.
"""
import gens, refs, oracles
from gens import *
from proto import Op, Region, ptr, UNK
from oracles import Fail

FN = "memccpy_s"
MLIM = MEMLIM[1]


# ------------------------------------------------------------------ memccpy_s: construction
def _uc(c):
    return c & 0xFF


def stop_index(cells, c, n):
    """index of the first (unsigned char)c within the first n cells, or None"""
    for i, x in enumerate(cells[:n]):
        if x == _uc(c):
            return i
    return None


def ccpy_args(d, dmax, s, c, n, bos, sbos):
    return [d, dmax, s, c, n, bosarg(bos), bosarg(sbos)]


def mk_ccpy_sep(dmax, prior, srccells, c, n, bos=None, objsize=None, doff=0, dnull=False, snull=False, sbos=None,
                dflush="r", sflush="r"):
    """dest and src in separate regions.  dest object = objsize cells starting doff cells into its
    region (region = doff + objsize cells, so with flush 'r' the OBJECT ends at the guard page)."""
    objsize = objsize if objsize is not None else max(dmax, 1)
    dcells = [0x59] * doff + (list(prior) + [X] * objsize)[:objsize]
    regs = [Region(1, dcells, dflush), Region(1, srccells, sflush)]
    k = stop_index(srccells, c, n)
    srd = min(n, len(srccells)) if k is None else k + 1
    d = "null" if dnull else ptr(0, doff)
    s = "null" if snull else ptr(1)
    W = [] if dnull else [(0, doff, min(dmax, objsize))]
    Rd = list(W) + ([] if snull else [(1, 0, srd)])
    meta = dict(fam="memccpy", fn=FN, w=1, dest=None if dnull else (0, doff), dmax=dmax, bos=bos, objsize=objsize,
                src=None if snull else (1, 0), n=n, c=c, sbos=sbos, srccells=list(srccells), prior=dcells[doff:],
                place="sep",
                truthful=(dnull or dmax <= objsize) and (bos is None or bos <= objsize) and
                         (snull or k is not None or n <= len(srccells) or n > dmax))
    return Op(FN, regs, ccpy_args(d, dmax, s, c, n, bos, sbos), W, Rd, meta)


def mk_ccpy_arena(arena, doff, dmax, soff, c, n, flush="r"):
    """dest and src inside one region (every overlap placement); BOS unknown"""
    regs = [Region(1, arena, flush)]
    scells = arena[soff:]
    k = stop_index(scells, c, n)
    srd = min(n, len(scells)) if k is None else k + 1
    W = [(0, doff, dmax)]
    Rd = [(0, doff, dmax), (0, soff, srd)]
    meta = dict(fam="memccpy", fn=FN, w=1, dest=(0, doff), dmax=dmax, bos=None, objsize=len(arena) - doff,
                src=(0, soff), n=n, c=c, sbos=None, srccells=list(scells), prior=arena[doff:], place="arena",
                truthful=doff + dmax <= len(arena) and (k is not None or soff + n <= len(arena) or n > dmax))
    return Op(FN, regs, ccpy_args(ptr(0, doff), dmax, ptr(0, soff), c, n, None, None), W, Rd, meta)


def ccpy_src(n, c, pos, extra=0, second=False, base=0):
    """n + extra source bytes without (unsigned char)c, except at index pos (None: absent; pos == n
    puts it right behind the n bytes: it must not be seen).  When c != 0 the filler contains zeros."""
    fill0 = [0x61, 0x62, 0x63, 0x64, 0x65, 0x66, 0x67]
    fillz = [0x61, 0x00, 0xE9, 0x62, 0x80, 0x00, 0x7F, 0xFF, 0x41]
    fill = [x for x in (fill0 if _uc(c) == 0 else fillz) if x != _uc(c)]
    out = [fill[(base + i) % len(fill)] for i in range(n + extra)]
    if pos is not None and pos < len(out):
        out[pos] = _uc(c)
        if second and pos + 2 < len(out):
            out[pos + 2] = _uc(c)
    return out


STOPS = [0, 0x62, 0xE9]            # NUL, plain non-zero, high-bit
ODD_STOPS = [0x141, -1, 256, -159]  # an int that is not an unsigned char value: 'A', 0xFF, NUL, 'a' after conversion


def gen_memccpy(rng, tier):
    ops = []
    quick = tier == "quick"
    # 1. small scope, exhaustive: n x dmax x stop class x stop position (first, inside, n-1, right behind n, absent)
    nmax = 5 if quick else 7
    for n in range(0, nmax + 1):
        for dmax in range(0, nmax + 2):
            for c in STOPS:
                for pos in list(range(n + 1)) + [None]:
                    extra = 1 if pos == n else 0
                    src = ccpy_src(n, c, pos, extra, second=True)
                    if not src:
                        src = [0x61]
                    for prior in ([X] * max(dmax, 1), ([0x70, 0] + [0x71] * dmax)[:max(dmax, 1)]):
                        ops.append(mk_ccpy_sep(dmax, prior, src, c, n))
                    # the source OBJECT ends with the stop character although n allows more
                    if pos is not None and pos < n - 1 and n <= dmax:
                        ops.append(mk_ccpy_sep(dmax, [X] * dmax, src[:pos + 1], c, n))
    # 2. boundary sweep: the slack clear is mem_prim_set(dp, n, 0) - prologue / qwords / tail of every alignment
    dmaxes = (7, 8, 9, 15, 16, 17, 31, 32, 33, 64, 65, 129, 200) if quick else tuple(range(6, 70)) + (127, 128, 129, 200, 257)
    for dmax in dmaxes:
        for doff in (0, 1, 3) if quick else range(0, 8):
            for n in sorted({dmax - 1, dmax, dmax // 2, 1}):
                for c in (0, 0x62):
                    for pos in sorted({0, 1, n // 2, n - 2, n - 1} & set(range(n))) + [None]:
                        ops.append(mk_ccpy_sep(dmax, [X] * dmax, ccpy_src(n, c, pos, base=dmax), c, n, doff=doff))
    # 3. a stop "character" that is not an unsigned char value
    for c in ODD_STOPS:
        for n, dmax in ((4, 4), (4, 6), (1, 2), (5, 9)):
            for pos in (0, n // 2, n - 1, None):
                ops.append(mk_ccpy_sep(dmax, [X] * dmax, ccpy_src(n, c, pos), c, n))
    # 4. null / zero / limits / object sizes
    src = [0x61, 0x62, 0x63, 0]
    for c in (0, 0x62, 0x7A):
        ops.append(mk_ccpy_sep(4, [X] * 4, src, c, 4, dnull=True))
        ops.append(mk_ccpy_sep(4, [X] * 4, src, c, 4, snull=True))
        ops.append(mk_ccpy_sep(4, [X] * 4, src, c, 4, dnull=True, snull=True))
        ops.append(mk_ccpy_sep(0, [X], src, c, 4, dnull=True))
        ops.append(mk_ccpy_sep(0, [X], src, c, 0))
        ops.append(mk_ccpy_sep(4, [X] * 4, src, c, 0, dnull=True))
        ops.append(mk_ccpy_sep(4, [X] * 4, src, c, 0, snull=True))
        ops.append(mk_ccpy_sep(4, [X] * 4, src, c, 0, bos=3, objsize=3))
        ops.append(mk_ccpy_sep(3, [X] * 3, src, c, 4))
        ops.append(mk_ccpy_sep(3, [X] * 3, src, c, MLIM + 1))
        ops.append(mk_ccpy_sep(4, [X] * 4, src, c, MLIM))
        for prior in ([X] * 8, [0x70, 0] + [X] * 6):
            for dmax in (1, 3, 4, 8):
                for bos in (dmax, 8):
                    ops.append(mk_ccpy_sep(dmax, prior, src, c, min(dmax, 4), bos=bos, objsize=8))
            ops.append(mk_ccpy_sep(9, prior, src, c, 4, bos=8, objsize=8))          # dmax above the known object size
            ops.append(mk_ccpy_sep(MLIM + 1, prior, src, c, 4, bos=8, objsize=8))
            ops.append(mk_ccpy_sep(4, prior, src, c, 4, bos=8, objsize=8, sbos=3))  # n above the known source size
        # over the limit, object size unknown: dest points AT the guard page - any touch faults
        o = mk_ccpy_sep(MLIM + 1, [X], src, c, 4, objsize=1)
        o.args[0] = ptr(0, 1)
        o.W, o.Rd = [], [(1, 0, 4)]
        o.meta.update(dest=(0, 1), objsize=0, truthful=False, early=True)
        ops.append(o)
        # largest legal dmax (the object is far smaller, but only n + 1 bytes may be touched); src lies BELOW dest
        # so that dest + dmax does not reach it
        o = mk_ccpy_arena(src + [X] * 12, 8, MLIM, 0, c, 4)
        o.W = [(0, 8, 8)]
        o.Rd = [(0, 8, 8), (0, 0, 4)]
        o.meta["truthful"] = True
        ops.append(o)
    # 5. every placement of src relative to dest inside one arena
    for dmax in (1, 2, 3, 4):
        for n in range(1, dmax + 1):
            A = 4 + 2 * (dmax + n + 1)
            doff = A // 2 - dmax // 2
            for soff in range(max(0, doff - n - 2), min(A - n, doff + dmax + 2) + 1):
                for c, pos in ((0, None), (0, 0), (0x62, n - 1), (0x62, None)):
                    arena = [X] * A
                    s = ccpy_src(n, c, pos)
                    arena[soff:soff + n] = s
                    ops.append(mk_ccpy_arena(arena, doff, dmax, soff, c, n))
    # 6. dest right behind a guard page (nothing here scans backwards: a few cases only)
    for dmax, n, c, pos in ((4, 4, 0, 2), (8, 8, 0x62, 7), (9, 8, 0, None), (33, 20, 0x62, 3), (4, 4, 0x62, None)):
        ops.append(mk_ccpy_sep(dmax, [X] * dmax, ccpy_src(n, c, pos), c, n, dflush="l", sflush="l"))
        ops.append(mk_ccpy_sep(dmax, [X] * dmax, ccpy_src(n, c, pos), c, n, dflush="l", sflush="r"))
    # 7. seeded random
    for _ in range(300 if quick else 6000):
        dmax = rng.choice([rng.randint(1, 12), rng.randint(28, 70), rng.randint(1, 300)])
        n = rng.choice([dmax, dmax - 1, rng.randint(0, dmax), rng.randint(0, dmax + 2)])
        n = max(n, 0)
        c = rng.choice([0, 0, 0x62, 0xE9, 0xFF, 1, 0x141, -1])
        pos = rng.choice([None, 0, n - 1, rng.randint(0, max(n, 1))])
        if pos is not None and pos < 0:
            pos = None
        extra = 1 if pos is not None and pos >= n else 0
        src = ccpy_src(n, c, pos, extra, base=rng.randint(0, 6)) or [0x61]
        prior = [rng.choice([X, 0x59, 0])] * dmax if rng.random() < 0.2 else [X] * dmax
        ops.append(mk_ccpy_sep(dmax, prior, src, c, n, doff=rng.randint(0, 7)))
    return ops


# ------------------------------------------------------------------ memccpy_s: reference
def _inter(a0, a1, b0, b1):
    return max(a0, b0) < min(a1, b1)


def annotate_memccpy(op):
    m = op.meta
    m.update(clears=True, hkind="M", limit=MLIM, producing=False, slackdoc=False, retkind="e")
    dmax, n, c = m["dmax"], m["n"], m["c"]
    viol, opt, names, ref = set(), set(), [], {}
    if m["dest"] is None:
        viol.add(ESNULLP); names.append("dest-null")
    if dmax == 0:
        viol.add(ESZEROL); names.append("dmax-zero")
    if dmax > MLIM:
        viol.add(ESLEMAX); names.append("dmax-max")
    if m["bos"] is not None and dmax > m["bos"]:
        viol.add(EOVERFLOW); names.append("dmax-bos")
    if m["src"] is None:
        viol.add(ESNULLP); names.append("src-null")
    if n > dmax:
        viol.add(ESLEMAX if n > MLIM else ESNOSPC); names.append("n-dmax")
    if n == 0:
        # "EOK when ... n = 0": the order against the other constraints is not specified
        opt |= viol
        viol = set()
        names.append("n-zero")
        if m["dest"] is not None and dmax > 0 and m.get("truthful"):
            m["ccpy"] = dict(exp=[0], cnt=1, found=False, k=None, nzero=True)
    elif not viol:
        sc = m["srccells"]
        k = stop_index(sc, c, n)
        cnt = n if k is None else k + 1
        if m["place"] == "arena":
            d0, s0 = m["dest"][1], m["src"][1]
            disjoint = not _inter(d0, d0 + dmax, s0, s0 + n)
            must = _inter(d0, d0 + cnt, s0, s0 + cnt)
            m["ovl"] = dict(disjoint=disjoint, must=must, same=False)
            if must:
                viol.add(ESOVRLP); names.append("overlap")
            elif not disjoint:
                opt.add(ESOVRLP)
        if not viol:
            m["ccpy"] = dict(exp=sc[:cnt], cnt=cnt, found=k is not None, k=k, nzero=False)
    m.update(viol=viol, viol_opt=opt, violname="+".join(names), ref=ref)


# ------------------------------------------------------------------ memccpy_s: property-specific oracles
def o_C06_memccpy(op, ob, before):
    """result of a successful call = standard memccpy on the first n bytes (+ the documented slack clear)"""
    m = op.meta
    if m.get("fam") != "memccpy" or ob.fault or "ccpy" not in m or not m.get("truthful", True):
        return []
    if oracles.failed(op, ob) or m.get("dest") is None:
        return []
    out = []
    r = m["ccpy"]
    k, off = m["dest"]
    dmax, n = m["dmax"], m["n"]
    lim = min(dmax, len(ob.img[k]) - off)
    got = ob.img[k][off:off + lim]
    prior = before[k][off:off + lim]
    exp, cnt = r["exp"], r["cnt"]
    inrange = 0 <= m["c"] <= 255
    diff = [i for i in range(min(cnt, lim)) if got[i] != exp[i]]
    if diff:
        if not inrange:
            kind = "wrong-result:c-not-uchar"
        elif r["found"] and diff == [r["k"]]:
            kind = "wrong-result:stop-char"
        else:
            kind = "wrong-result"
        out.append(Fail("C06", "%s:%s" % (op.fn, kind), "at %d got %x want %x (c=%s n=%d dmax=%d)" % (diff[0], got[diff[0]], exp[diff[0]], m["c"], n, dmax)))
    elif not r["nzero"]:
        # behind the copied bytes
        for i in range(cnt, lim):
            if not inrange and got[i] != prior[i]:
                out.append(Fail("C06", "%s:copied-past-stop:c-not-uchar" % op.fn,
                                "dest[%d] %x->%x cnt=%d n=%d c=%s" % (i, prior[i], got[i], cnt, n, m["c"])))
                break
            if got[i] == prior[i]:
                if m.get("slack", 1) and r["found"] and i < n and got[i] != 0:
                    out.append(Fail("C06", "%s:rest-not-cleared" % op.fn, "dest[%d]=%x n=%d" % (i, got[i], n)))
                    break
                continue
            if got[i] == 0 and (i < n or (i == n and not r["found"])):
                if not m.get("slack", 1) and r["found"]:
                    out.append(Fail("C06", "%s:rest-cleared-without-slack" % op.fn, "dest[%d]" % i))
                    break
                continue
            out.append(Fail("C06", "%s:rest-modified" % op.fn, "dest[%d] %x->%x cnt=%d n=%d" % (i, prior[i], got[i], cnt, n)))
            break
    # a source that does not overlap dest survives a successful call
    s = m.get("src")
    if s is not None and s[0] != k:
        sk = s[0]
        if ob.img[sk] != before[sk]:
            out.append(Fail("C06", "%s:src-modified" % op.fn, ""))
    return out


def o_C05_memccpy(op, ob, before):
    """memccpy_s belongs to the mem library: its violations go to the MEM constraint handler"""
    m = op.meta
    if m.get("fam") != "memccpy" or ob.fault:
        return []
    bad = [e for e in ob.ev if e[0] != "M"]
    if bad:
        return [Fail("C05", "%s:handler-kind=%s:ret=%s" % (op.fn, bad[0][0], ob.ret), "ev=%s" % ob.ev)]
    return []


def o_C04_memccpy(op, ob, before):
    """'stores zeros in the first dmax bytes of the region pointed to by dest' - in every build"""
    m = op.meta
    if m.get("fam") != "memccpy" or ob.fault or not oracles.usable_dest(m) or not oracles.failed(op, ob):
        return []
    after = oracles.dest_cells(op, ob.img)
    if any(after) and after[0] == 0 and m.get("slack", 1) == 0:
        # generic C04 only asks for dest[0] in a no-slack build; the doc comment of memccpy_s asks for all of dmax
        return [Fail("C04", "%s:not-all-zero:ret=%s" % (op.fn, ob.ret), "dest=%s" % after[:16])]
    return []


# ------------------------------------------------------------------ extras for the combined family
def _probe(o, note):
    o.meta["truthful"] = False
    o.meta["probe"] = note
    o.W = []
    o.Rd = []
    return o


def gen_mem_extras(rng, tier):
    ops = []
    quick = tier == "quick"
    copyfns = gens.MEMCPY_FNS
    # a. backward copies (dest above src) with the arena starting right after a guard page:
    #    an under-run of the descending copy faults
    lens = [1, 2, 3, 7, 8, 9, 15, 16, 17, 23, 24, 31, 32, 33, 40, 64, 65, 129] if quick else list(range(1, 70)) + [127, 128, 129, 200]
    for fn, w in copyfns:
        for n in lens:
            for delta in (1, 3, 8, n, n + 1, n + 5):
                for soff in (0, 1) if quick else (0, 1, 2, 5):
                    A = soff + delta + n
                    o = gens.mk_memcpy(fn, w, gens.pat(A, w, base=n), soff + delta, n, soff, n)
                    o.regions[0].flush = "l"
                    ops.append(o)
    # b. fault probes (declarations untrue on purpose; only the model/implementation comparison uses them):
    #    the primitive must fault at the same cell in the same direction
    for fn, w in copyfns:
        for n in (1, 5, 8, 9, 16, 17, 24, 40):
            for al in (0, 1, 3):
                A = 2 * n + 16
                # forward copy (dest below src) whose source runs 2 cells into the right guard page
                ops.append(_probe(gens.mk_memcpy(fn, w, gens.pat(A, w), al, n, A - n + 2, n), "src-over-fwd"))
                # backward copy (dest above src) whose dest ends 3 cells inside the right guard page
                ops.append(_probe(gens.mk_memcpy(fn, w, gens.pat(A, w), A - n + 3, n, al, n), "dest-over-bwd"))
                # the same with both ends qword-aligned (8 cells inside): the first access is a whole word
                if n > 8:
                    ops.append(_probe(gens.mk_memcpy(fn, w, gens.pat(A, w), A - n + 8, n, (A - n) % 8, n), "dest-over-bwd-aligned"))
                    ops.append(_probe(gens.mk_memcpy(fn, w, gens.pat(A, w), (A - n) % 8, n, A - n + 8, n), "src-over-fwd-aligned"))
                # forward copy whose dest starts under the left guard page
                o = gens.mk_memcpy(fn, w, gens.pat(A, w), -(al + 1), n, n + 3, n)
                o.regions[0].flush = "l"
                ops.append(_probe(o, "dest-under-fwd"))
                # backward copy whose source starts 2 cells under the left guard page
                o = gens.mk_memcpy(fn, w, gens.pat(A, w), n + 4 + al, n, -2, n)
                o.regions[0].flush = "l"
                ops.append(_probe(o, "src-under-bwd"))
    for fn, w in gens.MEMSET_FNS:
        for n in (1, 7, 8, 9, 17, 40, 130):
            for al in (0, 1, 3, 5):
                obj = gens.pat(n + al, w)
                o = gens.mk_memset(fn, w, obj, al + 2, n + 8, 0x41, n)       # runs 2 cells into the guard page
                ops.append(_probe(o, "set-over"))
    for fn, w in gens.MEMZERO_FNS:
        if fn == "memzero_s":
            continue                      # explicit_bzero: libc decides where a wild call faults
        for n in (1, 8, 17, 40):
            obj = gens.pat(n, w)
            o = gens.mk_memset(fn, w, obj, 2, n, 0, n, kind="memzero")
            ops.append(_probe(o, "zero-over"))
    # c. a known object size larger than dmax (the 16/32-bit copies take both in bytes)
    for fn, w in copyfns:
        a = gens.pat(24, w)
        for dmax, slen, bos in ((4, 6, 8), (4, 5, 8), (4, 8, 8), (4, 9, 8), (2, 3, 4), (4, 4, 8), (4, 3, 8)):
            ops.append(gens.mk_memcpy(fn, w, a, 0, dmax, 12, slen, bos=bos))
            ops.append(gens.mk_memcpy(fn, w, a, 0, dmax, 12, slen, bos=bos, sbos=slen))
        # overlap with a known object size: which extent is cleared?
        ops.append(gens.mk_memcpy(fn, w, a, 4, 4, 6, 3, bos=8))
        ops.append(gens.mk_memcpy(fn, w, a, 6, 4, 4, 3, bos=8))
        ops.append(gens.mk_memcpy(fn, w, a, 4, 4, 9, 3, bos=8))     # src inside the object, behind dmax
    # d. size arithmetic: element counts whose byte size wraps around 2^64, dmax between the element and byte limits
    for fn, w in copyfns:
        if w == 1:
            continue
        a = gens.pat(16, w)
        big = (1 << 64) // w
        ops.append(gens.mk_memcpy(fn, w, a, 0, 4, 8, big + 1))
        ops.append(gens.mk_memcpy(fn, w, a, 0, 4, 8, big + 4))
        ops.append(gens.mk_memcpy(fn, w, a, 0, 4, 8, big + 5))
        ops.append(gens.mk_memcpy(fn, w, a, 0, 4, 2, big + 3))
    for fn, w in (("wmemcpy_s", 4), ("wmemmove_s", 4)):
        a = gens.pat(16, w)
        big = (1 << 64) // w
        ops.append(gens.mk_memcpy(fn, w, a, 0, big + 4, 8, 2))         # dlen*4 wraps to 16 bytes
        ops.append(gens.mk_memcpy(fn, w, a, 0, big + 4, 2, 2))
        # legal by the doc comment (dlen <= RSIZE_MAX_WMEM, count <= dlen); the object is only 16 cells but
        # just `count` cells may be touched
        for dlen in (MEMLIM[4], MEMLIM[4] // 4 + 1, MEMLIM[4] // 4):
            o = gens.mk_memcpy(fn, w, a, 8, dlen, 0, 2)      # src BELOW dest: dest + dlen must not reach it
            o.meta["truthful"] = False
            ops.append(o)
    for fn, w in gens.MEMZERO_FNS:
        if w == 1:
            continue
        obj = gens.pat(8, w)
        big = (1 << 64) // w
        ops.append(gens.mk_memset(fn, w, obj, 0, big + 2, 0, big + 2, kind="memzero"))
        ops.append(gens.mk_memset(fn, w, obj, 0, big, 0, big, kind="memzero"))
    # e. dmax in bytes that is not a multiple of the element size (16/32-bit copies): the error paths clear BYTES
    for fn, w in (("memcpy16_s", 2), ("memcpy32_s", 4), ("memmove16_s", 2), ("memmove32_s", 4)):
        for cells, rem in ((2, 1), (3, w - 1), (9, 1)):
            a = gens.pat(32, w)
            for soff, slen in ((5, 1), (20, cells + 1), (4 + cells, cells)):
                o = gens.mk_memcpy(fn, w, a, 4, cells, soff, slen)
                o.args[1] = str(cells * w + rem)
                o.W = [(0, 4, cells + 1)]
                o.meta["dmax_bytes"] = cells * w + rem
                ops.append(o)
    # f. memset value corner cases: a C int that is negative / above 255, 16/32-bit values above the element range
    obj = gens.pat(12, 1)
    for v in (-1, -200, 255, 256, 1 << 31, (1 << 32) + 0x41):
        o = gens.mk_memset("memset_s", 1, obj, 2, 8, v, 6)
        ops.append(o)
    for fn, w in (("memset16_s", 2), ("memset32_s", 4)):
        for v in ((1 << (8 * w)) + 0x41, (1 << (8 * w)) - 1):
            ops.append(gens.mk_memset(fn, w, gens.pat(12, w), 2, 8, v, 6))
    return ops


def annotate_extras_fix(op):
    """value semantics of the corner cases in (f): an int is converted to unsigned char, wider element values
    are truncated by the parameter type - refs.annotate_memset already masks; a negative int is not '> 255'."""
    m = op.meta
    if m.get("fam") == "memset" and m["fn"] == "memset_s" and isinstance(m.get("value"), int):
        v = m["value"]
        v32 = v & 0xFFFFFFFF
        sv = v32 - (1 << 32) if v32 >= (1 << 31) else v32
        m["value"] = sv if sv > 255 else (sv & 0xFF)


# ------------------------------------------------------------------ the combined family
def gen_mem(rng, tier):
    return gens.gen_memcpy(rng, tier) + gens.gen_memset(rng, tier) + gen_memccpy(rng, tier) + gen_mem_extras(rng, tier)


def annotate_mem(op):
    fam = op.meta.get("fam")
    if fam == "memccpy":
        annotate_memccpy(op)
    elif fam == "memcpy":
        refs.annotate_memcpy(op)
    elif fam == "memset":
        annotate_extras_fix(op)
        refs.annotate_memset(op)
    elif fam == "memzero":
        refs.annotate_memzero(op)


CCPY_ORACLES = {"C04": o_C04_memccpy, "C05": o_C05_memccpy, "C06": o_C06_memccpy}

PROPS = ["C01", "C02", "C04", "C05", "C06", "C07"]

FAMILIES = {
    "memccpy": dict(gen=gen_memccpy, annotate=annotate_memccpy, props=PROPS, oracles=CCPY_ORACLES),
    # the extra memcpy/memset-shaped cases alone (references: refs.annotate_mem*)
    "mem_extras": dict(gen=gen_mem_extras, annotate=annotate_mem, props=PROPS),
}

"""Input families.  Every module in this package exposes
    FAMILIES = { "<name>": dict(gen=callable(rng, tier) -> [Op], annotate=callable(op) -> None,
                                props=["C01", ...], oracles={"C10": callable(op, ob, before) -> [Fail]}) }
gen builds the ops (with meta: fam, fn, w, dest, dmax, bos, truthful, ...); annotate fills the reference
semantics the generic oracles read (viol, ref, producing, clears, slackdoc, ovl, hkind, retkind, limit);
props lists the properties the family feeds; oracles adds property-specific oracles for this family."""
import importlib, pkgutil, os

def load_all():
    fams = {}
    for m in pkgutil.iter_modules([os.path.dirname(__file__)]):
        mod = importlib.import_module("families." + m.name)
        fams.update(getattr(mod, "FAMILIES", {}))
    return fams

"""query2 family: more read-only queries.

  narrow  strfirstchar_s strlastchar_s strfirstdiff_s strfirstsame_s strlastdiff_s strlastsame_s
          strisalphanumeric_s strisascii_s strisdigit_s strishex_s strislowercase_s strismixedcase_s
          strisuppercase_s strispassword_s
  wide    wcsnlen_s wcscmp_s wcsncmp_s wcsstr_s wmemcmp_s           (cell = wchar_t, 4 bytes, signed)

The reference semantics below are written from the doc comments in /repo/src/extstr, src/wchar,
src/extwchar and from the standard functions the wide ones correspond to (wcsnlen, wcscmp, wcsncmp,
wcsstr, wmemcmp) - not from the C bodies.  Where the documentation leaves an answer open the
reference says "unspecified" (None) and the oracle does not judge it:

  * the classification predicates on the EMPTY string (the docs say "true when all chars are X");
  * strispassword_s on a string holding a character that is neither alphanumeric nor punctuation
    (the doc lists the minimum counts only);
  * the value left in the out-parameter by a 'not found' / 'no difference' / failed call.

Extents (C02): dest = the dmax cells the caller declares; src = up to and including its terminator,
or the slen/smax cells the caller declares, whichever is smaller.  Every object is built flush
against a guard page, so a read one cell past an extent faults.
"""
import itertools
from gens import (X, LIM, MEMLIM, bosarg, EOK, ESNULLP, ESZEROL, ESLEMIN, ESLEMAX, ESNOSPC, ESUNTERM,
                  ESNODIFF, ESNOTFND, EOVERFLOW)
from proto import Op, Region, ptr
from oracles import Fail

CHAR = ["strfirstchar_s", "strlastchar_s"]
PAIR = ["strfirstdiff_s", "strfirstsame_s", "strlastdiff_s", "strlastsame_s"]
PRED = ["strisalphanumeric_s", "strisascii_s", "strisdigit_s", "strishex_s", "strislowercase_s",
        "strismixedcase_s", "strisuppercase_s"]
PWD = "strispassword_s"
WCMP = ["wcscmp_s", "wcsncmp_s"]
WIDE = ["wcsnlen_s", "wcscmp_s", "wcsncmp_s", "wcsstr_s", "wmemcmp_s"]
HAS_SRC = set(PAIR) | {"wcscmp_s", "wcsncmp_s", "wcsstr_s", "wmemcmp_s"}
BACKWARD = {"strlastchar_s", "strlastdiff_s", "strlastsame_s"}      # "last ..." queries: also run flush-left
OUTPOS = {"strfirstchar_s": 3, "strlastchar_s": 3, "strfirstdiff_s": 3, "strfirstsame_s": 3, "strlastdiff_s": 3,
          "strlastsame_s": 3, "wcscmp_s": 4, "wcsncmp_s": 5, "wcsstr_s": 4, "wmemcmp_s": 4}
PW_MIN, PW_MAX = 6, 32          # SAFE_STR_PASSWORD_MIN_LENGTH / MAX_LENGTH
PW_LOWER, PW_UPPER, PW_NUM, PW_SPECIAL = 2, 2, 1, 1
WX = 0x58585858                 # wide filler


def width(fn):
    return 4 if fn in WIDE else 1


def limit(fn):
    if fn == PWD:
        return PW_MAX
    if fn == "wmemcmp_s":
        return MEMLIM[4]        # RSIZE_MAX_WMEM, in wchar_t
    return LIM[width(fn)]


def filler(fn):
    return WX if fn in WIDE else X


# ------------------------------------------------------------------ op construction
def mk(fn, dcells, dmax, scells=None, n2=None, n3=None, c=None, bos=None, sbos=None, dnull=False, snull=False,
       flush="r", sflush="r", same=False, doff=0, early=False):
    """dcells: dest's whole object; dmax: what the caller declares; scells: src's whole object;
    n2: smax / slen; n3: count (wcsncmp_s); c: the character (first/lastchar); bos/sbos: object sizes
    in CELLS as the caller's compiler would know them (None = unknown)."""
    w = width(fn)
    regs = [Region(w, dcells, flush)]
    d = "null" if dnull else ptr(0, doff)
    objsize = len(dcells) - doff
    Rd = []
    if not dnull:
        Rd.append((0, doff, max(0, min(dmax, objsize))))
    src = None
    sc = None
    s = None
    if fn in HAS_SRC:
        if same:
            src, sc = (0, doff), list(dcells[doff:])
        else:
            regs.append(Region(w, scells, sflush))
            src, sc = (1, 0), list(scells)
        s = "null" if snull else ptr(*src)
        if snull:
            src = None
        else:
            z = sc.index(0) + 1 if 0 in sc else len(sc)          # up to and including the terminator
            if fn in PAIR:
                ext = z
            elif fn == "wmemcmp_s":
                ext = min(n2, len(sc))
            elif fn == "wcsstr_s":
                ext = max(1, min(n2, z))                          # *src is documented to be looked at
            else:
                ext = min(n2, z)
            Rd.append((src[0], src[1], min(ext, len(sc))))
    b, sb = bosarg(bos, w), bosarg(sbos, w)
    if fn in CHAR:
        args = [d, dmax, c, "_", b]
    elif fn in PAIR:
        args = [d, dmax, s, "_", b]
    elif fn in PRED or fn == PWD or fn == "wcsnlen_s":
        args = [d, dmax, b]
    elif fn == "wcsncmp_s":
        args = [d, dmax, s, n2, n3, "_", b, sb]
    else:                                                          # wcscmp_s wcsstr_s wmemcmp_s
        args = [d, dmax, s, n2, "_", b, sb]
    truthful = (dnull or dmax <= objsize) and (bos is None or bos <= objsize)
    if fn in HAS_SRC and not snull:
        terminated = 0 in sc
        if fn in PAIR:
            truthful = truthful and (terminated or len(sc) >= dmax)
        else:
            truthful = truthful and n2 <= len(sc)
        truthful = truthful and (sbos is None or sbos <= len(sc))
    if early:
        truthful = False
    meta = dict(fam="query2", fn=fn, w=w, dest=None if dnull else (0, doff), dmax=dmax, bos=bos, objsize=objsize,
                src=src, sbos=sbos, n2=n2, n3=n3, c=c, dcells=list(dcells[doff:]), scells=sc, same=same,
                truthful=truthful, early=early, dflush=flush)
    return Op(fn, regs, args, [], Rd, meta)


# ------------------------------------------------------------------ reference semantics
def scan(cells, n):
    """the characters the documentation lets the function look at: before the first NUL, at most n"""
    out = []
    for ch in cells[:n]:
        if ch == 0:
            break
        out.append(ch)
    return out


def s32(v):
    v &= 0xFFFFFFFF
    return v - (1 << 32) if v >= (1 << 31) else v


def sgn(x):
    return (x > 0) - (x < 0)


def isdigit(ch): return 0x30 <= ch <= 0x39
def islower(ch): return 0x61 <= ch <= 0x7A
def isupper(ch): return 0x41 <= ch <= 0x5A
def isalpha(ch): return islower(ch) or isupper(ch)
def isalnum(ch): return isalpha(ch) or isdigit(ch)
def isxdigit(ch): return isdigit(ch) or 0x61 <= ch <= 0x66 or 0x41 <= ch <= 0x46
def isascii(ch): return ch <= 127
def ispunct(ch): return 33 <= ch <= 126 and not isalnum(ch)      # C locale


CLASS = {"strisalphanumeric_s": isalnum, "strisascii_s": isascii, "strisdigit_s": isdigit, "strishex_s": isxdigit,
         "strislowercase_s": islower, "strismixedcase_s": isalpha, "strisuppercase_s": isupper}
# strismixedcase_s: "the entire string is mixed case" is read as "every character is a letter of either
# case" (isalpha) - the reading the library's own test suite takes ("N" is accepted).


def wcs_cmp(a, b):
    """standard wcscmp on two python lists: the sign of the difference of the first pair of wide
    characters that differ, the terminator included; wchar_t is a signed 32-bit int here"""
    return wcs_cmp_info(a, b)[0]


def wcs_cmp_info(a, b):
    """(sign, does the exact difference of the deciding pair leave the range of int?)"""
    for x, y in zip(a + [0], b + [0]):
        if x != y:
            d = s32(x) - s32(y)
            return sgn(d), not (-(1 << 31) <= d < (1 << 31))
    return 0, False


def find_sub(hay, needle):
    for i in range(0, len(hay) - len(needle) + 1):
        if hay[i:i + len(needle)] == needle:
            return i
    return None


def reference(m):
    """(ret, out) expected on valid operands; None = the documentation does not fix it;
    out ('sign', k) = any int of that sign"""
    fn, d, dmax = m["fn"], m["dcells"], m["dmax"]
    k, off = m["dest"]
    ds = scan(d, dmax)
    if fn in CHAR:
        c = m["c"] & 0xFF
        hits = [i for i, ch in enumerate(ds) if ch == c]
        if not hits:
            return ESNOTFND, None
        i = hits[0] if fn == "strfirstchar_s" else hits[-1]
        return EOK, ptr(k, off + i)
    if fn in PAIR:
        ss = scan(m["scells"], dmax)
        n = min(len(ds), len(ss))
        want_same = fn.endswith("same_s")
        hits = [i for i in range(n) if (ds[i] == ss[i]) == want_same]
        if not hits:
            return (ESNOTFND if want_same else ESNODIFF), None
        return EOK, str(hits[0] if "first" in fn else hits[-1])
    if fn in PRED:
        if not ds:
            return None, None
        return int(all(CLASS[fn](ch) for ch in ds)), None
    if fn == PWD:
        if any(not (isalnum(ch) or ispunct(ch)) for ch in ds):
            return None, None
        ok = (PW_MIN <= len(ds) <= PW_MAX and sum(map(islower, ds)) >= PW_LOWER and sum(map(isupper, ds)) >= PW_UPPER
              and sum(map(isdigit, ds)) >= PW_NUM and sum(map(ispunct, ds)) >= PW_SPECIAL)
        return int(ok), None
    if fn == "wcsnlen_s":
        return len(ds), None
    if fn in WCMP:
        ss = scan(m["scells"], m["n2"])
        if fn == "wcsncmp_s":
            ds, ss = ds[:m["n3"]], ss[:m["n3"]]
        return EOK, ("sign",) + wcs_cmp_info(ds, ss)
    if fn == "wcsstr_s":
        needle = scan(m["scells"], m["n2"])
        if m["same"] or (m["scells"] and m["scells"][0] == 0):
            return EOK, ptr(k, off)
        i = find_sub(ds, needle)
        if i is None:
            return ESNOTFND, None
        return EOK, ptr(k, off + i)
    if fn == "wmemcmp_s":
        n = m["n2"]
        a, b = d[:n], m["scells"][:n]
        for x, y in zip(a, b):
            if x != y:
                return EOK, str(sgn(s32(x) - s32(y)))
        return EOK, "0"
    raise KeyError(fn)


def annotate(op):
    m = op.meta
    fn, w, dmax, bos = m["fn"], m["w"], m["dmax"], m["bos"]
    lim = limit(fn)
    errno_kind = fn in OUTPOS
    m.update(producing=False, clears=False, slackdoc=False, limit=lim, hkind="M" if fn == "wmemcmp_s" else "S",
             retkind="e" if errno_kind else ("n" if fn == "wcsnlen_s" else "t"), benign=(ESNOTFND, ESNODIFF))
    viol, opt, names = set(), set(), []
    if m["dest"] is None:
        if fn == "wcsnlen_s":
            # "If str is NULL, then wcsnlen_s returns 0" + "@pre str shall not be a null pointer" +
            # "the runtime-constraint handlers are called": the handler may, need not, be called
            opt.add(ESNULLP)
        else:
            viol.add(ESNULLP); names.append("dest-null")
    if fn in HAS_SRC and m["src"] is None:
        viol.add(ESNULLP); names.append("src-null")
    if dmax == 0:
        viol.add(ESZEROL); names.append("dmax-zero")
    if dmax > lim:
        viol.add(ESLEMAX); names.append("dmax-max")
    if fn == PWD and 0 < dmax < PW_MIN:
        viol.add(ESLEMIN); names.append("dmax-min")
    if bos is not None and dmax > bos:
        viol.add(EOVERFLOW); names.append("dmax-bos")
    n2, sbos = m["n2"], m["sbos"]
    if fn in WCMP + ["wmemcmp_s"] or (fn == "wcsstr_s" and m["src"] is not None and not m["same"] and m["scells"][0] != 0):
        if n2 == 0:
            viol.add(ESZEROL); names.append("slen-zero")
    if fn in WCMP + ["wcsstr_s", "wmemcmp_s"]:
        if n2 > lim:
            viol.add(ESLEMAX); names.append("slen-max")
        if sbos is not None and n2 > sbos:
            viol.add(EOVERFLOW); names.append("slen-bos")
            if fn == "wmemcmp_s":
                viol.add(ESLEMAX)       # tolerated, as tools/refs.py does for the other mem* functions
        if fn == "wmemcmp_s" and n2 > dmax:
            viol.add(ESNOSPC); names.append("slen-dlen")
            if n2 > lim:
                viol.add(ESLEMAX)
    pw_open = False
    if fn == PWD and not viol and m["dest"] is not None and m["truthful"] and 0 not in m["dcells"][:dmax]:
        if any(not (isalnum(ch) or ispunct(ch)) for ch in m["dcells"][:dmax]):
            # a character outside every documented class: "false" may be returned as soon as it is met
            opt.add(ESUNTERM); pw_open = True
        elif len(m["dcells"]) > dmax and m["dcells"][dmax] == 0:
            # "dmax: maximum length of password string": a string of exactly dmax characters whose
            # terminator is the cell behind them is terminated under that reading, unterminated if dmax
            # is the size of the object (the reading CHK_DEST_OVR takes).  Left open.
            opt.add(ESUNTERM); pw_open = True
        else:
            viol.add(ESUNTERM); names.append("unterminated")
    if fn == "wcsnlen_s" and m["dest"] is None:
        opt |= viol                     # the NULL answer (0, handler optional) comes first
        viol, names = set(), []
    m["violname"] = "+".join(names)
    if errno_kind:
        m.update(viol=viol, viol_opt=opt)          # read by the generic o_C05
    else:
        m.update(pviol=viol, pviol_opt=opt)        # bool / size_t return: judged by o_C05 below
    m["anyviol"] = bool(viol)
    m["exp"] = None
    if not viol and not pw_open and m["dest"] is not None and m["truthful"]:
        m["exp"] = reference(m)


# ------------------------------------------------------------------ oracles
def o_C05(op, ob, before):
    """the functions that do not return an errno_t (bool predicates, wcsnlen_s): a violated constraint
    = exactly one handler call with a documented code and the failure value (false / 0) returned;
    no violation = no handler call.  Plus, for every function: an argument that is rejected must be
    rejected before the operands are touched."""
    m = op.meta
    out = []
    if m.get("early") and ob.fault:
        out.append(Fail("C05", "%s:touched-before-rejecting" % op.fn, ob.fault))
    if ob.fault or "pviol" not in m:
        return out
    kind = m["hkind"]
    viol, opt = m["pviol"], m["pviol_opt"]
    name = m["violname"]
    if viol:
        if len(ob.ev) == 0:
            out.append(Fail("C05", "%s:violation-not-reported:%s" % (op.fn, name), "ret=%s ev=%s" % (ob.ret, ob.ev)))
        elif len(ob.ev) != 1:
            out.append(Fail("C05", "%s:handler-count=%d:%s" % (op.fn, len(ob.ev), name), "ev=%s" % ob.ev))
        elif ob.ev[0][0] != kind or ob.ev[0][1] not in viol:
            out.append(Fail("C05", "%s:wrong-code:%s:got=%s" % (op.fn, name, ob.ev[0][1]), "want=%s" % sorted(viol)))
        if ob.ret != "0":
            out.append(Fail("C05", "%s:success-value-on-violation:%s" % (op.fn, name), "ret=%s" % ob.ret))
    else:
        if ob.ev and not (len(ob.ev) == 1 and ob.ev[0][0] == kind and ob.ev[0][1] in opt):
            out.append(Fail("C05", "%s:spurious-handler" % op.fn, "ev=%s ret=%s" % (ob.ev, ob.ret)))
    return out


def o_C10(op, ob, before):
    """on valid operands: the documented / standard answer, and the operands are never modified"""
    m = op.meta
    out = []
    if ob.fault:
        return out                      # C02's business
    for k, cells in ob.img.items():
        if cells != before[k]:
            i = next(i for i, (a, b) in enumerate(zip(cells, before[k])) if a != b)
            out.append(Fail("C10", "%s:operand-modified" % op.fn, "R%d+%d %x->%x" % (k, i, before[k][i], cells[i])))
            break
    if ob.can != "ok":
        out.append(Fail("C10", "%s:wrote-outside" % op.fn, ob.can))
    exp = m.get("exp")
    if exp is None or ob.ev:
        return out                      # invalid operands, or a (mis)reported violation: C05's business
    ret, o = exp
    if ret is None:
        return out
    if ob.reti() != ret:
        kindname = {ESNOTFND: "notfound", ESNODIFF: "nodiff", EOK: "found"}.get(ret, str(ret)) if m["retkind"] == "e" else "value"
        out.append(Fail("C10", "%s:wrong-return:want-%s" % (op.fn, kindname), "got %s want %s" % (ob.ret, ret)))
        return out
    if o is None:
        return out
    got = ob.outs[OUTPOS[op.fn]] if ob.outs else "_"
    if isinstance(o, tuple):
        try:
            g = sgn(int(got))
        except ValueError:
            g = None
        if g != o[1]:
            # the deciding pair lies inside the bounds and its difference overflows int, or the
            # answer was computed from cells behind dmax / smax / count
            why = "int-overflow" if o[2] else "bound-ignored"
            out.append(Fail("C10", "%s:wrong-sign:%s" % (op.fn, why), "got %s want sign %d" % (got, o[1])))
    elif got != o:
        out.append(Fail("C10", "%s:wrong-result" % op.fn, "got %s want %s" % (got, o)))
    return out


# ------------------------------------------------------------------ generators
def strs(alpha, lo, hi):
    for n in range(lo, hi + 1):
        for t in itertools.product(alpha, repeat=n):
            yield list(t)


def dest_objs(fn, s, dmax):
    """truthful objects holding string s for a caller that declares dmax cells"""
    f = filler(fn)
    if len(s) < dmax:
        return [s + [0] + [f] * (dmax - len(s) - 1)]        # terminated inside dmax; object = dmax cells
    return [s[:dmax],                                        # exact fit, no NUL within dmax
            s + [0]]                                         # larger object: the string goes on behind dmax


def src_objs(s, n):
    """objects for a source of which at most n cells may be looked at"""
    out = [s + [0]]
    if len(s) >= n > 0:
        out.append(s[:max(n, 1)])                            # exact fit, unterminated
    return out


def flushes(fn):
    return ("r", "l") if fn in BACKWARD else ("r",)


def gen_char(rng, tier):
    ops = []
    hi = 3 if tier == "quick" else 4
    for fn in CHAR:
        for s in strs([0x61, 0x62, 0xE9], 0, hi):
            for dmax in range(1, len(s) + 3):
                for obj in dest_objs(fn, s, dmax):
                    for c in (0x61, 0x62, 0xE9, 0, 0x7A):
                        for fl in flushes(fn):
                            ops.append(mk(fn, obj, dmax, c=c, flush=fl))
        # the character argument is a char: only its low byte counts; high-bit bytes
        for c in (0x161, 0xFF, 0x80, 0x7F, 1):
            for s in ([0x61, 0xFF, 0x80], [0x7F, 1, 0x61], [c & 0xFF], [0x62, c & 0xFF, 0x62, c & 0xFF]):
                for dmax in (len(s), len(s) + 1):
                    for obj in dest_objs(fn, s, dmax):
                        ops.append(mk(fn, obj, dmax, c=c))
        # boundary sweep: the hit at the first / last / one-past-last declared cell, long objects
        for dmax in (31, 32, 33, 255, 256, LIM[1] - 1, LIM[1]):
            for pos in (0, dmax - 2, dmax - 1, dmax):
                for n in (dmax - 1, dmax, dmax + 1):
                    s = [0x61 + (i % 7) for i in range(n)]
                    if pos < n:
                        s[pos] = 0x7A
                    for obj in dest_objs(fn, s, dmax):
                        ops.append(mk(fn, obj, dmax, c=0x7A))
        ops += edge_ops(fn)
    for _ in range(300 if tier == "quick" else 6000):
        fn = rng.choice(CHAR)
        n = rng.choice([rng.randint(0, 8), rng.randint(0, 70)])
        alpha = rng.choice([[0x61, 0x62, 0x63], [0x61, 0xE9, 0xFF, 0x80, 1]])
        s = [rng.choice(alpha) for _ in range(n)]
        dmax = max(1, rng.choice([n, n + 1, n - 1, rng.randint(1, n + 3)]))
        obj = rng.choice(dest_objs(fn, s, dmax))
        ops.append(mk(fn, obj, dmax, c=rng.choice(alpha + [0, 0x100 + alpha[0]]), flush=rng.choice(flushes(fn))))
    return ops


def gen_pair(rng, tier):
    ops = []
    hi = 3 if tier == "quick" else 4
    for fn in PAIR:
        for s in strs([0x61, 0x62], 0, hi):
            for t in strs([0x61, 0x62], 0, hi):
                for dmax in range(1, hi + 2):
                    if dmax > max(len(s), len(t)) + 1 and dmax > 2:
                        continue
                    for obj in dest_objs(fn, s, dmax):
                        for sobj in src_objs(t, dmax):
                            ops.append(mk(fn, obj, dmax, sobj))
        # flush-left placements for the "last" queries, high-bit bytes
        for s, t in (([0xE9, 0x80, 0x61], [0xE9, 0xFF, 0x61]), ([0xFF, 0xFF], [0x7F, 0xFF]), ([1, 2, 3], [3, 2, 1]),
                     ([0x61, 0x62, 0x63, 0x64], [0x61, 0x62, 0x63, 0x64]), ([0x61, 0x62, 0x63, 0x64], [0x7A, 0x62, 0x7A, 0x64])):
            for dmax in range(1, len(s) + 2):
                for obj in dest_objs(fn, s, dmax):
                    for sobj in src_objs(t, dmax):
                        for fl in flushes(fn):
                            ops.append(mk(fn, obj, dmax, sobj, flush=fl, sflush=fl))
        # boundary sweep
        for dmax in (31, 32, 33, 256, LIM[1] - 1, LIM[1]):
            for pos in (None, 0, dmax - 2, dmax - 1, dmax):
                for n in (dmax - 1, dmax, dmax + 1):
                    s = [0x61 + (i % 7) for i in range(n)]
                    if fn.endswith("same_s"):
                        t = [0x41 + (i % 5) for i in range(n)]
                        if pos is not None and pos < n:
                            t[pos] = s[pos]
                    else:
                        t = list(s)
                        if pos is not None and pos < n:
                            t[pos] = 0x7A
                    for obj in dest_objs(fn, s, dmax):
                        for sobj in src_objs(t, dmax):
                            ops.append(mk(fn, obj, dmax, sobj))
        ops += edge_ops(fn)
    for _ in range(400 if tier == "quick" else 8000):
        fn = rng.choice(PAIR)
        n = rng.choice([rng.randint(0, 8), rng.randint(0, 70)])
        alpha = rng.choice([[0x61, 0x62], [0x61, 0xE9, 0xFF, 0x80, 1]])
        s = [rng.choice(alpha) for _ in range(n)]
        t = [ch if rng.random() < 0.7 else rng.choice(alpha) for ch in s]
        t = t[:rng.randint(0, len(t))] if rng.random() < 0.3 else t + [rng.choice(alpha) for _ in range(rng.randint(0, 3))]
        dmax = max(1, rng.choice([n, n + 1, n - 1, rng.randint(1, n + 3)]))
        obj = rng.choice(dest_objs(fn, s, dmax))
        sobj = rng.choice(src_objs(t, dmax))
        fl = rng.choice(flushes(fn))
        ops.append(mk(fn, obj, dmax, sobj, flush=fl, sflush=fl))
    return ops


PRED_ALPHA = [0x2F, 0x30, 0x39, 0x3A, 0x41, 0x46, 0x47, 0x5A, 0x61, 0x66, 0x67, 0x7A, 0x80]
GOOD = {"strisalphanumeric_s": 0x4D, "strisascii_s": 0x20, "strisdigit_s": 0x35, "strishex_s": 0x63,
        "strislowercase_s": 0x6D, "strismixedcase_s": 0x51, "strisuppercase_s": 0x51}
BAD = {"strisalphanumeric_s": 0x2D, "strisascii_s": 0xC3, "strisdigit_s": 0x61, "strishex_s": 0x67,
       "strislowercase_s": 0x4D, "strismixedcase_s": 0x31, "strisuppercase_s": 0x6D}


def gen_pred(rng, tier):
    ops = []
    for fn in PRED:
        # every byte value alone and behind a member of the class
        for ch in range(1, 256):
            ops.append(mk(fn, [ch, 0], 2))
            ops.append(mk(fn, [GOOD[fn], ch, 0], 3))
        ops.append(mk(fn, [0], 1))
        ops.append(mk(fn, [0, GOOD[fn]], 2))
        # exhaustive pairs / triples over the class boundaries
        for s in strs(PRED_ALPHA, 1, 2 if tier == "quick" else 3):
            for dmax in range(1, len(s) + 2):
                for obj in dest_objs(fn, s, dmax):
                    ops.append(mk(fn, obj, dmax))
        # one non-member at every position of an otherwise conforming string, every dmax
        g, b = GOOD[fn], BAD[fn]
        for n in range(1, 7):
            for pos in list(range(n)) + [None]:
                s = [g] * n
                if pos is not None:
                    s[pos] = b
                for dmax in range(1, n + 2):
                    for obj in dest_objs(fn, s, dmax):
                        ops.append(mk(fn, obj, dmax))
        for dmax in (31, 32, 33, 256, LIM[1] - 1, LIM[1]):
            for pos in (None, 0, dmax - 1, dmax):
                for n in (dmax - 1, dmax, dmax + 1):
                    s = [g] * n
                    if pos is not None and pos < n:
                        s[pos] = b
                    for obj in dest_objs(fn, s, dmax):
                        ops.append(mk(fn, obj, dmax))
        ops += edge_ops(fn)
    for _ in range(400 if tier == "quick" else 8000):
        fn = rng.choice(PRED)
        n = rng.choice([rng.randint(1, 8), rng.randint(1, 70)])
        s = [rng.choice([GOOD[fn], GOOD[fn], GOOD[fn], 0x30, 0x61, 0x41, 0x66]) for _ in range(n)]
        if rng.random() < 0.5:
            s[rng.randrange(n)] = rng.choice([BAD[fn], 0x80, 0xFF, 0x20, 0x7F])
        dmax = max(1, rng.choice([n, n + 1, n - 1, rng.randint(1, n + 3)]))
        ops.append(mk(fn, rng.choice(dest_objs(fn, s, dmax)), dmax))
    return ops


def pw_obj(s, dmax):
    if len(s) < dmax:
        return s + [0] + [X] * (dmax - len(s) - 1)
    return s[:dmax]


def gen_pwd(rng, tier):
    fn = PWD
    ops = []
    # counts of each class around the documented minima
    for l, u, d, p in itertools.product(range(0, 4), repeat=4):
        s = [0x61 + i for i in range(l)] + [0x41 + i for i in range(u)] + [0x30 + i for i in range(d)] + [0x21 + i for i in range(p)]
        for dmax in sorted({max(PW_MIN, len(s) + 1), len(s) + 2, PW_MAX}):
            if dmax < PW_MIN or dmax > PW_MAX:
                continue
            ops.append(mk(fn, pw_obj(s, dmax), dmax))
    base = [0x61, 0x62, 0x41, 0x42, 0x31]
    # every byte value as the sixth character: which ones count as 'special'
    for ch in range(1, 256):
        ops.append(mk(fn, base + [ch, 0], 7))
    # lengths around the documented minimum and maximum, dmax around the limits
    good = [0x61, 0x62, 0x41, 0x42, 0x31, 0x21]
    for n in list(range(0, 9)) + [30, 31, 32, 33, 34]:
        s = (good + [0x71] * 40)[:n]
        for dmax in (1, 5, 6, 7, n, n + 1, 31, 32, 33):
            if dmax < 1:
                continue
            if len(s) < dmax:
                ops.append(mk(fn, pw_obj(s, dmax), dmax))
            else:
                ops.append(mk(fn, s[:dmax], dmax))                     # no NUL within dmax
                ops.append(mk(fn, s + [0], dmax))                      # the terminator lies behind dmax
    # the defining character of a class moved to each position
    for pos in range(0, 8):
        for ch in (0x31, 0x21, 0x20, 0x80):
            s = [0x61, 0x62, 0x41, 0x42, 0x63, 0x43, 0x64]
            s.insert(pos, ch)
            ops.append(mk(fn, s + [0], 9))
    ops += edge_ops(fn)
    for _ in range(300 if tier == "quick" else 5000):
        n = rng.randint(0, 34)
        s = [rng.choice([0x61, 0x7A, 0x41, 0x5A, 0x30, 0x39, 0x21, 0x2F, 0x3A, 0x40, 0x5B, 0x5E, 0x5F, 0x60, 0x7B, 0x7E] +
                        ([0x20, 0x7F, 0x80] if rng.random() < 0.1 else [])) for _ in range(n)]
        dmax = rng.choice([n + 1, n, max(PW_MIN, n + 1), PW_MAX, rng.randint(1, 34)])
        dmax = max(1, dmax)
        if len(s) < dmax:
            ops.append(mk(fn, pw_obj(s, dmax), dmax))
        else:
            ops.append(mk(fn, rng.choice([s[:dmax], s + [0]]), dmax))
    return ops


WA = [0x61, 0x62]


def gen_wide(rng, tier):
    ops = []
    q = tier == "quick"
    # ---- wcsnlen_s
    fn = "wcsnlen_s"
    for n in range(0, 6):
        s = [0x100 + i for i in range(n)]
        for smax in range(1, n + 3):
            for obj in dest_objs(fn, s, smax):
                for bos in (None, len(obj), smax):
                    if bos is not None and bos > len(obj):
                        continue
                    ops.append(mk(fn, obj, smax, bos=bos))
    for smax in (31, 32, 33, LIM[4] - 1, LIM[4]):
        for n in (0, smax - 1, smax, smax + 1):
            s = [0x3B1 + (i % 9) for i in range(n)]
            for obj in dest_objs(fn, s, smax):
                for bos in (None, len(obj)):
                    ops.append(mk(fn, obj, smax, bos=bos))
    ops.append(mk(fn, [0xFFFFFFFF, 0x80000000, 0], 3))
    ops += edge_ops(fn)
    # ---- wcscmp_s / wcsncmp_s
    for fn in WCMP:
        hi = 2 if q else 3
        counts = [None] if fn == "wcscmp_s" else list(range(0, hi + 2))
        for s in strs(WA, 0, hi):
            for t in strs(WA, 0, hi):
                for dmax in range(1, hi + 2):
                    for smax in range(1, hi + 2):
                        for obj in dest_objs(fn, s, dmax):
                            for sobj in dest_objs(fn, t, smax):
                                for cnt in counts:
                                    ops.append(mk(fn, obj, dmax, sobj, n2=smax, n3=cnt))
        # signedness and int overflow of the difference
        for a, b in ((0xFFFFFFFF, 1), (1, 0xFFFFFFFF), (0x7FFFFFFF, 0xFFFFFFFF), (0x80000000, 1), (0x80000000, 0x7FFFFFFF),
                     (0x10FFFF, 0xE9), (0xE9, 0x10FFFF), (0x80000001, 0x80000002)):
            for pre in ([], [0x61]):
                ops.append(mk(fn, pre + [a, 0], len(pre) + 2, pre + [b, 0], n2=len(pre) + 2, n3=5))
        # a longer common prefix; the difference at / behind the declared bounds
        for dmax in (31, 32, 33, LIM[4] - 1, LIM[4]):
            for pos in (None, 0, dmax - 1, dmax):
                for n in (dmax - 1, dmax, dmax + 1):
                    s = [0x3B1 + (i % 9) for i in range(n)]
                    t = list(s)
                    if pos is not None and pos < n:
                        t[pos] = 0x3A9
                    for obj in dest_objs(fn, s, dmax):
                        for sobj in dest_objs(fn, t, dmax):
                            for cnt in ([None] if fn == "wcscmp_s" else [dmax - 1, dmax, dmax + 1]):
                                ops.append(mk(fn, obj, dmax, sobj, n2=dmax, n3=cnt))
        ops += edge_ops(fn)
    # ---- wcsstr_s
    fn = "wcsstr_s"
    for hay in strs(WA, 0, 3 if q else 4):
        for needle in strs(WA, 0, 2):
            for dmax in range(1, len(hay) + 2):
                for slen in range(0, len(needle) + 2):
                    for obj in dest_objs(fn, hay, dmax):
                        for sobj in src_objs(needle, slen):
                            ops.append(mk(fn, obj, dmax, sobj, n2=slen))
    for hay, needle in (([0x61, 0x61, 0x62, 0x61, 0x61, 0x61, 0x62], [0x61, 0x61, 0x61, 0x62]), ([0x61] * 6, [0x61, 0x61, 0x62]),
                        ([0xFFFFFFFF, 0x80000000, 5], [0x80000000, 5]), ([1, 2, 3, 4, 5], [4, 5, 6])):
        for dmax in range(1, len(hay) + 2):
            for slen in range(1, len(needle) + 2):
                for obj in dest_objs(fn, hay, dmax):
                    for sobj in src_objs(needle, slen):
                        ops.append(mk(fn, obj, dmax, sobj, n2=slen))
    for dmax in (LIM[4] - 1, LIM[4]):
        for n in (dmax - 1, dmax, dmax + 1):
            hay = [0x61] * n
            for needle in ([0x61, 0x62], [0x62], [0x61] * 3):
                hay2 = list(hay)
                if n >= 2:
                    hay2[n - 1] = 0x62
                for h in (hay, hay2):
                    for obj in dest_objs(fn, h, dmax):
                        for sobj in src_objs(needle, len(needle)):
                            ops.append(mk(fn, obj, dmax, sobj, n2=len(needle)))
    # dest == src
    for s in ([0x61, 0x62, 0], [0x61, 0x62], [0]):
        for slen in (0, 1, 2, 3):
            if slen <= len(s):
                ops.append(mk(fn, s, len(s), n2=slen, same=True))
    ops += edge_ops(fn)
    # ---- wmemcmp_s
    fn = "wmemcmp_s"
    A3 = [1, 2, 0xFFFFFFFF]
    for d in strs(A3, 1, 3):
        for pos in list(range(len(d))) + [None]:
            for v in A3 + [0, 0x80000000]:
                s = list(d)
                if pos is not None:
                    if s[pos] == v:
                        continue
                    s[pos] = v
                elif v != 1:
                    continue
                for slen in range(1, len(d) + 1):
                    ops.append(mk(fn, d, len(d), s[:slen], n2=slen))
                    ops.append(mk(fn, d, len(d), s, n2=slen))
    for n in (31, 32, 33, 1024, 1025, 4000):
        d = [(i * 7 + 1) & 0xFFFFFFFF for i in range(n)]
        for pos in (None, 0, n - 2, n - 1):
            s = list(d)
            if pos is not None:
                s[pos] ^= 0x80000000
            for slen in (n, n - 1):
                ops.append(mk(fn, d, n, s[:slen], n2=slen))
    ops.append(mk(fn, [1, 2, 3], 3, n2=3, same=True))
    ops.append(mk(fn, [1, 2, 3], 3, n2=2, same=True))
    ops += edge_ops(fn)
    # ---- random
    for _ in range(500 if q else 10000):
        fn = rng.choice(WIDE)
        alpha = rng.choice([[0x61, 0x62], [0x3B1, 0x10FFFF, 0xFFFFFFFF, 0x80000000, 1]])
        n = rng.choice([rng.randint(0, 6), rng.randint(0, 60)])
        s = [rng.choice(alpha) for _ in range(n)]
        dmax = max(1, rng.choice([n, n + 1, n - 1, rng.randint(1, n + 3)]))
        if fn == "wcsnlen_s":
            obj = rng.choice(dest_objs(fn, s, dmax))
            ops.append(mk(fn, obj, dmax, bos=rng.choice([None, None, len(obj)])))
        elif fn in WCMP:
            t = [ch if rng.random() < 0.85 else rng.choice(alpha) for ch in s]
            t = t[:rng.randint(0, len(t))] if rng.random() < 0.3 else t + [rng.choice(alpha) for _ in range(rng.randint(0, 2))]
            smax = max(1, rng.choice([len(t), len(t) + 1, len(t) - 1, dmax]))
            ops.append(mk(fn, rng.choice(dest_objs(fn, s, dmax)), dmax, rng.choice(dest_objs(fn, t, smax)), n2=smax,
                          n3=rng.choice([0, 1, n, n + 1, rng.randint(0, n + 2)])))
        elif fn == "wcsstr_s":
            if n and rng.random() < 0.7:
                i = rng.randrange(n)
                needle = s[i:i + rng.randint(1, 4)]
            else:
                needle = [rng.choice(alpha) for _ in range(rng.randint(0, 3))]
            slen = rng.choice([len(needle), len(needle) + 1, max(0, len(needle) - 1)])
            ops.append(mk(fn, rng.choice(dest_objs(fn, s, dmax)), dmax, rng.choice(src_objs(needle, slen)), n2=slen))
        else:
            d = [rng.choice(alpha) for _ in range(max(1, n))]
            t = list(d)
            if rng.random() < 0.6:
                t[rng.randrange(len(t))] = rng.choice(alpha)
            slen = rng.randint(1, len(d))
            ops.append(mk(fn, d, len(d), t[:slen], n2=slen))
    return ops


def edge_ops(fn):
    """NULL / zero / over-limit arguments, object size unknown / exact / larger / smaller"""
    w = width(fn)
    L = limit(fn)
    f = filler(fn)
    ops = []
    if fn == PWD:
        base = [0x61, 0x62, 0x41, 0x42, 0x31, 0x21, 0]
    elif fn in PRED:
        base = [GOOD[fn], GOOD[fn], 0]
    elif fn == "wmemcmp_s":
        base = [1, 2, 3]
    else:
        base = [0x61, 0x62, 0]
    obj8 = (base + [f] * 8)[:8]
    sb = list(base)
    kw = {}
    if fn in CHAR:
        kw["c"] = 0x62
    if fn in HAS_SRC:
        kw["scells"] = sb
    if fn in WCMP + ["wcsstr_s", "wmemcmp_s"]:
        kw["n2"] = 3 if fn != "wcsstr_s" else 2
    if fn == "wcsncmp_s":
        kw["n3"] = 3
    dm = 8 if fn != "wmemcmp_s" else 3

    def op(dcells=obj8, dmax=dm, **over):
        k = dict(kw)
        k.update(over)
        return mk(fn, dcells, dmax, **k)

    ops.append(op(dnull=True))
    ops.append(op(dnull=True, dmax=0))
    ops.append(op(dmax=0))
    if fn in HAS_SRC:
        ops.append(op(snull=True))
        ops.append(op(dnull=True, snull=True))
        ops.append(op(snull=True, dmax=0))
    # object size known: exact, larger than dmax, smaller than dmax
    ops.append(op(bos=8, dmax=8 if fn != "wmemcmp_s" else 8))
    ops.append(op(bos=8, dmax=dm if dm < 8 else 7))
    ops.append(op(bos=8, dmax=9))
    ops.append(op(bos=4, dmax=8))
    ops.append(op(bos=8, dmax=L + 1))
    # the limit itself, and one more: object really that large, size unknown / known
    if fn == PWD:
        good = [0x61, 0x62, 0x41, 0x42, 0x31, 0x21]
        big = (good + [0x71] * 40)
        ops.append(mk(fn, big[:L - 1] + [0], L))
        ops.append(mk(fn, big[:L] + [0], L + 1))
        ops.append(mk(fn, big[:L] + [0], L + 1, bos=L + 1))
        ops.append(mk(fn, big[:12] + [0] + [X] * 27, 40, bos=40))
        ops.append(mk(fn, good + [0], 5))
        ops.append(mk(fn, good + [0], 5, bos=7))
        ops.append(mk(fn, good + [0], 7, bos=7))
    elif fn != "wmemcmp_s":
        body = [base[0]] * (L - 1) + [0]
        ops.append(op(dcells=body, dmax=L))
        ops.append(op(dcells=body, dmax=L, bos=L))
        body1 = [base[0]] * L + [0]
        ops.append(op(dcells=body1, dmax=L + 1))
        ops.append(op(dcells=body1, dmax=L + 1, bos=L + 1))
    # over the limit, object size unknown: dest sits on the guard page, any touch faults
    o = op(dcells=[f], dmax=L + 1, doff=1, early=True)
    o.Rd = [e for e in o.Rd if e[0] != 0]
    ops.append(o)
    if fn == "wcscmp_s" or fn == "wcsncmp_s":
        # between RSIZE_MAX_WSTR and RSIZE_MAX_STR
        o = op(dcells=[f], dmax=LIM[1], doff=1, early=True)
        o.Rd = [e for e in o.Rd if e[0] != 0]
        ops.append(o)
        o = op(dcells=[f], dmax=LIM[1] + 1, doff=1, early=True)
        o.Rd = [e for e in o.Rd if e[0] != 0]
        ops.append(o)
    # source-side size arguments
    if fn in WCMP + ["wcsstr_s", "wmemcmp_s"]:
        n = kw["n2"]
        ops.append(op(n2=0))
        ops.append(op(n2=0, dmax=0))
        ops.append(op(sbos=3))
        ops.append(op(sbos=n))
        ops.append(op(sbos=n - 1))
        ops.append(op(sbos=n - 1, bos=4, dmax=8))
        if fn == "wcsstr_s":
            ops.append(op(scells=[0x61], n2=L + 1))  # *src is documented to be looked at: keep it readable
        else:
            o = op(scells=[f], n2=L + 1, early=True)
            o.args[2] = ptr(1, 1)                    # src on the guard page
            o.Rd = [e for e in o.Rd if e[0] != 1]
            o.meta["src"] = (1, 1)
            o.meta["scells"] = [1]                   # (unknown to the reference: not NUL)
            ops.append(o)
        if fn == "wcsstr_s":
            ops.append(op(scells=[0], n2=0))                                  # empty needle, slen 0: documented EOK
            ops.append(op(scells=[0], n2=LIM[4] + 1))                         # empty needle, slen over the limit
            ops.append(op(scells=[0x61, 0x62], n2=2, sbos=2))
        if fn == "wmemcmp_s":
            ops.append(op(n2=4))                                              # slen > dlen
            ops.append(op(dcells=[1, 2, 3, 4], dmax=4, scells=[1, 2, 3, 4], n2=4, sbos=3))
            ops.append(op(n2=4, sbos=4, scells=[1, 2, 3, 4]))
    if fn in WIDE:
        # object sizes that are not a multiple of sizeof(wchar_t), or 0: BOS arrives in bytes
        bp = BOSPOS.get(fn, (2, None))[0]
        for raw in (0, 2, 6, 7, 9, 13):
            o = op(dmax=2 if fn != "wcsnlen_s" else 3)
            o.args[bp] = str(raw)
            o.meta["bos"] = raw // 4
            o.meta["truthful"] = False
            ops.append(o)
        # size_t products that wrap: dmax * sizeof(wchar_t) == 4 (mod 2^64)
        if fn != "wcsnlen_s":
            for bos in (None, 8):
                o = op(dmax=(1 << 62) + 1, bos=bos)
                o.meta["truthful"] = False
                ops.append(o)
            o = op(dmax=(1 << 62))
            o.meta["truthful"] = False
            ops.append(o)
            o = op(n2=(1 << 62) + 1, sbos=3)
            o.meta["truthful"] = False
            ops.append(o)
    if fn == PWD:
        ops.append(mk(fn, ([0x61, 0x62, 0x41, 0x42, 0x31, 0x21] + [0x71] * 40)[:34] + [0], 33, bos=35))
    if fn == "wcsnlen_s":
        ops.append(mk(fn, [0x61, 0x62], 2, bos=2))            # unterminated, fills the known object exactly
        ops.append(mk(fn, [0x61, 0x62, 0x63], 3, bos=3))
        ops.append(mk(fn, [0x61, 0x62, 0], 3, bos=3))
        ops.append(mk(fn, [0x61, 0x62, 0, WX], 4, bos=4))
        ops.append(mk(fn, [0x61, 0x62, 0x63, 0x64], 2, bos=4))
        ops.append(mk(fn, [0x61, 0x62, 0x63, 0x64], 3, bos=4))
    return ops


BOSPOS = {"wcsncmp_s": (6, 7), "wcscmp_s": (5, 6), "wcsstr_s": (5, 6), "wmemcmp_s": (5, 6)}


def with_bos(op):
    """the same call from a caller whose compiler knows both object sizes exactly"""
    m = op.meta
    if m["bos"] is not None or m["sbos"] is not None or m["dest"] is None or m["early"] or m["same"]:
        return None
    w = m["w"]
    o = Op(op.fn, [Region(r.w, r.cells, r.flush) for r in op.regions], list(op.args), [], list(op.Rd), dict(m))
    if op.fn in BOSPOS:
        if m["src"] is None:
            return None
        bp, sp = BOSPOS[op.fn]
        o.args[sp] = bosarg(len(m["scells"]), w)
        o.meta["sbos"] = len(m["scells"])
    else:
        bp = 4 if (op.fn in CHAR or op.fn in PAIR) else 2
    o.args[bp] = bosarg(m["objsize"], w)
    o.meta["bos"] = m["objsize"]
    return o


def gen(rng, tier):
    ops = gen_char(rng, tier) + gen_pair(rng, tier) + gen_pred(rng, tier) + gen_pwd(rng, tier) + gen_wide(rng, tier)
    step = 8 if tier == "quick" else 3
    extra = []
    for i, o in enumerate(ops):
        if i % step == 0 and o.meta["objsize"] <= 40:
            b = with_bos(o)
            if b is not None:
                extra.append(b)
    ops += extra
    seen, out = set(), []
    for o in ops:
        o.id = 0
        key = o.line()
        if key not in seen:
            seen.add(key)
            out.append(o)
    return out


FAMILIES = {"query2": dict(gen=gen, annotate=annotate, props=["C02", "C05", "C10"],
                           oracles={"C05": o_C05, "C10": o_C10})}

"""F4: the functions that transform dest in place.

  strset_s strnset_s strzero_s strtolowercase_s strtouppercase_s strljustify_s strremovews_s
  strnterminate_s (src/extstr)        wcsset_s wcsnset_s (src/extwchar, cells are wchar_t, BOS in bytes)

Reference semantics = the doc comment of each function + the C function it stands for:

  strset_s(d,dmax,v)      "Sets maximal dmax characters of dest to a character value, but not the final NULL":
                          every character up to the terminator (or dmax of them) becomes v; the terminator stays.
  strnset_s(d,dmax,v,n)   the same for "maximal n characters"; ESNOSPC when n > dmax.
  strzero_s(d,dmax)       "Nulls maximal dmax characters of dest ... until the terminating NULL".
  wcsset_s / wcsnset_s    wide twins; value <= _UNICODE_MAX.
      all five: "With SAFECLIB_STR_NULL_SLACK defined all elements following the terminating NUL character
      (if any) ... in the array of dmax characters pointed to by dest are nulled"   -> C08 (slackdoc)
  strtolowercase_s / strtouppercase_s   C tolower / toupper ("C" locale) on every character; "The conversion
                          stops at the first null or after dmax characters".  Nothing else changes.
  strljustify_s           "Removes beginning whitespace ... shifting the text left"; "The left justified text is
                          zero terminated"; ESUNTERM "when dest was not zero terminated".
  strremovews_s           "Removes beginning and trailing whitespace ... (space or tab)"; "The shifted-trimmed text
                          is zero terminated"; ESUNTERM as above.  (whitespace = space or tab for both: the one
                          explicit definition the two sibling doc comments give.)
  strnterminate_s         "will terminate the string if a null is not encountered before dmax characters ...
                          the dmax character is set to zero ... The string length is also returned"; size_t
                          return, violations (the @pre list) go to the handler only.
  wcslwr_s(src,slen)      "Scans the string converting uppercase characters to simple lowercase, leaving all other
                          characters unchanged.  The scanning stops at the first null or after slen characters.  The
                          conversion is determined by the LC_CTYPE category setting of the locale ... via towlower()".
                          The harness runs in the "C" locale: the 26 ASCII capitals, nothing else (reference = the
                          C standard's "C" locale, not the libc under test).
  wcsupr_s(src,slen)      the same towards uppercase, "It converts only single chars via towupper()", also "determined
                          by the LC_CTYPE category setting of the locale".  Two readings are kept apart (o_C06 below):
                          the "C" locale result (ASCII only) and the result of towupper() in a UTF-8 locale (taken
                          from the running libc, independent of the library); a cell that is neither is `wrong-result`,
                          one that is the UTF-8 result in the "C" locale is `locale-ignored`.
      both: "@retval EOK on successful operation or slen = 0", ESNULLP "when src is NULL pointer", ESLEMAX "when
      slen > RSIZE_MAX_WSTR", EOVERFLOW "when slen > size of src" (object size known; in bytes).  No ESZEROL, nothing
      is promised about termination or about cells behind the string (not PRODUCING, no slack clause).
  common runtime-constraints: dest != NULL (ESNULLP), dmax != 0 (ESZEROL), dmax <= RSIZE_MAX_(W)STR (ESLEMAX),
  dmax <= object size when known (EOVERFLOW), value <= 255 / _UNICODE_MAX (ESLEMAX).
"""
import itertools, os, subprocess, tempfile, shutil, unicodedata
from proto import Op, Region, ptr
from gens import (X, LIM, cstr, bosarg, EOK, ESNULLP, ESZEROL, ESLEMAX, ESNOSPC, ESUNTERM, EOVERFLOW)
from oracles import Fail, usable_dest, dest_cells

NARROW = ["strset_s", "strnset_s", "strzero_s", "strtolowercase_s", "strtouppercase_s", "strljustify_s",
          "strremovews_s", "strnterminate_s"]
WIDE = ["wcsset_s", "wcsnset_s", "wcslwr_s", "wcsupr_s"]
WIDTH = dict([(f, 1) for f in NARROW] + [(f, 4) for f in WIDE])
HAS_VALUE = {"strset_s", "strnset_s", "wcsset_s", "wcsnset_s"}
HAS_N = {"strnset_s", "wcsnset_s"}
SETS = HAS_VALUE | {"strzero_s"}
CASE = {"strtolowercase_s", "strtouppercase_s"}
WCASE = {"wcslwr_s", "wcsupr_s"}                       # (src, slen): slen == 0 is EOK, not a violation
WS = {"strljustify_s", "strremovews_s"}
PRODUCING = WS | {"strnterminate_s", "strzero_s"}   # documented to leave a (terminated / nulled) string
SLACKDOC = SETS                                        # "... all elements following the terminating NUL are nulled"
UNICODE_MAX = 0x10FFFF
SP, TAB, NL = 0x20, 0x09, 0x0A


# ------------------------------------------------------------------ op construction
def mk(fn, cells, dmax, doff=0, flush="r", bos=None, value=0x41, n=None, dnull=False, bosbytes=None, **extra):
    """dest = cell `doff` of one region; the object is everything from there to the region's end.
    bosbytes: the object size handed over in BYTES (wide functions: sizes that are no multiple of the cell)"""
    w = WIDTH[fn]
    if bosbytes is not None:
        bos = bosbytes // w if bosbytes % w == 0 else bosbytes / w
    cells = list(cells)
    objsize = len(cells) - doff
    d = "null" if dnull else ptr(0, doff)
    ext = [] if dnull else [(0, doff, max(0, min(dmax, objsize)))]
    args = [d, dmax]
    if fn in HAS_VALUE:
        args.append(value)
    if fn in HAS_N:
        args.append(n if n is not None else dmax)
    args.append(bosarg(bos, w) if bosbytes is None else str(bosbytes))
    meta = dict(fam="inplace", fn=fn, w=w, dest=None if dnull else (0, doff), dmax=dmax, bos=bos, objsize=objsize,
                value=value if fn in HAS_VALUE else None, n=(n if n is not None else dmax) if fn in HAS_N else None,
                prior=cells[doff:], src=None, flush=flush, doff=doff,
                truthful=(dnull or dmax <= objsize) and (bos is None or bos <= objsize))
    meta.update(extra)
    return Op(fn, [Region(w, cells, flush)], args, ext, ext, meta)


def layouts(s, w=1, dirty=X):
    """the ways a string body `s` (non-NUL cells) is laid out against dmax: (cells, dmax, tag)"""
    L = len(s)
    out = [(s + [0], L + 1, "fit"),                      # terminated, exact fit, ends at the guard page
           (s + [0, dirty, dirty], L + 3, "slack"),      # terminated, dirty cells behind the terminator
           (s + [0, dirty, dirty], L + 1, "roomy")]      # terminated at dmax-1, object larger than dmax
    if L:
        out += [(s, L, "unterm-fit"),                    # no NUL in the object: dest[dmax] is the guard page
                (s + [0], L, "unterm-nul-behind"),       # no NUL within dmax, a NUL right behind
                (s + [0x63, 0], L, "unterm-more")]       # no NUL within dmax, the string continues
    return out


def values_for(fn, tier):
    if fn in WIDE:
        return [0x41, 0, 0xFF, 0x20AC, UNICODE_MAX, UNICODE_MAX + 1, 0x7FFFFFFF, 0xFFFFFFFF]
    if fn in HAS_VALUE:
        return [0x41, 0, 1, 0x7F, 0x80, 0xFF, 256, -1]
    return [None]


def body(L, w=1, hi=False):
    if w == 4:
        pool = [0x61, 0x3B1, 0x10FFFF, 0x80000041, 0x100, 0xFFFFFFFF]
    else:
        pool = [0x61, 0x62, 0xE9, 0x80, 0xFF, 0x01] if hi else [0x61, 0x62, 0x63, 0x64, 0x65, 0x66]
    return [pool[i % len(pool)] for i in range(L)]


def strings(alpha, maxlen):
    for L in range(maxlen + 1):
        for t in itertools.product(alpha, repeat=L):
            yield list(t)


CASE_ALPHA = [0x40, 0x41, 0x5A, 0x5B, 0x60, 0x61, 0x7A, 0x7B, 0xC1, 0xE1]
WS_ALPHA = [SP, TAB, 0x61, NL]
# wide case mappers: ASCII both cases, Latin-1 (ä, ß), a titlecase digraph (ǆ), Greek final sigma, a non-BMP small letter
# (Deseret), the first cell value that is no code point, a negative wchar_t whose low byte is 'a', all ones
WC_ALPHA = [0x41, 0x61, 0xE4, 0xDF, 0x1C6, 0x3C2, 0x10437, 0x110000, 0x80000061, 0xFFFFFFFF, 0x5A, 0x7A]
# boundaries of every range test of the mappers, the special mappings of the library's table (ß ÿ ı ſ µ, the
# DŽ/Dž/dž LJ/Lj/lj NJ/Nj/nj DZ/Dz/dz triples, final sigma and the Greek symbol variants, ẛ ẞ ι Ω K Å, Georgian incl. the
# punctuation inside its block, Cherokee both cases, Ā/ā, combining ypogegrammeni, Vithkuqi with its holes, Osage, Old
# Hungarian, Warang Citi, Medefaidrin, Adlam), non-letters, and cells that are no code points
WC_SPECIAL = [0x40, 0x41, 0x5A, 0x5B, 0x60, 0x61, 0x7A, 0x7B, 0x7F, 0x80, 0xAA, 0xB5, 0xBA, 0xBF, 0xC0, 0xD6, 0xD7, 0xD8, 0xDE, 0xDF,
              0xE0, 0xF6, 0xF7, 0xF8, 0xFE, 0xFF, 0x100, 0x101, 0x130, 0x131, 0x149, 0x178, 0x17F, 0x180, 0x1C4, 0x1C5, 0x1C6,
              0x1C7, 0x1C8, 0x1C9, 0x1CA, 0x1CB, 0x1CC, 0x1F0, 0x1F1, 0x1F2, 0x1F3, 0x250, 0x345, 0x37B, 0x390, 0x3AC, 0x3B1,
              0x3C2, 0x3C3, 0x3C9, 0x3D0, 0x3D1, 0x3D5, 0x3D6, 0x3F0, 0x3F1, 0x3F5, 0x430, 0x44F, 0x450, 0x45F, 0x561, 0x586,
              0x587, 0x5FF, 0x600, 0xFFF, 0x1000, 0x10A0, 0x10C5, 0x10D0, 0x10FA, 0x10FB, 0x10FC, 0x10FD, 0x10FF, 0x13A0,
              0x13EF, 0x13F0, 0x13F5, 0x13F8, 0x13FD, 0x1C80, 0x1C88, 0x1C90, 0x1CBF, 0x1D79, 0x1E01, 0x1E61, 0x1E96, 0x1E9B,
              0x1E9E, 0x1F00, 0x1F51, 0x1F80, 0x1FB3, 0x1FBE, 0x1FE5, 0x1FF3, 0x2126, 0x212A, 0x212B, 0x214E, 0x2170, 0x217F,
              0x2184, 0x24D0, 0x24E9, 0x2C30, 0x2C5F, 0x2C61, 0x2C65, 0x2C66, 0x2D00, 0x2D25, 0x2D26, 0x2D27, 0x2D2D, 0x2DFF,
              0x2E00, 0x3042, 0xA63F, 0xA640, 0xA641, 0xA64B, 0xA7B3, 0xA7FF, 0xA800, 0xAB53, 0xAB69, 0xAB6A, 0xAB70, 0xABBF,
              0xABC0, 0xD7A3, 0xD800, 0xDFFF, 0xFB00, 0xFEFF, 0xFF00, 0xFF21, 0xFF3A, 0xFF41, 0xFF5A, 0xFFFF, 0x10000, 0x10428,
              0x1044F, 0x104D8, 0x104FB, 0x10597, 0x105A1, 0x105A2, 0x105B1, 0x105B2, 0x105B9, 0x105BA, 0x105BC, 0x10CC0,
              0x10CF2, 0x118C0, 0x118DF, 0x16E60, 0x16E7F, 0x1E922, 0x1E943, 0x1F600, 0x10FFFF, 0x110000, 0x110041, 0x1FFFFF,
              0x7FFFFFFF, 0x80000000, 0x80000041, 0x80000061, 0xFFFFFF41, 0xFFFFFF61, 0xFFFFFFFE, 0xFFFFFFFF]


def cased_code_points():
    """every code point Python's unicodedata (independent of the tree and of libc) knows as a cased letter"""
    return [c for c in range(0x80, 0x110000) if unicodedata.category(chr(c)) in ("Lu", "Ll", "Lt")]


# ------------------------------------------------------------------ generator
def gen_fn(fn, rng, tier):
    ops = []
    w = WIDTH[fn]
    lim = LIM[w]
    quick = tier == "quick"
    vals = values_for(fn, tier)

    def each_value_n(cells, dmax, L, **kw):
        """one op per (value, n) this function takes"""
        for v in vals:
            if fn in HAS_N:
                ns = sorted({0, 1, max(L - 1, 0), L, L + 1, dmax - 1, dmax, dmax + 1} - {-1})
                if v != 0x41:
                    ns = [x for x in ns if x in (1, L, dmax)]
                for n in ns:
                    ops.append(mk(fn, cells, dmax, value=v, n=n, **kw))
            else:
                ops.append(mk(fn, cells, dmax, value=v, **kw))

    # 1. small scope, exhaustive
    if fn in SETS or fn == "strnterminate_s":
        for L in range(0, 6 if quick else 9):
            for hi in (False, True):
                if hi and L == 0:
                    continue
                s = body(L, w, hi)
                for cells, dmax, tag in layouts(s, w):
                    each_value_n(cells, dmax, L, tag=tag)
                    if tag in ("fit", "slack"):
                        ops.append(mk(fn, cells, dmax, flush="l", n=dmax, tag=tag))
        # every dmax against every length, dirty object of 6 cells
        for L in range(0, 6):
            cells = (body(L, w) + [0] + [X] * 6)[:6]
            for dmax in range(1, 7):
                for n in ([None] if fn not in HAS_N else range(0, dmax + 2)):
                    ops.append(mk(fn, cells, dmax, n=n))
    if fn in CASE:
        for s in strings(CASE_ALPHA[:6] if quick else CASE_ALPHA, 3):
            for cells, dmax, tag in layouts(s):
                ops.append(mk(fn, cells, dmax, tag=tag))
        for s in strings(CASE_ALPHA, 1 if quick else 2):
            for cells, dmax, tag in layouts(s):
                ops.append(mk(fn, cells, dmax, tag=tag, flush="l"))
        # every byte value once, in four strings of 64 (0 ends the first one early: leave it out)
        allb = list(range(1, 256))
        for i in range(0, 255, 51):
            chunk = allb[i:i + 51]
            ops.append(mk(fn, chunk + [0], 52))
            ops.append(mk(fn, chunk + [0, X, X], 54))
            ops.append(mk(fn, chunk, 51, tag="unterm-fit"))
    if fn in WCASE:
        # slen smaller / equal / larger than the string, terminated or not, every layout (unterm-fit = the array ends at
        # the guard page with no NUL: `while (*src && slen)` reads src[slen])
        for s in strings(WC_ALPHA[:5] if quick else WC_ALPHA[:8], 3):
            for cells, dmax, tag in layouts(s, w):
                ops.append(mk(fn, cells, dmax, tag=tag))
        for s in strings(WC_ALPHA, 1 if quick else 2):
            for cells, dmax, tag in layouts(s, w):
                ops.append(mk(fn, cells, dmax, tag=tag, flush="l"))
        s6 = WC_ALPHA[:6]
        for slen in range(0, 10):                        # one string of 6, every slen around it, object of 8 / exactly slen
            ops.append(mk(fn, s6 + [0, X], slen, tag="slen-sweep"))
            if 0 < slen <= 6:
                ops.append(mk(fn, s6[:slen], slen, tag="unterm-fit"))
                ops.append(mk(fn, s6[:slen] + [0], slen, tag="unterm-nul-behind"))
        # the special mappings and every range boundary, 16 to a string
        for i in range(0, len(WC_SPECIAL), 16):
            chunk = WC_SPECIAL[i:i + 16]
            ops.append(mk(fn, chunk + [0], len(chunk) + 1, tag="special"))
            ops.append(mk(fn, chunk + [0, X, X], len(chunk) + 3, tag="special"))
            ops.append(mk(fn, chunk + [0, 0x61, 0xE4], len(chunk) + 1, tag="special-roomy"))
            ops.append(mk(fn, chunk, len(chunk), tag="unterm-fit"))
        # every cased letter of Unicode once (quick: every third), 256 to a string
        cased = cased_code_points()
        if quick:
            cased = cased[rng.randrange(3)::3]
        for i in range(0, len(cased), 256):
            chunk = cased[i:i + 256]
            ops.append(mk(fn, chunk + [0], len(chunk) + 1, tag="cased"))
        # object size known, in BYTES: exact, one byte short, one cell short, one byte more, not a multiple of the cell
        t5 = [0x41, 0x61, 0xE4, 0x3C2, 0]
        for slen in (1, 2, 5):
            for bb in sorted({4 * slen - 4, 4 * slen - 1, 4 * slen, 4 * slen + 1, 4 * slen + 4, 1, 3, 20} - {0, -4}):
                if bb <= 20:
                    ops.append(mk(fn, t5, slen, bosbytes=bb, tag="bos-bytes"))
        ops.append(mk(fn, t5, 0, bosbytes=0, tag="bos-bytes"))
        ops.append(mk(fn, t5, 1, bosbytes=0, tag="bos-bytes"))
        ops.append(mk(fn, t5, 0, dnull=True, bosbytes=0))
        ops.append(mk(fn, t5, lim, bosbytes=20, tag="bos-bytes"))          # allowed by the limit, four times the object
        ops.append(mk(fn, t5, lim + 1, bosbytes=4 * (lim + 1), tag="bos-bytes"))   # above the limit, "fits" the (untruthful) size
        ops.append(mk(fn, t5, 2 ** 62, bosbytes=20, tag="bos-bytes"))      # slen * sizeof(wchar_t) wraps to 0
        ops.append(mk(fn, t5, 2 ** 62 + 1, bosbytes=20, tag="bos-bytes"))  # ... wraps to 4
        ops.append(mk(fn, t5, 2 ** 64 - 1, tag="bos-bytes"))
    if fn in WS:
        for s in strings(WS_ALPHA, 4 if quick else 6):
            for cells, dmax, tag in layouts(s):
                if quick and len(s) == 4 and tag in ("roomy", "unterm-more"):
                    continue
                ops.append(mk(fn, cells, dmax, tag=tag))
        # the region STARTS right behind an unreadable page (backward scans)
        for s in strings(WS_ALPHA, 3 if quick else 4):
            for cells, dmax, tag in layouts(s)[:2]:
                ops.append(mk(fn, cells, dmax, tag=tag, flush="l"))
        # dest in the middle of a larger object: what lies in front of dest must survive
        for pre in ([SP, SP], [TAB], [0x41], [0x41, SP]):
            for s in strings([SP, TAB, 0x61], 3):
                ops.append(mk(fn, pre + s + [0], len(s) + 1, doff=len(pre), tag="prefix"))
                ops.append(mk(fn, pre + s + [0, X], len(s) + 2, doff=len(pre), tag="prefix"))
                ops.append(mk(fn, pre + s + [0], len(s) + 1, doff=len(pre), tag="prefix", flush="l"))

    # 2. boundary sweep (word sizes of the libc memset / longer scans)
    for dmax in (2, 7, 8, 9, 15, 16, 17, 31, 32, 33, 63, 64, 65, 127, 128, 129, 255, 256, 257):
        for L in sorted({0, 1, dmax // 2, dmax - 2, dmax - 1, dmax}):
            if L < 0:
                continue
            if fn in WS:
                variants = []
                for lead, trail in ((0, 0), (1, 0), (0, 1), (2, 3), (L, 0)):
                    mid = L - lead - trail
                    if mid < 0 or (mid == 0 and trail):
                        continue
                    text = [SP if (i % 5 == 3 and 0 < i < mid - 1) else 0x61 + (i % 20) for i in range(mid)]
                    variants.append([SP if i % 2 else TAB for i in range(lead)] + text +
                                    [TAB if i % 2 else SP for i in range(trail)])
            elif fn in CASE:
                variants = [[(0x41 + i % 26) if i % 3 else (0x61 + i % 26) for i in range(L)],
                            [(0xC0 + i % 32) if i % 2 else (0x5B - (i % 3)) for i in range(L)]]
            elif fn in WCASE:
                variants = [[(0x41 + i % 26) if i % 3 else (0x61 + i % 26) for i in range(L)],
                            [WC_SPECIAL[(7 * i + dmax) % len(WC_SPECIAL)] for i in range(L)]]
            else:
                variants = [body(L, w, False)]
            for s in variants:
                cells = (s + [0] + [X] * dmax)[:dmax]
                if fn in HAS_N:
                    for n in sorted({0, 1, L, dmax - 1, dmax, dmax + 1}):
                        ops.append(mk(fn, cells, dmax, n=n, tag="sweep"))
                else:
                    ops.append(mk(fn, cells, dmax, tag="sweep"))
                if L < dmax:
                    ops.append(mk(fn, cells + [X, X], dmax, n=L, tag="sweep-roomy"))

    # 3. null / zero / limits / object size known to the library
    t = body(2, w) + [0]
    dirty = [X] * 8
    term = (t + [X] * 8)[:8]
    ops.append(mk(fn, term, 4, dnull=True))
    ops.append(mk(fn, term, 0, dnull=True))
    ops.append(mk(fn, term, 0))
    ops.append(mk(fn, term, 0, bos=8))
    for prior in (term, dirty):
        for dmax in (1, 3, 4, 8):
            for bos in (dmax, 8):
                ops.append(mk(fn, prior, dmax, bos=bos, n=min(dmax, 2)))
        ops.append(mk(fn, prior, 4, bos=3, n=2))               # smaller than dmax: EOVERFLOW
        ops.append(mk(fn, prior, 9, bos=8, n=2))               # dmax above the known object size
        ops.append(mk(fn, prior, lim + 1, bos=8, n=2))         # and above the limit
        ops.append(mk(fn, prior, 4, bos=3, value=0x7FFFFFF0, n=9))   # several violations at once
    ops.append(mk(fn, [X], lim + 1, doff=1, early=True, n=1))  # BOS unknown: dest is the guard page itself
    ops.append(mk(fn, [X], lim + 1, doff=1, early=True, n=lim + 2, value=0x7FFFFFF0))
    big = body(lim - 1, w) + [0]
    ops.append(mk(fn, big, lim, n=lim))
    if fn in WS:
        ops.append(mk(fn, [SP, TAB] + body(lim - 5, w) + [TAB, SP, 0], lim))
    if not quick:   # (the model's memory is a closure chain: limit-sized ops cost ~0.1 s each)
        ops.append(mk(fn, body(lim, w), lim, n=lim, tag="unterm-fit"))
        if fn in WS:
            ops.append(mk(fn, [SP] * (lim - 1) + [0], lim))
    if fn in HAS_VALUE:
        bad = 256 if w == 1 else UNICODE_MAX + 1
        ops.append(mk(fn, term, 4, value=bad, n=2))
        ops.append(mk(fn, term, 4, value=bad, n=5))
        ops.append(mk(fn, term, 4, value=bad, dnull=True))
        ops.append(mk(fn, term, 0, value=bad))
    if fn in HAS_N:
        for n in (5, lim, lim + 1, 2 ** 32, -1):
            ops.append(mk(fn, term, 4, n=n))
            ops.append(mk(fn, dirty, 8, n=n))

    # 4. seeded random
    nrand = 250 if quick else 4000
    for _ in range(nrand):
        dmax = rng.choice([rng.randint(1, 12), rng.randint(28, 70), rng.randint(1, 300)])
        extra = rng.choice([0, 0, 1, 3])
        objsize = dmax + extra
        L = rng.choice([rng.randint(0, objsize), rng.randint(0, min(8, objsize)), dmax - 1, dmax])
        L = max(0, min(L, objsize))
        if fn in WS:
            alpha = [SP, TAB, 0x61, 0x62, NL, 0xA0, SP]
        elif fn in CASE:
            alpha = [0x41, 0x5A, 0x61, 0x7A, 0x40, 0x5B, 0x60, 0x7B, 0xC4, 0xE4, 0x31, 0xFF, 0x80]
        elif fn in WCASE:
            alpha = WC_ALPHA + [rng.choice(WC_SPECIAL) for _ in range(6)] + [rng.randrange(1, 0x110000), rng.randrange(1, 0x3000)]
        elif w == 4:
            alpha = [0x61, 0x3B1, 0x10FFFF, 0x80000000, 0xFFFFFFFF, 0x100]
        else:
            alpha = [0x61, 0x62, 0xE9, 0x7F, 0x80, 0xFF, 1]
        s = [rng.choice(alpha) for _ in range(L)]
        fill = rng.choice([[X], [X, 0x59, 0], [SP], alpha])
        cells = (s + [0] + [rng.choice(fill) for _ in range(objsize)])[:objsize]
        v = rng.choice(vals)
        n = rng.choice([0, 1, L, dmax, dmax + 1, rng.randint(0, dmax + 2)])
        fl = "l" if rng.random() < 0.15 else "r"
        ops.append(mk(fn, cells, dmax, value=v, n=n, flush=fl, tag="random"))
    return ops


def gen(rng, tier, fns=None):
    ops = []
    for fn in (fns or NARROW + WIDE):
        ops += gen_fn(fn, rng, tier)
    return ops


# ------------------------------------------------------------------ reference
def c_tolower(c):
    return c + 32 if 0x41 <= c <= 0x5A else c      # "C" locale, unsigned char value


def c_toupper(c):
    return c - 32 if 0x61 <= c <= 0x7A else c


def is_ws(c):
    return c in (SP, TAB)


_UTF8_UPPER = None
_UTF8_LOWER = {}                       # filled by utf8_towupper(): towlower() of the same libc and locale
_TOWUPPER_PROBE = r"""
#include <wctype.h>
#include <wchar.h>
#include <locale.h>
#include <stdio.h>
int main(void) {
    unsigned long c;
    if (!setlocale(LC_ALL, "C.UTF-8") && !setlocale(LC_ALL, "en_US.UTF-8")) return 2;
    for (c = 0; c < 0x110000; c++) if ((unsigned long)towupper((wint_t)c) != c) printf("%lx %lx\n", c, (unsigned long)towupper((wint_t)c));
    for (c = 0; c < 0x110000; c++) if ((unsigned long)towlower((wint_t)c) != c) printf("L %lx %lx\n", c, (unsigned long)towlower((wint_t)c));
    return 0;
}
"""


def utf8_towupper():
    """{c: towupper(c)} of the RUNNING libc in a UTF-8 locale, for the code points it changes: the second reading of
    "via towupper() ... determined by the LC_CTYPE category" for wcsupr_s.  Independent of the library under test (the
    probe does not link it).  Without a UTF-8 locale: Python's own simple-case data (single-character str.upper())."""
    global _UTF8_UPPER
    if _UTF8_UPPER is None:
        d = tempfile.mkdtemp(prefix="safec_towupper_")
        try:
            open(os.path.join(d, "p.c"), "w").write(_TOWUPPER_PROBE)
            r = subprocess.run(["gcc", "-O1", "-w", "-o", os.path.join(d, "p"), os.path.join(d, "p.c")], capture_output=True, text=True)
            out = subprocess.run([os.path.join(d, "p")], capture_output=True, text=True) if r.returncode == 0 else None
            if out is not None and out.returncode == 0 and out.stdout:
                rows = [l.split() for l in out.stdout.splitlines()]
                _UTF8_UPPER = {int(r[0], 16): int(r[1], 16) for r in rows if len(r) == 2}
                _UTF8_LOWER.update({int(r[1], 16): int(r[2], 16) for r in rows if len(r) == 3})
            else:
                _UTF8_LOWER.update({c: ord(chr(c).lower()) for c in range(0x110000)
                                    if not 0xD800 <= c < 0xE000 and len(chr(c).lower()) == 1 and chr(c).lower() != chr(c)})
                _UTF8_UPPER = {c: ord(chr(c).upper()) for c in range(0x110000)
                               if not 0xD800 <= c < 0xE000 and len(chr(c).upper()) == 1 and chr(c).upper() != chr(c)}
        finally:
            shutil.rmtree(d, ignore_errors=True)
    return _UTF8_UPPER


def annotate(op):
    m = op.meta
    fn, w, dmax = m["fn"], m["w"], m["dmax"]
    lim = LIM[w]
    nterm = fn == "strnterminate_s"
    m.update(hkind="S", limit=lim, retkind="n" if nterm else "e", producing=fn in PRODUCING, clears=False,
             slackdoc=fn in SLACKDOC)
    viol, opt, names, ref = set(), set(), [], {}
    mask = (1 << (8 * w)) - 1
    v = m.get("value")
    n = m.get("n")
    if n is not None and n < 0:
        n += 1 << 64                                   # rsize_t
    if fn in WCASE and dmax == 0:
        # "@retval EOK on successful operation or slen = 0"; "ESNULLP when src is NULL pointer" names the null pointer
        # with no exception for slen = 0: both answers are documented for (NULL, 0)
        if m["dest"] is None:
            opt.add(ESNULLP)
        m.update(viol=set(), viol_opt=opt, violname="", ref={"cells": [], "keep_tail": True} if m["dest"] is not None else {})
        return
    if m["dest"] is None:
        viol.add(ESNULLP); names.append("dest-null")
    if dmax == 0:
        viol.add(ESZEROL); names.append("dmax-zero")
    if dmax > lim:
        viol.add(ESLEMAX); names.append("dmax-max")
    if m["bos"] is not None and dmax > m["bos"]:
        viol.add(EOVERFLOW); names.append("dmax-bos")
    if v is not None:
        if w == 1:
            if v > 255:
                viol.add(ESLEMAX); names.append("value")
            elif v < 0:
                opt.add(ESLEMAX)                       # "not greater than 255": a negative int is not named
        else:
            if UNICODE_MAX < v < 0x80000000:
                viol.add(ESLEMAX); names.append("value")
            elif v >= 0x80000000:
                opt.add(ESLEMAX)                       # negative as a (signed) wchar_t
        v &= mask
    if n is not None and n > dmax:
        viol.add(ESNOSPC); names.append("n-dmax")
    if not viol and m.get("truthful") and m["dest"] is not None:
        prior = m["prior"][:dmax]
        s = cstr(prior)
        L = len(s) if s is not None else None
        body_ = s if s is not None else prior
        term = [0] if s is not None else []
        if fn in ("strset_s", "wcsset_s"):
            ref["cells"] = [v] * len(body_) + term
        elif fn in ("strnset_s", "wcsnset_s"):
            k = min(n, len(body_))
            ref["cells"] = [v] * k + body_[k:] + term
        elif fn == "strzero_s":
            ref["cells"] = [0] * len(body_) + term
        elif fn == "strtolowercase_s":
            ref["cells"] = [c_tolower(c) for c in body_] + term
            ref["keep_tail"] = True
        elif fn == "strtouppercase_s":
            ref["cells"] = [c_toupper(c) for c in body_] + term
            ref["keep_tail"] = True
        elif fn == "wcslwr_s":
            # wchar_t cells as 32-bit patterns; "C" locale: only the ASCII capitals are uppercase characters
            ref["cells"] = [c_tolower(c) for c in body_] + term
            ref["keep_tail"] = True
        elif fn == "wcsupr_s":
            up = utf8_towupper()
            ref["wcase"] = dict(c=[c_toupper(c) for c in body_] + term, u=[up.get(c, c) for c in body_] + term)
        elif fn in WS:
            if s is None:
                # "@retval ESUNTERM when dest was not zero terminated"; dmax == 1 named apart: the code treats
                # "a dmax of one allows only for a null" as a corner case of its own
                viol.add(ESUNTERM); names.append("dest-unterm" if dmax > 1 else "dest-unterm-dmax1")
            else:
                i = 0
                while i < L and is_ws(s[i]):
                    i += 1
                j = L
                if fn == "strremovews_s":
                    while j > i and is_ws(s[j - 1]):
                        j -= 1
                ref["cells"] = s[i:j] + [0]
        elif nterm:
            k = L if s is not None else dmax - 1
            ref["cells"] = prior[:k] + [0]
            ref["count"] = k
            ref["keep_tail"] = True
        if fn in SETS and not m.get("slack", 1):
            ref["keep_tail"] = True                    # nothing promises a change behind the terminator
    if viol:
        viol |= opt                                    # several violations: any one of the codes may be the one reported
    if nterm:
        m["viol_n"] = viol                             # no error code is returned: family oracle below
    else:
        m["viol"] = viol
    m.update(viol_opt=opt, violname="+".join(names), ref=ref)


# ------------------------------------------------------------------ family oracles
def o_C05(op, ob, before):
    """strnterminate_s returns a length, not a code: a violated @pre = exactly one handler call with the
    matching code and nothing else; and no function may touch dest before rejecting an over-limit dmax"""
    m = op.meta
    out = []
    if m.get("early") and ob.fault:
        out.append(Fail("C05", "%s:touched-before-rejecting" % op.fn, ob.fault))
    if "viol_n" not in m or ob.fault:
        return out
    viol = m["viol_n"]
    if viol:
        if len(ob.ev) != 1:
            out.append(Fail("C05", "%s:handler-count=%d:%s" % (op.fn, len(ob.ev), m["violname"]), "ev=%s" % ob.ev))
        elif ob.ev[0][0] != "S" or ob.ev[0][1] not in viol:
            out.append(Fail("C05", "%s:handler-arg:%s" % (op.fn, m["violname"]), "ev=%s want=%s" % (ob.ev, sorted(viol))))
        if ob.ret != "0":
            out.append(Fail("C05", "%s:length-returned-on-violation:%s" % (op.fn, m["violname"]), "ret=%s" % ob.ret))
    elif ob.ev:
        out.append(Fail("C05", "%s:spurious-handler" % op.fn, "ev=%s ret=%s" % (ob.ev, ob.ret)))
    return out


def o_C06(op, ob, before):
    """beyond the generic prefix comparison: the count strnterminate_s returns, and - where the documentation
    names no effect behind the terminator - that those cells of dest are left alone"""
    m = op.meta
    if ob.fault or not m.get("truthful", True) or m.get("dest") is None:
        return []
    ref = m.get("ref") or {}
    if "wcase" in ref:
        # wcsupr_s: per cell either reading of the doc comment; which one is reported apart
        if ob.reti() != 0:
            return []
        k, off = m["dest"]
        rc, ru = ref["wcase"]["c"], ref["wcase"]["u"]
        got = ob.img[k][off:off + len(rc)]
        out = []
        bad = [i for i, g in enumerate(got) if g != rc[i] and g != ru[i]]
        # an uppercase letter turned into its lowercase partner is named apart from the other errors of the table
        for kind, sel in (("lowercased", [i for i in bad if _UTF8_LOWER.get(before[k][off + i]) == got[i]]),
                          ("other", [i for i in bad if _UTF8_LOWER.get(before[k][off + i]) != got[i]])):
            if not sel:
                continue
            i, bad = sel[0], sel
            out.append(Fail("C06", "%s:wrong-result:%s" % (op.fn, kind), "at %d: %x -> %x, towupper gives %x (UTF-8 locale) / %x (\"C\" locale); %d such cells: %s" % (
                i, before[k][off + i], got[i], ru[i], rc[i], len(bad), ",".join("%x->%x" % (before[k][off + j], got[j]) for j in bad[:12]))))
        loc = [i for i, g in enumerate(got) if g != rc[i] and g == ru[i]]
        if loc:
            i = loc[0]
            out.append(Fail("C06", "%s:locale-ignored" % op.fn, "at %d: %x -> %x in the \"C\" locale" % (i, before[k][off + i], got[i])))
        got_t, want_t = ob.img[k][off + len(rc):off + m["dmax"]], before[k][off + len(rc):off + m["dmax"]]
        if got_t != want_t:
            i = next(i for i, (a, b) in enumerate(zip(got_t, want_t)) if a != b)
            out.append(Fail("C06", "%s:changed-behind-result" % op.fn, "at %d got %x was %x" % (len(rc) + i, got_t[i], want_t[i])))
        return out
    if "cells" not in ref:
        return []
    if m.get("retkind") == "e" and ob.reti() != 0:
        return []
    out = []
    k, off = m["dest"]
    if "count" in ref and ob.ret != str(ref["count"]):
        out.append(Fail("C06", "%s:wrong-count" % op.fn, "got %s want %d" % (ob.ret, ref["count"])))
    if ref.get("keep_tail"):
        lo = len(ref["cells"])
        got = ob.img[k][off + lo:off + m["dmax"]]
        want = before[k][off + lo:off + m["dmax"]]
        if got != want:
            i = next(i for i, (a, b) in enumerate(zip(got, want)) if a != b)
            out.append(Fail("C06", "%s:changed-behind-result" % op.fn, "at %d got %x was %x" % (lo + i, got[i], want[i])))
    return out


FAMILIES = {
    "inplace": dict(gen=gen, annotate=annotate, props=["C01", "C02", "C03", "C05", "C06", "C08"],
                    oracles={"C05": o_C05, "C06": o_C06}),
}

"""tok family: the tokenizers strtok_s (src/str/strtok_s.c) and wcstok_s (src/wchar/wcstok_s.c).

Every op line is ONE call.  A tokenizing *sequence* is generated from a reference tokenizer
(`ref_tok`, written from the functions' doc comments and C11 K.3.7.3.1 / K.3.9.2.3.1, not from the C
bodies): call k of a sequence is built from the REFERENCE state after k-1 calls - the buffer image with
the delimiters the reference has already overwritten, `*ptr` and `*dmaxp` as the reference says they
must be.  The C14 oracle then checks, for that one call, that the implementation returns the
reference's token pointer, leaves the reference's next buffer image and hands back a `*ptr`/`*dmaxp`
consistent with the reference.

Reference semantics of one call on the window [start, start+n) (n = *dmaxp, start = dest or *ptr):
  1. skip cells that are members of the delimiter string;
       window exhausted without a NUL or a token start      -> violation ESUNTERM ("dest must not be
                                                                unterminated"), NULL, nothing stored
       NUL reached                                           -> no token: NULL
  2. the token starts at the first non-delimiter i; search from i+1 for the first delimiter j;
       window exhausted                                      -> violation ESUNTERM ("the end of the token
                                                                found shall occur within the first *dmax
                                                                characters"), NULL, nothing stored
       NUL reached at z                                      -> token i, extends to the end of the string
       delimiter at j                                        -> cell j := NUL, token i
  'Consistent' state handed back (END = start + n, the end of the caller's original dest+dmax, which
  the reference keeps invariant: *ptr + *dmaxp == END after every successful call):
       delimiter at j    : *ptr == j+1 exactly ("shall start searching just past the element overwritten
                           by a NUL character"), *dmaxp == END-(j+1) ("updates the value pointed to by dmax
                           to reflect the number of elements that remain in relation to ptr"; the doc's own
                           example: len 38 -> 30 after the token that ends at index 7)
       end of string / no token : "In ALL cases the function stores sufficient information in *ptr" and
                           "subsequent searches in the same string for a token return a null pointer".  The
                           delimiter string may change from call to call, so the only saved position in
                           [start, z] from which every later search yields NULL is the terminator itself:
                           *ptr == z, *dmaxp == END-z (>= 1, so the next call is not an ESZEROL violation).
  Violations leave the buffer alone and (doc) "do not store a value in the object pointed to by ptr".
  A delimiter string longer than STRTOK_DELIM_MAX_LEN (16) is a violation (@pre; reported as ESUNTERM,
  "delim is unterminated") whenever the searched string is not empty.

The error code itself travels through errno, which the generic harness does not record: "reported" here
means NULL returned + exactly one constraint-handler call carrying the documented code.
"""
import itertools, random
from proto import Op, Region, ptr, UNK
from gens import X, LIM, bosarg, EOK, ESNULLP, ESZEROL, ESLEMAX, ESUNTERM, EOVERFLOW
from oracles import Fail, parse_loc, locname

DELIM_MAX = 16
FN = {1: "strtok_s", 4: "wcstok_s"}
CA, CB, D1, D2 = 0x61, 0x62, 0x2C, 0x3B          # 'a' 'b' ',' ';'
ALPHA = [D1, D2, CA, CB]
FILL = [0x6B + i for i in range(20)]             # 'k'.. : delimiter-set fillers, distinct, not in ALPHA


# ------------------------------------------------------------------ the reference tokenizer
def _viol(cells, code, case):
    return dict(kind="viol", case=case, code=code, tok=None, img=list(cells), p=None, n=None)


def ref_tok(cells, start, n, delim, delim_terminated=True):
    """one call of the documented tokenizer on cells[start:start+n]; needs start+n <= len(cells)
    except for the look at cells[start+n] that only classifies the failure (never decides it)"""
    hi = start + n
    dset = set(delim)
    long_delim = len(delim) > DELIM_MAX or not delim_terminated
    opt = set()
    if long_delim:
        if cells[start] != 0:
            return _viol(cells, ESUNTERM, "delim-long")
        opt = {ESUNTERM}
    i = start
    while i < hi and cells[i] != 0 and cells[i] in dset:
        i += 1
    if i >= hi:
        z = hi < len(cells) and cells[hi] == 0
        return _viol(cells, ESUNTERM, "nul-at-dmax-skip" if z else "unterm-skip")
    if cells[i] == 0:
        return dict(kind="none", case="empty" if i == start else "no-token", code=None, tok=None,
                    img=list(cells), p=i, n=hi - i, opt=opt)
    j = i + 1
    while j < hi and cells[j] != 0 and cells[j] not in dset:
        j += 1
    if j >= hi:
        z = hi < len(cells) and cells[hi] == 0
        return _viol(cells, ESUNTERM, "nul-at-dmax-token" if z else "unterm-token")
    if cells[j] == 0:
        return dict(kind="tok", case="last-token", code=None, tok=i, img=list(cells), p=j, n=hi - j)
    img = list(cells)
    img[j] = 0
    return dict(kind="tok", case="delim-ended", code=None, tok=i, img=img, p=j + 1, n=hi - j - 1)


# ------------------------------------------------------------------ op construction
def mk_call(fn, w, cells, p, n, delim, first, bos=None, flush="r", slot=None, variant="", delim_term=True,
            delim_null=False, part="small", early=False, wl=None):
    """one call.  first: dest = R0+p, *ptr uninitialised ('_'); else dest = NULL, *ptr = R0+p.
    slot overrides the initial *ptr; variant 'np' = ptr NULL, 'nm' = dmaxp NULL."""
    dcells = list(delim) + ([0] if delim_term else [])
    regs = [Region(w, cells, flush), Region(w, dcells if dcells else [0])]
    obj = len(cells) - p
    wl = max(0, min(n, obj)) if wl is None else wl
    dest = ptr(0, p) if first else "null"
    q = slot if slot is not None else ("_" if first else ptr(0, p))
    dl = "null" if delim_null else ptr(1)
    a_dmax = "null" if variant == "nm" else n
    a_ptr = "null" if variant == "np" else q
    W = [(0, p, wl)] if wl else []
    Rd = list(W) + ([] if delim_null else [(1, 0, len(dcells))])
    meta = dict(fam="tok", fn=fn, w=w, dest=(0, p), dmax=n, bos=bos, objsize=obj, cells=list(cells), p=p, n=n,
                delim=list(delim), delim_term=delim_term, delim_null=delim_null, first=first, slot=q,
                variant=variant, part=part, early=early,
                truthful=(not early) and n <= obj and (bos is None or bos <= obj))
    return Op(fn + ("_" + variant if variant else ""), regs, [dest, a_dmax, dl, a_ptr, bosarg(bos, w)], W, Rd, meta)


def annotate(op):
    """reference semantics of this one call: entry constraints from the doc comment's @pre list, then ref_tok"""
    m = op.meta
    w, n = m["w"], m["n"]
    lim = LIM[w]
    viol, names = set(), []
    if m["variant"] == "nm":
        viol.add(ESNULLP); names.append("dmaxp-null")
    else:
        if n == 0:
            viol.add(ESZEROL); names.append("dmax-zero")
        if n > lim:
            viol.add(ESLEMAX); names.append("dmax-max")
        if m["first"] and m["bos"] is not None and n > m["bos"]:
            viol.add(EOVERFLOW); names.append("dmax-bos")
    if m["delim_null"]:
        viol.add(ESNULLP); names.append("delim-null")
    if m["variant"] == "np":
        viol.add(ESNULLP); names.append("ptr-null")
    elif not m["first"] and m["slot"] == "null":
        viol.add(ESNULLP); names.append("dest-and-ptr-null")
    m.update(hkind="S", limit=lim, retkind="tok", tviol_opt=set())
    if viol:
        m.update(tviol=viol, violname="+".join(names), exp=_viol(m["cells"], min(viol), "+".join(names)))
        return
    if not m["truthful"]:
        m.update(tviol=set(), violname="", exp=None)
        return
    e = ref_tok(m["cells"], m["p"], n, m["delim"], m["delim_term"])
    if not m["delim"] and e["case"] != "empty":
        e["case"] += ":delim-empty"      # keeps the signatures of the empty-delimiter-string inputs apart
    m["exp"] = e
    if e["kind"] == "viol":
        m.update(tviol={e["code"]}, violname=e["case"])
    else:
        m.update(tviol=set(), violname="", tviol_opt=e.get("opt", set()))


class Builder:
    def __init__(self):
        self.ops, self.seen = [], set()

    def add(self, op):
        key = (op.fn, tuple((r.w, r.flush, tuple(r.cells)) for r in op.regions), tuple(op.args))
        if key in self.seen:
            return
        self.seen.add(key)
        self.ops.append(op)

    def seq(self, w, cells, dmax, delims, bos=None, flush="r", part="small", maxcalls=40):
        """the call sequence on one buffer, driven by the reference state; delims is cycled.
        Continues until the reference has answered NULL twice in a row (or reported a violation,
        after which the state - and therefore the next op - would be identical)."""
        fn = FN[w]
        img, p, n, first, nulls = list(cells), 0, dmax, True, 0
        for k in range(maxcalls):
            d = delims[k % len(delims)]
            op = mk_call(fn, w, img, p, n, d, first, bos=bos if first else None, flush=flush, part=part)
            annotate(op)
            self.add(op)
            e = op.meta["exp"]
            if e is None or e["kind"] == "viol":
                return
            img, p, n, first = e["img"], e["p"], e["n"], False
            nulls = nulls + 1 if e["tok"] is None else 0
            if nulls == 2:
                return


def canonical(s):
    """first delimiter character used is ',', first non-delimiter used is 'a' (symmetry of a constant
    delimiter set that holds both)"""
    fd = next((c for c in s if c in (D1, D2)), D1)
    fa = next((c for c in s if c in (CA, CB)), CA)
    return fd == D1 and fa == CA


def variants(s, which):
    """(cells, dmax) placements of the string s: dmax equal / above / below strlen+1, exact-fit unterminated"""
    L = len(s)
    out = []
    if "eq" in which:
        out.append((s + [0], L + 1))
    if "above" in which:
        out.append((s + [0, D1, CA], L + 3))          # junk (a delimiter and a letter) behind the terminator
    if "below" in which:
        for d in (L, L - 1):
            if d >= 1:
                out.append((s + [0], d))              # object larger than the declared dmax
    if "exact" in which and L >= 1:
        out.append((list(s), L))                      # unterminated array that exactly fills dmax
    return out


PLANS = [[[D1, D2]], [[D1]], [[D1], [D2]], [[D2, D1], []], [[]], [[], [D1]]]


def gen(rng, tier):
    b = Builder()
    quick = tier == "quick"
    for w in (1, 4):
        fn = FN[w]
        # ---- 1. exhaustive small scope: every string over {',', ';', 'a', 'b'}
        n_cross = 3 if quick else 4
        for L in range(0, n_cross + 1):
            for t in itertools.product(ALPHA, repeat=L):
                s = list(t)
                for cells, dmax in variants(s, ("eq", "above", "below", "exact")):
                    for plan in PLANS:
                        b.seq(w, cells, dmax, plan)
        n_mid = 4 if quick else 5
        for L in range(n_cross + 1, n_mid + 1):
            for t in itertools.product(ALPHA, repeat=L):
                s = list(t)
                for cells, dmax in variants(s, ("eq", "exact", "above")):
                    for plan in (PLANS[0], PLANS[2]):
                        b.seq(w, cells, dmax, plan)
        for L in range(n_mid + 1, 7):
            for t in itertools.product(ALPHA, repeat=L):
                s = list(t)
                if quick and not canonical(s):
                    continue     # quick tier: one representative per symmetry class of the constant set ",;"
                for cells, dmax in variants(s, ("eq", "exact") if L == 5 or not quick else ("eq",)):
                    b.seq(w, cells, dmax, PLANS[0])
                    if not quick:
                        b.seq(w, cells, dmax, PLANS[2])
        # flush-left placements (nothing may be read below the start of the buffer)
        for L in range(0, 4):
            for t in itertools.product(ALPHA, repeat=L):
                b.seq(w, list(t) + [0], L + 1, PLANS[0], flush="l")

        # ---- 2. boundary sweep
        # delimiter strings of length 0..18, the real delimiter first / last / absent, 17 unterminated
        strs = [[CA, D1, CB], [D1, CA], [CA, CB], [D1], [], [CA, FILL[0], D1], [CA, FILL[15], CB], [CA, FILL[16], CB],
                [FILL[3], FILL[3]], [D1, D1, CA]]
        for Ld in range(0, 19):
            sets = [FILL[:Ld]]
            if Ld >= 1:
                sets += [FILL[:Ld - 1] + [D1], [D1] + FILL[:Ld - 1]]
            for ds in sets:
                for s in strs:
                    b.seq(w, s + [0], len(s) + 1, [ds], part="boundary")
                    b.seq(w, s + [0], len(s) + 1, [ds, [D1]], part="boundary")
        for s in strs:     # 17 delimiter cells without terminator, flush against the guard page
            for ds in (FILL[:17], FILL[:16] + [D1], [D1] + FILL[:16]):
                op = mk_call(fn, w, s + [0], 0, len(s) + 1, ds, True, delim_term=False, part="boundary")
                b.add(op)
        # high-bit / extreme cell values as delimiters and as text
        hi = [0xE9, 0xFF, 0x80, 0x7F] if w == 1 else [0xE9, 0xFFFFFFFF, 0x80000000, 0x1F600]
        for ds in ([hi[1]], [hi[2], hi[0]], [hi[3]]):
            for s in ([hi[0], hi[1], hi[2], hi[3]], [hi[1], hi[1], hi[0]], [hi[2], hi[3], hi[1], hi[0], hi[2]]):
                b.seq(w, s + [0], len(s) + 1, [ds], part="boundary")
                b.seq(w, list(s), len(s), [ds], part="boundary")
        # the RSIZE limit: a buffer of exactly LIM cells (tokens across its whole length), LIM+1
        lim = LIM[w]
        big = ([CA] * 7 + [D1]) * (lim // 8)
        big = (big + [CA] * lim)[:lim - 1] + [0]
        b.seq(w, big, lim, [[D1]], part="boundary", maxcalls=3)
        b.seq(w, [CA] * (lim - 1) + [0], lim, [[D1]], part="boundary")
        b.seq(w, [D1] * (lim - 1) + [0], lim, [[D1]], part="boundary")
        b.seq(w, [CA] * lim, lim, [[D1]], part="boundary")                   # unterminated, exact fit
        # null / zero / limit / object-size arguments
        s = [CA, D1, CB, 0]
        P = dict(part="boundary")
        b.add(mk_call(fn, w, s, 0, 4, [D1], False, slot="null", **P))           # dest NULL and *ptr NULL
        b.add(mk_call(fn, w, s, 0, 4, [D1], True, delim_null=True, **P))
        b.add(mk_call(fn, w, s, 2, 2, [D1], False, delim_null=True, **P))
        b.add(mk_call(fn, w, s, 0, 0, [D1], True, **P))
        b.add(mk_call(fn, w, s, 2, 0, [D1], False, **P))
        b.add(mk_call(fn, w, s, 0, 0, [D1], True, delim_null=True, **P))
        b.add(mk_call(fn, w, s, 0, 4, [D1], True, variant="np", **P))
        b.add(mk_call(fn, w, s, 2, 2, [D1], False, variant="np", **P))
        b.add(mk_call(fn, w, s, 0, 4, [D1], True, variant="nm", **P))
        b.add(mk_call(fn, w, s, 2, 2, [D1], False, variant="nm", **P))
        b.add(mk_call(fn, w, s, 0, 0, [D1], True, variant="np", **P))
        # every combination of simultaneously violated entry constraints
        for n in (0, 4, lim + 1):
            for dn in (False, True):
                for variant in ("", "np", "nm"):
                    for first, slot in ((True, None), (False, None), (False, "null")):
                        if not first and slot is None and n == 4:
                            n_, p_ = 2, 2
                        else:
                            n_, p_ = n, (0 if first else 2)
                        b.add(mk_call(fn, w, s, p_, n_, [D1], first, slot=slot, variant=variant, delim_null=dn,
                                      wl=min(n_, 4 - p_), **P))
        for bos in (4, 6):                                                     # object size known: exact, larger
            obj = s + [X] * (bos - 4)
            for dmax in (4, bos):
                b.seq(w, obj, dmax, [[D1]], bos=bos, part="boundary")
        b.add(mk_call(fn, w, s, 0, 5, [D1], True, bos=4, wl=4, **P))            # dmax above the known object size
        b.add(mk_call(fn, w, s, 0, lim + 1, [D1], True, bos=4, wl=4, **P))
        b.add(mk_call(fn, w, s, 2, 2, [D1], False, bos=0, **P))                 # continuation: "destbos is known and 0"
        b.add(mk_call(fn, w, s, 2, 2, [D1], False, bos=1, **P))
        # dmax above the limit, object size unknown: dest sits at the guard page, any touch faults
        b.add(mk_call(fn, w, [X], 1, lim + 1, [D1], True, early=True, wl=0, **P))
        b.add(mk_call(fn, w, [X], 1, lim + 1, [D1], False, early=True, wl=0, **P))
        # dmax above the limit but inside a known, larger object (documented: ESLEMAX)
        o = mk_call(fn, w, [CA, D1] * ((lim + 2) // 2) + [0], 0, lim + 2, [D1], True, bos=lim + 3, **P)
        b.add(o)

    # ---- 3. seeded random sequences
    nrand = 250 if quick else 4000
    for _ in range(nrand):
        w = rng.choice((1, 4))
        text = [CA, CB, 0x7A, 0xE9, 0xFF if w == 1 else 0x10FFFF, 1]
        dl = [D1, D2, 0x20, 0x09, 0x80 if w == 1 else 0x80000000] + FILL
        L = rng.choice([rng.randint(0, 12), rng.randint(0, 40)])
        nd = rng.randint(1, 3)
        used = rng.sample(dl[:5], nd)
        s = [rng.choice(used) if rng.random() < 0.35 else rng.choice(text) for _ in range(L)]
        plan = []
        for _k in range(rng.randint(1, 3)):
            ds = rng.sample(used, rng.randint(0, nd)) + rng.sample(FILL, rng.choice([0, 0, 1, 5, 13, 14, 15, 16]))
            rng.shuffle(ds)
            plan.append(ds)
        r = rng.random()
        if r < 0.5:
            cells, dmax = s + [0], L + 1
        elif r < 0.7:
            k = rng.randint(1, 5)
            cells, dmax = s + [0] + [rng.choice(used + text) for _ in range(k)], L + 1 + k
        elif r < 0.85 and L >= 1:
            cells, dmax = list(s), L
        elif L >= 2:
            cells, dmax = s + [0], rng.randint(1, L)
        else:
            cells, dmax = s + [0], L + 1
        b.seq(w, cells, dmax, plan, part="random", flush="l" if rng.random() < 0.1 else "r")
    return b.ops


# ------------------------------------------------------------------ oracles
def _outs(op, ob):
    """(*dmaxp, *ptr) as printed after the call; None where the binding has no such slot"""
    o = ob.outs
    if len(o) < 5:
        return None, None
    return (None if o[1] == "-" else o[1]), (None if o[3] == "-" else o[3])


def o_C05(op, ob, before):
    """a violated @pre is reported: NULL returned and exactly one str-handler call with the documented
    code; no violation: no handler call"""
    m = op.meta
    if "tviol" not in m:
        return []
    fn = op.fn
    if ob.fault:
        if m.get("early"):
            return [Fail("C05", "%s:touched-before-rejecting" % fn, ob.fault)]
        return []
    if m.get("exp") is None:
        return []
    out = []
    viol, name = m["tviol"], m["violname"]
    codes = [c for (_, c) in ob.ev]
    if not viol and ob.ret == "null" and codes and codes[0] in m.get("tviol_opt", ()):
        viol, name = {codes[0]}, "optional"
    if viol:
        if ob.ret != "null":
            out.append(Fail("C05", "%s:violation-not-reported:%s:token-returned" % (fn, name), "ret=%s ev=%s" % (ob.ret, ob.ev)))
        elif not ob.ev:
            out.append(Fail("C05", "%s:violation-not-reported:%s" % (fn, name), "ret=%s ev=%s" % (ob.ret, ob.ev)))
        if ob.ev:
            if len(ob.ev) != 1:
                out.append(Fail("C05", "%s:handler-count=%d:%s" % (fn, len(ob.ev), name), "ev=%s" % ob.ev))
            elif ob.ev[0][1] not in viol:
                out.append(Fail("C05", "%s:wrong-code:%s:got=%s" % (fn, name, ob.ev[0][1]), "want=%s" % sorted(viol)))
            elif ob.ev[0][0] != "S":
                out.append(Fail("C05", "%s:handler-kind:%s" % (fn, name), "ev=%s" % ob.ev))
    elif ob.ev:
        out.append(Fail("C05", "%s:spurious-handler:%s:code=%s" % (fn, m["exp"]["case"], codes[0]), "ev=%s ret=%s" % (ob.ev, ob.ret)))
    return out


def _where(op, i):
    m = op.meta
    rel = i - m["p"]
    if rel < 0:
        return "before-window"
    if rel < m["n"]:
        return "in-window"
    return "dest+dmax" if rel == m["n"] else "dest+dmax+"


def o_C14(op, ob, before):
    m = op.meta
    e = m.get("exp")
    if e is None or not m.get("truthful"):
        return []
    fn, case = op.fn, e["case"]
    if ob.fault:
        loc = parse_loc(ob.fault[2:])
        return [Fail("C14", "%s:fault:%s:%s@%s" % (fn, case, ob.fault[0], locname(op, loc)), ob.fault)]
    out = []
    # 1. the token
    want = "null" if e["tok"] is None else ptr(0, e["tok"])
    if ob.ret != want:
        kind = "token-missed" if ob.ret == "null" else ("token-returned-where-none" if want == "null" else "wrong-token")
        out.append(Fail("C14", "%s:%s:%s" % (fn, kind, case), "got %s want %s" % (ob.ret, want)))
    # 2. the buffer: exactly the delimiter that ended the token becomes NUL, nothing else changes
    img, ref, old = ob.img[0], e["img"], before[0]
    for i, (x, y) in enumerate(zip(img, ref)):
        if x != y:
            if y != old[i]:
                out.append(Fail("C14", "%s:delimiter-not-overwritten:%s" % (fn, case), "R0+%d is %x" % (i, x)))
            elif _where(op, i) == "in-window":
                what = "delimiter" if old[i] in m["delim"] else "non-delimiter"
                out.append(Fail("C14", "%s:overwrites-%s:%s" % (fn, what, case), "R0+%d %x->%x" % (i, old[i], x)))
            else:
                out.append(Fail("C14", "%s:writes-outside-window:%s:%s" % (fn, case, _where(op, i)), "R0+%d %x->%x" % (i, old[i], x)))
            break
    # 3. the state handed back
    dv, pv = _outs(op, ob)
    if e["kind"] == "viol":
        if pv is not None and pv != m["slot"]:
            out.append(Fail("C14", "%s:violation-stores-ptr:%s" % (fn, m["violname"]), "*ptr %s -> %s" % (m["slot"], pv)))
        return out
    end = m["p"] + m["n"]
    if pv is not None:
        wantp = ptr(0, e["p"])
        if pv != wantp:
            kind = "ptr-not-stored" if pv == "_" else ("ptr-not-updated" if pv == m["slot"] else "wrong-ptr")
            out.append(Fail("C14", "%s:%s:%s" % (fn, kind, case), "*ptr=%s want %s" % (pv, wantp)))
        loc = parse_loc(pv)
        if dv is not None and loc is not None and loc[0] == 0 and loc[1] + int(dv) > end:
            out.append(Fail("C14", "%s:remaining-reaches-past-end:%s" % (fn, case), "*ptr=%s *dmaxp=%s end=R0+%d" % (pv, dv, end)))
    if dv is not None and int(dv) != e["n"]:
        out.append(Fail("C14", "%s:wrong-dmaxp:%s" % (fn, case), "*dmaxp=%s want %d" % (dv, e["n"])))
    return out


FAMILIES = {"tok": dict(gen=gen, annotate=annotate, props=["C01", "C02", "C05", "C14"],
                        oracles={"C05": o_C05, "C14": o_C14})}


def selftest(maxlen=6):
    """the call-by-call reference against an independent formulation (split the string at delimiters):
    same tokens in the same order, *ptr + *dmaxp == END after every call, then NULL twice"""
    cnt = 0
    for L in range(maxlen + 1):
        for t in itertools.product(ALPHA, repeat=L):
            s = list(t)
            for delim in ([D1, D2], [D1], [D2], []):
                want, cur = [], []
                for c in s:
                    if c in delim:
                        if cur:
                            want.append(cur)
                        cur = []
                    else:
                        cur.append(c)
                if cur:
                    want.append(cur)
                for extra in (0, 2):
                    img, p, n, got = s + [0] + [X] * extra, 0, L + 1 + extra, []
                    end = n
                    for _ in range(L + 3):
                        e = ref_tok(img, p, n, delim)
                        assert e["kind"] != "viol" and e["p"] + e["n"] == end and e["n"] >= 1
                        img, p, n = e["img"], e["p"], e["n"]
                        if e["tok"] is None:
                            break
                        k = e["tok"]
                        got.append(img[k:img.index(0, k)])
                    assert got == want, (s, delim, got, want)
                    assert ref_tok(img, p, n, delim)["tok"] is None
                    cnt += 1
    return cnt


if __name__ == "__main__":
    import collections, sys, time
    print("selftest: %d histories agree with the split-at-delimiters formulation" % selftest())
    for tier in sys.argv[1:] or ["quick"]:
        t = time.time()
        ops = gen(random.Random(1000004), tier)
        c = collections.Counter((o.meta["part"], o.fn) for o in ops)
        print(tier, len(ops), "ops in %.1fs" % (time.time() - t))
        for part in ("small", "boundary", "random"):
            print("  %-8s %6d  %s" % (part, sum(v for (p, _), v in c.items() if p == part),
                                       {f: v for (p, f), v in sorted(c.items()) if p == part}))

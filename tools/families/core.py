"""copy and memory families (generators in gens.py, references in refs.py)"""
import gens, refs

def _ann_mem(op):
    {"memcpy": refs.annotate_memcpy, "memset": refs.annotate_memset, "memzero": refs.annotate_memzero}[op.meta["fam"]](op)


FAMILIES = {
    "copy_violprod": dict(gen=gens.gen_copy_violprod, annotate=refs.annotate_copy, props=["C01", "C03", "C04", "C05"]),
    "mem_violprod": dict(gen=gens.gen_mem_violprod, annotate=_ann_mem, props=["C01", "C04", "C05"]),
    "copy": dict(gen=lambda rng, tier: gens.gen_copy(rng, tier), annotate=refs.annotate_copy,
                 props=["C01", "C02", "C03", "C04", "C05", "C06", "C07", "C08"]),
    "memcpy": dict(gen=lambda rng, tier: gens.gen_memcpy(rng, tier), annotate=refs.annotate_memcpy,
                   props=["C01", "C02", "C04", "C05", "C06", "C07"]),
    "memset": dict(gen=lambda rng, tier: gens.gen_memset(rng, tier),
                   annotate=lambda op: (refs.annotate_memset if op.meta["fam"] == "memset" else refs.annotate_memzero)(op),
                   props=["C01", "C02", "C05", "C06", "C18"]),
}

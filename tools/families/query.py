"""query family: the read-only comparison and search functions (narrow)

    strcmp_s strcasecmp_s strcmpfld_s strprefix_s                 (compare)
    strstr_s strcasestr_s strpbrk_s strspn_s strcspn_s            (search with a second string + slen)
    strchr_s strrchr_s memchr_s memrchr_s                         (search for one character)
    memcmp_s memcmp16_s memcmp32_s                                (memory compare)

Feeds C02 (no read outside the declared extents), C05 (every violated documented constraint is
reported exactly once through the handler, with the code returned; ESNOTFND is benign) and C10
(on valid operands the result is what the standard counterpart computes within the first dmax
elements; the operands are never modified).

The reference (`annotate`) is written from the doc comments in /repo/src/ext{str,mem}/*.c and from
the standard function each entry point corresponds to -- not from the C bodies:

  function       standard counterpart, restricted to the declared cells
  strcmp_s       sign(strncmp(dest, src, dmax))                 on unsigned char
  strcasecmp_s   sign(strncasecmp(dest, src, dmax))             doc: "converting to uppercase"; POSIX: lowercase
  strcmpfld_s    sign(memcmp(dest, src, dmax))                  doc: "the null terminator does not stop the comparison"
  strprefix_s    strncmp(dest, src, strlen(src)) == 0 with the whole prefix inside dest's first dmax chars
  strstr_s       strstr(H, N)      H = dest up to its NUL or dmax, N = src up to its NUL or slen
  strcasestr_s   strcasestr(H, N)
  strpbrk_s      strpbrk(H, N)     N = the set
  strspn_s       strspn(H, N)      strcspn_s: strcspn(H, N)
  strchr_s       strchr(H, ch)     the terminator (if inside dmax) can be found
  strrchr_s      strrchr(H, ch)
  memchr_s       memchr(dest, ch, dmax)      memrchr_s: memrchr(dest, ch, dmax)
  memcmp*_s      sign(memcmp(dest, src, slen)) on unsigned elements; memcmp_s documents exactly -1/0/1

Every extent sits in its own region, flush against a guard page (`flush='r'`): dest's region is
exactly its dmax cells (terminated inside or an exact-fit unterminated array), a source's region
exactly min(slen, strlen+1) cells, so any read outside the declared extents faults.  "Padded"
variants put the same dmax in front of a longer object (no fault, but a result that depends on
cells behind dmax is a C10 failure).  The functions that scan backwards also get `flush='l'` cases.
"""
import itertools
from proto import Op, Region, ptr
from gens import (X, LIM, MEMLIM, cstr, bosarg, EOK, ESNULLP, ESZEROL, ESLEMAX, ESNOSPC, ESUNTERM, ESNOTFND,
                  EOVERFLOW)
import oracles
from oracles import Fail

CMP = ["strcmp_s", "strcasecmp_s", "strcmpfld_s", "strprefix_s"]
SRCH = ["strstr_s", "strcasestr_s", "strpbrk_s", "strspn_s", "strcspn_s"]
CHRS = ["strchr_s", "strrchr_s"]
CHRM = ["memchr_s", "memrchr_s"]
MCMP = {"memcmp_s": 1, "memcmp16_s": 2, "memcmp32_s": 4}
ALL = CMP + SRCH + CHRS + CHRM + list(MCMP)
WIDTH = dict({f: 1 for f in CMP + SRCH + CHRS + CHRM}, **MCMP)
# position of the out-parameter in the argument list (tools/fnspec.py); strprefix_s has none
OUTPOS = {"strcmp_s": 3, "strcasecmp_s": 3, "strcmpfld_s": 3, "strstr_s": 4, "strcasestr_s": 4, "strchr_s": 3,
          "strrchr_s": 3, "strpbrk_s": 4, "strspn_s": 4, "strcspn_s": 4, "memcmp_s": 4, "memcmp16_s": 4,
          "memcmp32_s": 4, "memchr_s": 3, "memrchr_s": 3}
HAS_SLEN = set(SRCH) | set(MCMP)
HAS_SBOS = set(SRCH) | set(MCMP) | {"strcmp_s"}
MEMFNS = set(CHRM) | set(MCMP)
Y = 0x59


def limit(fn):
    return MEMLIM[WIDTH[fn]] if fn in MEMFNS else LIM[1]


# ------------------------------------------------------------------ op builder
def args_for(fn, d, dmax, s, slen, ch, bos, sbos):
    w = WIDTH[fn]
    b, sb = bosarg(bos, w), bosarg(sbos, w)
    if fn == "strcmp_s":
        return [d, dmax, s, "_", b, sb]
    if fn in ("strcasecmp_s", "strcmpfld_s"):
        return [d, dmax, s, "_", b]
    if fn == "strprefix_s":
        return [d, dmax, s, b]
    if fn in SRCH or fn in MCMP:
        return [d, dmax, s, slen, "_", b, sb]
    return [d, dmax, ch, "_", b]          # the four character searches


def mk(fn, dcells, dmax, scells=None, slen=None, ch=None, bos=None, sbos=None, dnull=False, snull=False,
       doff=0, dflush="r", sflush="r", same=False, soff=0, early=False, tag=""):
    """dcells: the whole dest region (dest = cell doff of it); scells: the whole src region.
    `same`: src points into dest's region, `soff` cells behind dest (0: the same pointer)."""
    w = WIDTH[fn]
    regs = [Region(w, dcells, dflush)]
    has_src = fn not in CHRS and fn not in CHRM
    if has_src and not same:
        regs.append(Region(w, scells, sflush))
    dobj = len(dcells) - doff
    d = "null" if dnull else ptr(0, doff)
    s = None
    Rd = [] if dnull else [(0, doff, max(0, min(dmax, dobj)))]
    srd = 0
    if has_src:
        s = "null" if snull else (ptr(0, doff + soff) if same else ptr(1, 0))
        sc = dcells[doff + soff:] if same else scells
        sstr = cstr(sc)
        if fn in MCMP:
            srd = min(slen, len(sc))
        elif fn == "strcmpfld_s":
            srd = min(dmax, len(sc))
        elif slen is not None:
            srd = min(slen, len(sc) if sstr is None else len(sstr) + 1)
            if fn == "strstr_s" and slen == 0:
                srd = min(1, len(sc))     # "slen shall not be 0, when *src != 0": *src has to be looked at
        else:
            srd = len(sc) if sstr is None else len(sstr) + 1
        if not snull:
            Rd.append((0, doff + soff, srd) if same else (1, 0, srd))
    # are the caller's declarations true?
    truthful = dnull or (dmax <= dobj and (bos is None or bos <= dobj))
    if has_src and not snull:
        sc = dcells[doff + soff:] if same else scells
        if fn in MCMP:
            truthful = truthful and (slen <= len(sc) or slen > dmax)
        elif fn == "strcmpfld_s":
            truthful = truthful and dmax <= len(sc)
        elif slen is not None:
            truthful = truthful and (cstr(sc) is not None or slen <= len(sc))
        else:
            truthful = truthful and (cstr(sc) is not None or (sbos is not None and sbos == len(sc)))
        if sbos is not None:
            truthful = truthful and sbos <= len(sc)
    meta = dict(fam="query", fn=fn, w=w, dest=None if dnull else (0, doff), dmax=dmax, bos=bos, objsize=dobj,
                src=None if (not has_src or snull) else ((0, doff + soff) if same else (1, 0)), has_src=has_src,
                slen=slen, sbos=sbos, ch=ch, dcells=list(dcells[doff:]), scells=None if not has_src else
                list(dcells[doff + soff:] if same else scells), same=same and soff == 0, truthful=truthful,
                early=early, tag=tag)
    return Op(fn, regs, args_for(fn, d, dmax, s, slen, ch, bos, sbos), [], Rd, meta)


def dest_obj(D, dmax, pad=0, fill=X):
    """dest object for the string D under a declared dmax: the first dmax(+pad) cells of D, NUL, filler"""
    n = dmax + pad
    return (list(D) + [0] + [fill] * n)[:max(n, 1)]


def src_obj(S, slen=None):
    """src object: the string with its NUL, cut to the slen cells the caller declares"""
    full = list(S) + [0]
    if slen is None:
        return full
    return full[:max(1, min(slen, len(full)))]


def words(alpha, lo, hi):
    for n in range(lo, hi + 1):
        for t in itertools.product(alpha, repeat=n):
            yield list(t)


# ------------------------------------------------------------------ generator
A, B, C = 0x61, 0x62, 0x63
SPECIAL = [0x01, 0x41, 0x5A, 0x5F, 0x61, 0x7A, 0x7F, 0x80, 0xC9, 0xE9, 0xFF]
RALPHA = [0x61, 0x61, 0x62, 0x62, 0x41, 0x42, 0x5F, 0x7F, 0x80, 0xE9, 0xFF, 0x01]


def gen_cmp(rng, tier, ops):
    hi = 3 if tier == "quick" else 4
    for fn in CMP:
        if fn == "strcmpfld_s":
            # fields of equal length over {NUL, a, b}: every pair
            for n in range(1, hi + 1):
                for D in words([0, A, B], n, n):
                    for S in words([0, A, B], n, n):
                        ops.append(mk(fn, D, n, S, tag="small"))
            for D in words([A, B], 1, 2):               # dest object longer than the declared field
                for S in words([A, B], 1, 2):
                    if len(D) == len(S):
                        ops.append(mk(fn, D + [A, B], len(D), S + [B, A], tag="pad"))
        else:
            for D in words([A, B], 0, hi):
                for S in words([A, B], 0, hi):
                    for dmax in range(1, hi + 3):
                        ops.append(mk(fn, dest_obj(D, dmax), dmax, src_obj(S), tag="small"))
            for D in words([A, B], 1, 3):               # dmax in front of a longer string
                for S in words([A, B], 0, 3):
                    for dmax in range(1, len(D) + 1):
                        ops.append(mk(fn, dest_obj(D, dmax, pad=len(D) + 1 - dmax), dmax, src_obj(S), tag="pad"))
        # one deciding position over the byte classes: high bit, case, the characters between 'Z' and 'a'
        for x in SPECIAL:
            for y in SPECIAL:
                D, S = [A, x], [A, y]
                if fn == "strcmpfld_s":
                    ops.append(mk(fn, D + [0], 3, S + [0], tag="special"))
                    ops.append(mk(fn, D + [Y], 2, S + [X], tag="special-pad"))
                else:
                    ops.append(mk(fn, dest_obj(D, 3), 3, src_obj(S), tag="special"))
                    ops.append(mk(fn, dest_obj(D + [Y], 2, pad=2), 2, src_obj(S + [X]), tag="special-pad"))
    # strcmp_s: a source of known size without terminator (documented ESUNTERM)
    for D in words([A, B], 0, 3):
        for S in words([A, B], 1, 3):
            for dmax in range(1, 5):
                ops.append(mk("strcmp_s", dest_obj(D, dmax), dmax, list(S), sbos=len(S), tag="src-unterm"))
            ops.append(mk("strcmp_s", dest_obj(D, 4), 4, src_obj(S), sbos=len(S) + 1, tag="sbos"))


def gen_srch(rng, tier, ops):
    hi = 3 if tier == "quick" else 4
    for fn in SRCH:
        for D in words([A, B], 0, hi):
            for dmax in range(1, hi + 2):
                for S in words([A, B], 0, 2):
                    for slen in range(0, 4):
                        if slen == 0 and len(D) not in (0, 2):
                            continue            # slen == 0 is rejected whatever dest holds
                        ops.append(mk(fn, dest_obj(D, dmax), dmax, src_obj(S, slen), slen, tag="small"))
                        # the same declarations in front of larger objects: dest's string goes on (or ends)
                        # behind dmax, src keeps its tail and terminator behind slen -- nothing faults, the
                        # result must still be the one computed from the declared cells
                        if slen and (dmax <= len(D) or slen <= len(S)):
                            ops.append(mk(fn, dest_obj(D, dmax, pad=max(0, len(D) + 1 - dmax) + 1), dmax,
                                          list(S) + [0, X], slen, tag="roomy"))
        for D in words([A, B], 2, 3):                   # padded: the string goes on behind dmax
            for dmax in range(1, len(D)):
                for S in words([A, B], 1, 2):
                    for slen in (1, 2, 3):
                        ops.append(mk(fn, dest_obj(D, dmax, pad=len(D) + 1 - dmax), dmax, src_obj(S, slen), slen, tag="pad"))
        # a third letter, case and high-bit bytes
        for D in ([A, B, C], [C, A, B], [A, C, A, C, B], [0x41, 0x62, 0xE9], [0xE9, 0xC9, A], [A, A, B, A, A, C],
                  [0x5F, A, 0x7F], [B, B, B, A]):
            for S in ([C], [A, C], [C, B], [0x61, 0x42], [0xE9], [0xC9], [A, A, C], [B, A], [0x7F, 0x5F]):
                for slen in (1, len(S), len(S) + 1, len(D) + 2):
                    for dmax in (len(D), len(D) + 1):
                        ops.append(mk(fn, dest_obj(D, dmax), dmax, src_obj(S, slen), slen, tag="mixed"))
        # the same pointer for both operands (strstr_s documents it)
        for D in ([A], [A, B], []):
            ops.append(mk(fn, dest_obj(D, len(D) + 1), len(D) + 1, None, len(D) + 1, same=True, tag="same"))


def gen_chr(rng, tier, ops):
    hi = 4 if tier == "quick" else 5
    for fn in CHRS:
        for D in words([A, B], 0, hi):
            for dmax in range(1, hi + 3):
                for ch in (A, B, C, 0):
                    ops.append(mk(fn, dest_obj(D, dmax), dmax, ch=ch, tag="small"))
        for D in words([A, B], 1, 3):
            for dmax in range(1, len(D) + 1):
                for ch in (A, B, 0):
                    ops.append(mk(fn, dest_obj(D, dmax, pad=len(D) + 1 - dmax), dmax, ch=ch, tag="pad"))
        for D in ([A, 0xE9, B], [0xFF, A], [A, 0x80, 0x80]):
            for ch in (0xE9, 0xE9 - 256, 0xFF, -1, 0x80, -128, 0xE9 + 256, 256, 255, 1 << 20, -(1 << 20)):
                for dmax in (len(D), len(D) + 1):
                    ops.append(mk(fn, dest_obj(D, dmax), dmax, ch=ch, tag="chval"))
    for fn in CHRM:
        for Dm in words([0, A, B], 1, hi):
            for ch in (A, B, C, 0):
                ops.append(mk(fn, Dm, len(Dm), ch=ch, tag="small"))
        for Dm in words([0, A, B], 2, 3):
            for dmax in range(1, len(Dm)):
                for ch in (A, B, 0):
                    ops.append(mk(fn, Dm, dmax, ch=ch, tag="pad"))
        for Dm in ([A, 0xE9, B], [0xFF, A], [A, 0x80, 0x80]):
            for ch in (0xE9, 0xE9 - 256, 0xFF, -1, 0x80, -128, 0xE9 + 256, 256, 255, 1 << 20, -(1 << 20)):
                ops.append(mk(fn, Dm, len(Dm), ch=ch, tag="chval"))
    # the backward scanners with the buffer starting right after a guard page
    for fn in ("strrchr_s", "memrchr_s"):
        for D in words([A, B], 0, 3):
            for ch in (A, B, C, 0):
                if fn == "strrchr_s":
                    for dmax in (len(D), len(D) + 1, len(D) + 2):
                        if dmax:
                            ops.append(mk(fn, dest_obj(D, dmax), dmax, ch=ch, dflush="l", tag="flush-l"))
                elif D:
                    ops.append(mk(fn, D, len(D), ch=ch, dflush="l", tag="flush-l"))


def mvals(w):
    top = (1 << (8 * w)) - 1
    return [1, 2, (top >> 1) + 1, top]


def gen_mcmp(rng, tier, ops):
    for fn, w in MCMP.items():
        top = (1 << (8 * w)) - 1
        for D in words([1, 2], 1, 3):
            for S in words([1, 2], 1, 3):
                for slen in sorted({0, 1, len(S), len(S) + 1}):
                    ops.append(mk(fn, D, len(D), S, slen, tag="small"))
        for D in words([1, 2], 2, 3):                   # dmax smaller than dest's object
            for S in words([1, 2], 1, 2):
                ops.append(mk(fn, D, len(D) - 1, S, len(S), tag="pad"))
        vals = [0, 1, 2, (top >> 1), (top >> 1) + 1, (top >> 1) + 2, top - 1, top]
        for x in vals:
            for y in vals:
                ops.append(mk(fn, [7, x], 2, [7, y], 2, tag="special"))
                ops.append(mk(fn, [x, 9], 2, [y], 1, tag="special"))
        ops.append(mk(fn, [1, 2, 3], 3, None, 3, same=True, tag="same"))


def sweep_str(L, pos_special=None):
    return [0x61 + (i * 7) % 20 for i in range(L)]


def gen_boundary(rng, tier, ops):
    """lengths around the word / vector widths of the libc primitives, both alignments, and dmax at
    the documented limit"""
    lens = [7, 8, 9, 15, 16, 17, 31, 32, 33, 63, 64, 65] if tier == "quick" else list(range(1, 70)) + [127, 128, 129, 255, 256, 257]
    for L in lens:
        D = sweep_str(L)
        for fl in ("r", "l"):
            # terminated exactly at the end of the object / exact-fit unterminated array
            for dmax, cells in ((L + 1, D + [0]), (L, D)):
                for fn in CHRS:
                    for ch in (D[L // 2], D[-1], 0x7A, 0):
                        if fl == "l" and dmax == L and fn == "strchr_s":
                            continue    # an unterminated scan through four canary pages: slow, same defect
                        ops.append(mk(fn, cells, dmax, ch=ch, dflush=fl, tag="sweep"))
                for fn in CHRM:
                    for ch in (D[L // 2], D[0], D[-1], 0x7A):
                        ops.append(mk(fn, cells, dmax, ch=ch, dflush=fl, tag="sweep"))
            if fl == "l":
                continue
            S = D[L // 2:]
            for fn in ("strcmp_s", "strcasecmp_s", "strprefix_s"):
                ops.append(mk(fn, D + [0], L + 1, src_obj(D), tag="sweep"))
                ops.append(mk(fn, D + [0], L + 1, src_obj(D[:-1] + [D[-1] ^ 0x80]), tag="sweep"))
                ops.append(mk(fn, D + [0], L + 1, src_obj(D[:L // 2]), tag="sweep"))
                ops.append(mk(fn, D, L, src_obj(D), tag="sweep"))
            ops.append(mk("strcmpfld_s", D, L, D[:-1] + [D[-1] ^ 0x80], tag="sweep"))
            ops.append(mk("strcmpfld_s", D, L, D[:L // 2] + [0x7A] + D[L // 2 + 1:], tag="sweep"))
            for fn in ("strstr_s", "strcasestr_s"):
                for slen in (len(S), len(S) + 1, 2):
                    ops.append(mk(fn, D + [0], L + 1, src_obj(S, slen), slen, tag="sweep"))
                    ops.append(mk(fn, D, L, src_obj(S[:-1] + [0x7A], slen), slen, tag="sweep"))
            for fn in ("strpbrk_s", "strspn_s", "strcspn_s"):
                for S2 in ([0x7A, D[-1]], D[:4], [0x7A, 0x79]):
                    for slen in (len(S2), len(S2) + 1):
                        ops.append(mk(fn, D + [0], L + 1, src_obj(S2, slen), slen, tag="sweep"))
                        ops.append(mk(fn, D, L, src_obj(S2, slen), slen, tag="sweep"))
            for fn, w in MCMP.items():
                Dm = [(i * 5) % 250 + 1 for i in range(L)]
                ops.append(mk(fn, Dm, L, list(Dm), L, tag="sweep"))
                ops.append(mk(fn, Dm, L, Dm[:-1] + [Dm[-1] + 1], L, tag="sweep"))
                ops.append(mk(fn, Dm, L, Dm[:L // 2], L // 2, tag="sweep"))
    # dmax at / above the documented limit
    lim = LIM[1]
    big = [0x61 + (i % 23) for i in range(lim - 1)] + [0]
    for fn in CMP + SRCH + CHRS:
        if fn in CMP:
            src = big if fn == "strcmpfld_s" else src_obj([0x61, 0x62])
            ops.append(mk(fn, big, lim, src, tag="limit"))
        elif fn in SRCH:
            ops.append(mk(fn, big, lim, src_obj([0x61 + 22, 0x61], 2), 2, tag="limit"))
            ops.append(mk(fn, big, lim, src_obj([0x7A, 0x79], 2), 2, tag="limit"))
        else:
            ops.append(mk(fn, big, lim, ch=0x61 + 22, tag="limit"))
            ops.append(mk(fn, big, lim, ch=0x7A, tag="limit"))
    # a KNOWN object larger than the limit, dmax inside it (truthful): helpers called with dmax must not report on their own
    bigger = [0x61 + (i % 23) for i in range(lim + 7)] + [0]
    for fn in CMP + SRCH + CHRS:
        kwb = dict(bos=lim + 8, tag="bigbos")
        if fn in CMP:
            ops.append(mk(fn, bigger, lim + 4, bigger if fn == "strcmpfld_s" else src_obj([0x61, 0x62]), **kwb))
        elif fn in SRCH:
            ops.append(mk(fn, bigger, lim + 4, src_obj([0x61 + 22, 0x61], 2), 2, **kwb))
        else:
            ops.append(mk(fn, bigger, lim + 4, ch=0x61 + 22, **kwb))
            ops.append(mk(fn, bigger, lim + 8, ch=0x7A, **kwb))
    for fn in CHRM:
        ops.append(mk(fn, big, lim, ch=0x61 + 22, tag="limit"))
        ops.append(mk(fn, big, lim, ch=0, tag="limit"))
    for fn, w in MCMP.items():
        n = 4096
        Dm = [(i % 251) + 1 for i in range(n)]
        ops.append(mk(fn, Dm, n, list(Dm), n, tag="limit"))
        ops.append(mk(fn, Dm, n, Dm[:-1] + [0], n, tag="limit"))


def gen_constraints(rng, tier, ops):
    """NULL, zero, over-limit, BOS unknown / exact / larger / smaller"""
    for fn in ALL:
        w = WIDTH[fn]
        lim = limit(fn)
        mem = fn in MEMFNS
        D = [1, 2, 3, 4] if fn in MCMP else [A, B, A, 0]
        D8 = D + ([5, 6, 7, 8] if fn in MCMP else [X, X, X, X])
        S = [1, 2] if fn in MCMP else ([A, B, A, 0] if fn == "strcmpfld_s" else [A, B, 0])
        kw = dict(scells=S, slen=2 if fn in HAS_SLEN else None, ch=B if fn in CHRS + CHRM else None)
        has_src = fn not in CHRS + CHRM
        ops.append(mk(fn, D, 4, dnull=True, tag="null", **kw))
        if has_src:
            ops.append(mk(fn, D, 4, snull=True, tag="null", **kw))
            ops.append(mk(fn, D, 4, dnull=True, snull=True, tag="null", **kw))
        ops.append(mk(fn, D, 0, tag="zero", **kw))
        ops.append(mk(fn, D, 0, dnull=True, tag="zero", **kw))
        # the object size known: exact, larger than dmax, smaller than dmax
        for dmax, bos in ((4, 4), (4, 8), (8, 8), (2, 8), (9, 8), (5, 4), (lim + 1, 8)):
            ops.append(mk(fn, D8, dmax, bos=bos, tag="bos", **kw))
        ops.append(mk(fn, D8, lim + 1, tag="limit+1", **kw))
        # over the limit, size unknown, dest AT the guard page: any touch before the rejection faults
        o = mk(fn, D[:1], lim + 1, doff=1, early=True, tag="early", **kw)
        ops.append(o)
        if fn in HAS_SLEN:
            k2 = dict(kw)
            for slen in (0, lim, lim + 1, 1 << 40):
                k2["slen"] = slen
                ops.append(mk(fn, D, 4, tag="slen", **k2))
            # empty source string with slen 0 (strstr_s documents it as allowed)
            if fn in SRCH:
                ops.append(mk(fn, D, 4, [0], 0, tag="slen0-empty"))
                ops.append(mk(fn, D, 4, [0], 1, tag="empty-src"))
            for slen, sbos in ((2, 2), (2, 3), (3, 2), (1, 2), (lim + 1, 2)):
                k2["slen"] = slen
                ops.append(mk(fn, D, 4, sbos=sbos, tag="sbos", **k2))
                ops.append(mk(fn, D8, 4, bos=8, sbos=sbos, tag="sbos+bos", **k2))
        if has_src and fn in HAS_SLEN:
            # src == dest: a shortcut for identical pointers must not skip (or reorder past) the size checks
            for slen in (0, 3, 5, lim, lim + 1, 1 << 40):
                ops.append(mk(fn, D, 4, None, slen, same=True, tag="same+slen"))
                for sbos in (2, 8):
                    if slen in (5, lim) and fn not in MCMP:
                        continue     # slen > dmax has its own documented answer in the searches; keep one violation per case
                    ops.append(mk(fn, D, 4, None, slen, same=True, sbos=sbos, tag="same+sbos"))
            ops.append(mk(fn, D8, 9, None, 2, same=True, bos=8, tag="same+bos"))
        if fn in MCMP:
            # the documented limit is in elements; the objects cannot be that large here (declarations untruthful)
            for dlen in (lim // 2, lim // 2 + 1, lim, lim + 1):
                ops.append(mk(fn, D, dlen, S, 2, tag="biglen"))
                ops.append(mk(fn, D, dlen, [1, 3], 2, tag="biglen"))
            for dlen in (1 << 30, 1 << 32, (1 << 62) + 1):
                ops.append(mk(fn, D, dlen, S, 2, bos=4, tag="hugelen-bos"))
                ops.append(mk(fn, D, dlen, S, 2, tag="hugelen"))
            ops.append(mk(fn, D, 4, S, (1 << 30) + 1, sbos=2, tag="hugeslen-sbos"))
            ops.append(mk(fn, D, 4, S, (1 << 62) + 1, sbos=2, tag="hugeslen-sbos"))
        if fn in CHRS + CHRM:
            for ch in (256, 255, -1, 0x161, 0):
                ops.append(mk(fn, D, 4, ch=ch, tag="ch"))
        if has_src and fn != "strcmpfld_s":
            # the source lies inside dest's object (read-only functions: no overlap constraint documented)
            arena = [1, 2, 1, 2, 3] if fn in MCMP else [A, B, A, B, 0]
            for so in (1, 2, 3):
                k3 = dict(slen=2 if fn in HAS_SLEN else None)
                ops.append(mk(fn, arena, 5, same=True, soff=so, tag="inside", **k3))
        if fn in (("strchr_s",) if tier == "quick" else ("strchr_s", "strstr_s", "strrchr_s")):
            # an exact-fit unterminated array at the START of the mapped window: the unbounded libc
            # scans (strchr; strlen when slen > dmax) run through every canary byte up to the far guard page
            if fn == "strstr_s":
                ops.append(mk(fn, [A, B, A], 3, [C, C, C, C, 0], 5, dflush="l", tag="longscan"))
            else:
                ops.append(mk(fn, [A, B, A], 3, ch=0x7A, dflush="l", tag="longscan"))
        if fn in ("memchr_s", "memrchr_s"):
            # declared dmax one past the object (untruthful): the primitive runs into the guard page
            ops.append(mk(fn, [A, B, A], 4, ch=C, tag="over"))


def rstring(rng, n, alpha=RALPHA):
    return [rng.choice(alpha) for _ in range(n)]


def gen_random(rng, tier, ops):
    n = 150 if tier == "quick" else 3000
    for fn in ALL:
        w = WIDTH[fn]
        for _ in range(n):
            if fn in MCMP:
                L = rng.choice([rng.randint(1, 8), rng.randint(1, 80)])
                D = [rng.choice(mvals(w)) for _ in range(L)]
                Sfull = list(D)
                if rng.random() < 0.7:
                    Sfull[rng.randrange(L)] = rng.choice(mvals(w))
                slen = rng.choice([L, rng.randint(1, L), rng.randint(1, L)])
                ops.append(mk(fn, D, L, Sfull[:slen], slen, tag="random"))
                continue
            L = rng.choice([rng.randint(0, 6), rng.randint(0, 40)])
            D = rstring(rng, L)
            dmax = max(1, rng.choice([L + 1, L + 1, L, L + rng.randint(2, 5), rng.randint(1, L + 1)]))
            pad = rng.choice([0, 0, 0, max(0, L + 1 - dmax)])
            fl = "l" if (fn in ("strrchr_s", "memrchr_s") and rng.random() < 0.3) else "r"
            if fn in CHRM:
                Dm = [rng.choice(RALPHA + [0, 0]) for _ in range(max(1, L))]
                dm = rng.choice([len(Dm), len(Dm), rng.randint(1, len(Dm))])
                ops.append(mk(fn, Dm, dm, ch=rng.choice(Dm + [0x63, 0]), dflush=fl, tag="random"))
            elif fn in CHRS:
                if fl == "l":
                    pad = 0
                ops.append(mk(fn, dest_obj(D, dmax, pad), dmax, ch=rng.choice(D + [0x63, 0, 0xE9 - 256]), dflush=fl,
                              tag="random"))
            elif fn == "strcmpfld_s":
                Df = [rng.choice(RALPHA + [0]) for _ in range(max(1, L))]
                Sf = list(Df)
                if rng.random() < 0.7:
                    Sf[rng.randrange(len(Sf))] = rng.choice(RALPHA + [0])
                ops.append(mk(fn, Df, len(Df), Sf, tag="random"))
            elif fn in CMP:
                S = list(D)
                r = rng.random()
                if r < 0.4 and S:
                    S[rng.randrange(len(S))] = rng.choice(RALPHA)
                elif r < 0.6:
                    S = S[:rng.randint(0, len(S))]
                elif r < 0.8:
                    S = S + rstring(rng, rng.randint(1, 3))
                if fn == "strcasecmp_s" and rng.random() < 0.5:
                    S = [c ^ 0x20 if (0x41 <= (c & 0xDF) <= 0x5A and c < 0x80) else c for c in S]
                ops.append(mk(fn, dest_obj(D, dmax, pad), dmax, src_obj(S), tag="random"))
            else:
                if fn in ("strstr_s", "strcasestr_s"):
                    if D and rng.random() < 0.7:
                        i = rng.randrange(len(D))
                        S = D[i:i + rng.randint(1, 4)]
                        if rng.random() < 0.3:
                            S = S + [rng.choice(RALPHA)]
                        if fn == "strcasestr_s" and rng.random() < 0.5:
                            S = [c ^ 0x20 if (0x41 <= (c & 0xDF) <= 0x5A and c < 0x80) else c for c in S]
                    else:
                        S = rstring(rng, rng.randint(0, 3))
                else:
                    S = rstring(rng, rng.randint(0, 4))
                slen = rng.choice([len(S), len(S) + 1, max(1, len(S) - 1), rng.randint(1, 6)])
                ops.append(mk(fn, dest_obj(D, dmax, pad), dmax, src_obj(S, slen), slen, tag="random"))


def gen(rng, tier):
    ops = []
    gen_cmp(rng, tier, ops)
    gen_srch(rng, tier, ops)
    gen_chr(rng, tier, ops)
    gen_mcmp(rng, tier, ops)
    gen_boundary(rng, tier, ops)
    gen_constraints(rng, tier, ops)
    gen_random(rng, tier, ops)
    return ops


def tiers(rng, tier):
    """number of ops per generator stage (for the report)"""
    out = {}
    for name, g in (("small-scope exhaustive (cmp)", gen_cmp), ("small-scope exhaustive (search)", gen_srch),
                    ("small-scope exhaustive (chr)", gen_chr), ("small-scope exhaustive (memcmp)", gen_mcmp),
                    ("boundary sweep", gen_boundary), ("constraints / BOS / limits", gen_constraints),
                    ("seeded random", gen_random)):
        ops = []
        g(rng, tier, ops)
        out[name] = len(ops)
    return out


# ------------------------------------------------------------------ reference semantics
def up(c):
    return c - 32 if 0x61 <= c <= 0x7A else c


def lo(c):
    return c + 32 if 0x41 <= c <= 0x5A else c


def sgn(x):
    return (x > 0) - (x < 0)


def bounded(cells, n):
    """the string the first n cells hold: (characters, terminated inside n?)"""
    h = list(cells[:n])
    if 0 in h:
        return h[:h.index(0)], True
    return h, False


def ref_strncmp(D, S, n, key):
    """sign(strncmp(D, S, n)) on unsigned char under `key`; S is a terminated string.
    ('unterm', i) if S's cells run out at i before a decision; ('cut', alt) if all n characters of
    dest are equal to src's and dest has no terminator inside n: strncmp says 0, comparing the
    n-character string dest holds with a longer src says `alt` = -1 (0 if src ends there too)"""
    for i in range(n):
        if i >= len(S):
            return ("unterm", i)
        a, b = D[i], S[i]
        if key(a) != key(b):
            return sgn(key(a) - key(b))
        if a == 0:
            return 0
    if n < len(S) and S[n] != 0:
        return ("cut", -1)
    return 0


def find_sub(H, N, key=lambda c: c):
    if not N:
        return 0
    Hk, Nk = [key(c) for c in H], [key(c) for c in N]
    for i in range(0, len(H) - len(N) + 1):
        if Hk[i:i + len(N)] == Nk:
            return i
    return None


def annotate(op):
    m = op.meta
    fn, w = m["fn"], m["w"]
    lim = limit(fn)
    mem = fn in MEMFNS
    m.update(producing=False, clears=False, slackdoc=False, hkind="M" if mem else "S", retkind="e", limit=lim,
             benign=(ESNOTFND,), outpos=OUTPOS.get(fn))
    dmax, slen, bos, sbos, ch = m["dmax"], m["slen"], m["bos"], m["sbos"], m["ch"]
    viol, opt, names = set(), set(), []
    if m["dest"] is None:
        viol.add(ESNULLP); names.append("dest-null")
    if m["has_src"] and m["src"] is None:
        viol.add(ESNULLP); names.append("src-null")
    if dmax == 0:
        viol.add(ESZEROL); names.append("dmax-zero")
    if dmax > lim:
        if bos is not None and dmax <= bos and not mem:
            # a known object that really is that large: CHK_DEST_OVR lets it through by design; rejecting it with
            # the documented ESLEMAX is acceptable too — but whatever happens must be reported consistently
            opt.add(ESLEMAX); names.append("dmax-max-within-bos")
        else:
            viol.add(ESLEMAX); names.append("dmax-max")
    if bos is not None and dmax > bos:
        viol.add(EOVERFLOW); names.append("dmax-bos")
    if fn in HAS_SLEN:
        if slen == 0:
            # strstr_s: "slen shall not be 0, when *src != 0 and src != dest"
            allowed = fn == "strstr_s" and m["src"] is not None and (m["scells"][:1] == [0] or m["same"])
            if not allowed:
                viol.add(ESZEROL); names.append("slen-zero")
        if slen > lim:
            viol.add(ESLEMAX); names.append("slen-max")
        if sbos is not None and slen > sbos:
            viol.add(EOVERFLOW); names.append("slen-bos")
        if fn in MCMP and slen > dmax:
            viol.add(ESNOSPC); names.append("slen-dmax")     # "ESNOSPC when dlen < slen"
    if ch is not None and ch > 255:
        viol.add(ESLEMAX); names.append("ch")
    exp = None
    cls = []
    if not viol and m["truthful"]:
        D = m["dcells"]
        S = m["scells"]
        H, term = bounded(D, dmax)
        N = None
        if fn in SRCH:
            N, _ = bounded(S, slen)
            if slen > dmax:
                cls.append("slen>dmax")
            sfull = cstr(S)
            if sfull is None or slen < len(sfull):
                cls.append("slen-cuts")
        if not term and not mem and fn != "strcmpfld_s":
            cls.append("unterm")
        if fn == "strcmp_s" or fn == "strcasecmp_s":
            key_doc = up if fn == "strcasecmp_s" else (lambda c: c)
            r = ref_strncmp(D, S, dmax, key_doc)
            if cstr(S) is None:
                opt.add(ESUNTERM)          # documented: "ESUNTERM when src is unterminated" (known size)
            if isinstance(r, tuple) and r[0] == "unterm":
                # the source has no terminator inside its known size and the comparison gets there
                viol.add(ESUNTERM); names.append("src-unterm")
            else:
                # ('cut', alt): dest has no terminator inside dmax and src goes on: two defensible readings
                exp = dict(kind="sign", val=0, alt=r[1]) if isinstance(r, tuple) else dict(kind="sign", val=r)
                if fn == "strcasecmp_s":
                    rp = ref_strncmp(D, S, dmax, lo)
                    exp["posix"] = 0 if isinstance(rp, tuple) else rp
                # the deciding pair
                for i in range(dmax):
                    if i < len(S) and (key_doc(D[i]) != key_doc(S[i]) or D[i] == 0):
                        if D[i] >= 0x80 or S[i] >= 0x80:
                            cls.insert(0, "highbit")
                        break
        elif fn == "strcmpfld_s":
            a, b = D[:dmax], S[:dmax]
            r = 0
            for x, y in zip(a, b):
                if x != y:
                    r = sgn(x - y)
                    if x >= 0x80 or y >= 0x80:
                        cls.insert(0, "highbit")
                    break
            exp = dict(kind="sign", val=r)
            if r == 0:
                cls.append("equal")
        elif fn == "strprefix_s":
            P = cstr(S)
            found = len(P) <= len(H) and H[:len(P)] == P
            exp = dict(kind="bool", val=found)
            if not P:
                cls.insert(0, "empty-prefix")
        elif fn == "strstr_s":
            exp = dict(kind="ptr", val=find_sub(H, N))
        elif fn == "strcasestr_s":
            exp = dict(kind="ptr", val=find_sub(H, N, up))
        elif fn == "strpbrk_s":
            exp = dict(kind="ptr", val=next((i for i, c in enumerate(H) if c in N), None))
        elif fn == "strspn_s":
            exp = dict(kind="count", val=next((i for i, c in enumerate(H) if c not in N), len(H)))
        elif fn == "strcspn_s":
            exp = dict(kind="count", val=next((i for i, c in enumerate(H) if c in N), len(H)))
        elif fn in ("strchr_s", "strrchr_s"):
            c = ch & 0xFF
            hay = H + ([0] if term else [])       # the terminator is part of the string
            idx = [i for i, x in enumerate(hay) if x == c]
            exp = dict(kind="ptr", val=(idx[0] if fn == "strchr_s" else idx[-1]) if idx else None)
            if fn == "strrchr_s" and not H:
                # documented: "ESZEROL when dmax = 0 or strnlen_s = 0"
                opt.add(ESZEROL); names.append("dest-empty")
                cls.insert(0, "empty")
        elif fn in ("memchr_s", "memrchr_s"):
            c = ch & 0xFF
            idx = [i for i, x in enumerate(D[:dmax]) if x == c]
            exp = dict(kind="ptr", val=(idx[0] if fn == "memchr_s" else idx[-1]) if idx else None)
        elif fn in MCMP:
            r = 0
            for x, y in zip(D[:slen], S[:slen]):
                if x != y:
                    r = sgn(x - y)
                    if (x ^ y) >> (8 * w - 1):
                        cls.insert(0, "highbit")
                    break
            exp = dict(kind="sign", val=r, exact=(fn == "memcmp_s"))
    m.update(viol=viol, viol_opt=opt, violname="+".join(names), exp=exp, cls=cls)


# ------------------------------------------------------------------ C10
def o_C10(op, ob, before):
    m = op.meta
    fn = op.fn
    out = []
    if ob.fault:
        return out                 # a faulting read is C02's finding
    code = ob.reti()
    # the operands are never modified, whatever the outcome
    for k, cells in ob.img.items():
        if cells != before[k]:
            i = next(i for i, (a, b) in enumerate(zip(before[k], cells)) if a != b)
            out.append(Fail("C10", "%s:operand-modified:ret=%s@%s" % (fn, code, oracles.locname(op, (k, i))),
                            "R%d+%d %x->%x" % (k, i, before[k][i], cells[i])))
            break
    if ob.can != "ok":
        out.append(Fail("C10", "%s:write-outside-operands" % fn, ob.can))
    exp = m.get("exp")
    if exp is None or m.get("viol") or not m.get("truthful"):
        return out
    cls = (m.get("cls") or ["plain"])[0]
    if code not in (EOK, ESNOTFND):
        if code in m.get("viol_opt", ()):
            if fn == "strrchr_s" and code == ESZEROL and (exp["val"] is not None):
                out.append(Fail("C10", "%s:error-on-valid-operands:ret=%s:%s" % (fn, code, cls),
                                "standard result: found at %s" % exp["val"]))
            return out
        out.append(Fail("C10", "%s:error-on-valid-operands:ret=%s:%s" % (fn, code, cls), "ev=%s" % ob.ev))
        return out
    pos = m.get("outpos")
    got = ob.outs[pos] if pos is not None and pos < len(ob.outs) else None
    kind = exp["kind"]
    if kind == "sign":
        if code != EOK:
            out.append(Fail("C10", "%s:not-found-code-from-compare:ret=%s" % (fn, code), ""))
            return out
        g = int(got)
        want = exp["val"]
        ok = (g == want) if exp.get("exact") else (sgn(g) == want or sgn(g) == exp.get("alt", want))
        if not ok:
            out.append(Fail("C10", "%s:wrong-sign:%s" % (fn, cls), "got %d want sign %d" % (g, want)))
        elif "posix" in exp and "alt" not in exp and sgn(g) != exp["posix"]:
            out.append(Fail("C10", "%s:sign-vs-posix-tolower" % fn,
                            "got %d (documented uppercase folding); strcasecmp folds to lowercase: %d" % (g, exp["posix"])))
    elif kind == "bool":
        found = code == EOK
        if found != exp["val"]:
            out.append(Fail("C10", "%s:%s:%s" % (fn, "found-but-absent" if found else "absent-but-present", cls), "ret=%s" % code))
    elif kind == "ptr":
        want = exp["val"]
        k, off = m["dest"]
        if want is None:
            if code != ESNOTFND or got != "null":
                out.append(Fail("C10", "%s:found-but-absent:%s" % (fn, cls), "ret=%s ptr=%s" % (code, got)))
        else:
            wp = ptr(k, off + want)
            if code == ESNOTFND:
                out.append(Fail("C10", "%s:absent-but-present:%s" % (fn, cls), "want %s got ret=%s ptr=%s" % (wp, code, got)))
            elif got != wp:
                out.append(Fail("C10", "%s:wrong-position:%s" % (fn, cls), "want %s got %s" % (wp, got)))
    elif kind == "count":
        if code != EOK or int(got) != exp["val"]:
            out.append(Fail("C10", "%s:wrong-count:%s" % (fn, cls), "want %d got ret=%s count=%s" % (exp["val"], code, got)))
    return out


FAMILIES = {
    "query": dict(gen=gen, annotate=annotate, props=["C02", "C05", "C10"],
                  oracles={"C10": o_C10, "C05": oracles.o_C05_early}, tiers=tiers),
}

"""C18, value/extent half: the erase entry points

  memset_s memset16_s memset32_s memzero_s memzero16_s memzero32_s (src/mem, src/extmem)    strzero_s (src/extstr)

Reference (from the doc comments and C11 K.3.7.4.1, NOT from the C bodies):
  memset_s(dest, dmax, value, n)   "Sets the first n bytes starting at dest to the specified value"; EOK "when operation is
                                   successful or n = 0".  value is converted to unsigned char.  On a violation with dest
                                   non-null and dmax usable the first dmax bytes are set; nothing else is ever written.
  memset16_s / memset32_s          the same on uint16_t / uint32_t elements (dmax in bytes, n in elements).
  memzero_s / 16 / 32 (dest, len)  "Zeros len bytes / elements starting at dest"; "If there is a runtime constraint, the
                                   operation is not performed."
  strzero_s(dest, dmax)            "Nulls maximal dmax characters of dest ... until the terminating NULL character. With
                                   SAFECLIB_STR_NULL_SLACK defined all elements following the terminating NUL character
                                   (if any) written in the array of dmax characters pointed to by dest are nulled."
C18: after a SUCCESSFUL return exactly the addressed cells hold the fill value, and no other byte the harness can see
(the whole object, its pads, the canaries of the 4 mapped pages) has changed.

Generator: every n <= 160 x every start alignment 0..15 (the object is placed so that dest's ADDRESS has that residue
mod 16 cells: the 8-byte prologue / 128-byte blocks / qword chain / byte tail of mem_prim_set are all reached) x fill values,
on dirty buffers whose bytes differ from the fill value, flush against a guard page on the right (overrun) and on the left
(underrun); plus the corner cases of the mem and inplace families (NULL, zero, limits, object sizes, wrap-around counts).
"""
import gens, refs
from gens import MEMSET_FNS, MEMZERO_FNS, MEMLIM, X
from proto import Op, Region, ptr
from oracles import Fail
import families.inplace as inplace
import families.mem as memfam

ERASE_FNS = [f for f, _ in MEMSET_FNS + MEMZERO_FNS] + ["strzero_s"]
VALUES = {1: (0, 1, 0x7F, 0x80, 0xFF), 2: (0, 1, 0x7FFF, 0x8000, 0xFFFF), 4: (0, 1, 0x7FFFFFFF, 0x80000000, 0xFFFFFFFF)}


def dirty(n, w, avoid, base=3):
    """n cells none of which equals `avoid` (nor 0)"""
    top = (1 << (8 * w)) - 1
    out = []
    for i in range(n):
        c = ((base + i * 11) % 251 + 1) * (0x0101010101 & top if w > 1 else 1) & top
        if c == avoid or c == 0:
            c ^= 0x55
        out.append(c)
    return out


def place(fn, w, n, a, v, kind, flush, extra_dmax=0, bos=False):
    """one erase call whose dest address is `a` cells past a 16-cell boundary"""
    if flush == "r":
        t = (-n - a) % 16                      # pad cells behind the erased range: region END is page aligned
        pre = 2
    else:
        t = 2                                  # region START is page aligned
        pre = a
    obj = dirty(pre + n + t, w, v, base=n + a)
    dmax = n + min(t, extra_dmax)
    o = gens.mk_memset(fn, w, obj, pre, dmax, v, n, bos=(n + t) if bos else None, kind=kind)
    o.regions[0].flush = flush
    o.meta["align"] = a
    o.meta["flush"] = flush
    return o


def gen_sweep(rng, tier):
    ops = []
    quick = tier == "quick"
    ns = list(range(0, 161))
    for fn, w in MEMSET_FNS:
        for n in ns:
            for a in range(16):
                vals = VALUES[w] if (not quick or a in (0, 1, 7, 8)) else (VALUES[w][0], VALUES[w][4 - (a % 3)])
                for v in vals:
                    ops.append(place(fn, w, n, a, v, "memset", "r", extra_dmax=2 if a % 2 else 0))
                if a in (0, 1, 3, 8, 9) or not quick:
                    ops.append(place(fn, w, n, a, VALUES[w][(n + a) % 5], "memset", "l"))
                if a in (0, 5) and n % 3 == 0:
                    ops.append(place(fn, w, n, a, VALUES[w][(n + a) % 5], "memset", "r", extra_dmax=1, bos=True))
    for fn, w in MEMZERO_FNS:
        for n in ns:
            for a in range(16):
                if n == 0 and a:
                    continue
                ops.append(place(fn, w, n, a, 0, "memzero", "r"))
                if a in (0, 1, 3, 8, 9) or not quick:
                    ops.append(place(fn, w, n, a, 0, "memzero", "l"))
                if a in (0, 5) and n % 3 == 0 and n:
                    ops.append(place(fn, w, n, a, 0, "memzero", "r", bos=True))
    # larger blocks: several passes through the 16-way unrolled body
    for fn, w in MEMSET_FNS + MEMZERO_FNS:
        kind = "memset" if (fn, w) in MEMSET_FNS else "memzero"
        for n in (255, 256, 257, 511, 1000, 1024, 2049, 4000):
            for a in (0, 1, 7, 9):
                if (n + 20) * w > 4 * 4096 - 64:
                    continue
                ops.append(place(fn, w, n, a, 0 if kind == "memzero" else VALUES[w][(n + a) % 5], kind, "r"))
    # seeded random
    for _ in range(300 if quick else 5000):
        fn, w = rng.choice(MEMSET_FNS + MEMZERO_FNS)
        kind = "memset" if (fn, w) in MEMSET_FNS else "memzero"
        n = rng.choice([rng.randint(0, 40), rng.randint(100, 700), rng.randint(0, 2000)])
        if kind == "memzero":
            n = max(n, 1)
        v = 0 if kind == "memzero" else rng.choice([rng.choice(VALUES[w]), rng.randrange(1 << (8 * w))])
        ops.append(place(fn, w, n, rng.randrange(16), v, kind, rng.choice("rrl"), extra_dmax=rng.choice([0, 1, 2]),
                         bos=rng.random() < 0.2))
    return ops


def gen_strzero(rng, tier):
    ops = inplace.gen_fn("strzero_s", rng, tier)
    quick = tier == "quick"
    # string length x dmax x alignment: the libc memset of the slack block at every alignment and size
    for dmax in list(range(1, 41)) + [63, 64, 65, 127, 128, 129, 160]:
        Ls = sorted({0, 1, dmax // 2, dmax - 1, dmax} if quick else set(range(0, dmax + 1)))
        for L in Ls:
            for a in (0, 1, 3, 8, 15) if quick else range(16):
                t = (-dmax - a) % 16
                body = [0x61 + (i % 26) for i in range(L)]
                cells = [X, X] + (body + ([0] if L < dmax else []) + [0x59] * dmax)[:dmax] + [0x5A] * t
                ops.append(inplace.mk("strzero_s", cells, dmax, doff=2, tag="erase-sweep"))
    return ops


def gen(rng, tier):
    ops = gen_sweep(rng, tier)
    # corner cases of the memory family restricted to the erase functions
    ops += gens.gen_memset(rng, "quick")
    ops += [o for o in memfam.gen_mem_extras(rng, tier) if o.fn in ERASE_FNS]
    ops += gen_strzero(rng, tier)
    for o in ops:
        o.meta["efam"] = "erase"
    return ops


def annotate(op):
    fam = op.meta.get("fam")
    if fam == "inplace":
        inplace.annotate(op)
    else:
        memfam.annotate_mem(op)


# ------------------------------------------------------------------ the property oracle
def _cells_bytes(cells, w):
    return cells


def expected_range(op):
    """(first cell, count, value) the documentation says a SUCCESSFUL call fills - or None when the call has no business
    succeeding / the declarations are untrue"""
    m = op.meta
    if m.get("dest") is None:
        return None
    k, off = m["dest"]
    w = m["w"]
    mask = (1 << (8 * w)) - 1
    fam = m.get("fam")
    if fam == "memset":
        v = m["value"]
        return (k, off, m["n"], v & mask)
    if fam == "memzero":
        return (k, off, m["dmax"], 0)
    if fam == "inplace":
        prior = m["prior"][:m["dmax"]]
        L = prior.index(0) if 0 in prior else len(prior)
        return (k, off, m["dmax"] if m.get("slack", 1) else L, 0)
    return None


def o_C18(op, ob, before):
    m = op.meta
    if ob.fault or not m.get("truthful", True):
        return []
    out = []
    ret = ob.reti()
    exp = expected_range(op)
    if ret == 0:
        if exp is None:
            return [Fail("C18", "%s:success-without-object" % op.fn, "ret=0 with dest null")]
        k, off, cnt, v = exp
        objlen = len(op.regions[k].cells)
        if off + cnt > objlen:
            # success claimed for more cells than the object has (counts that wrap around): what can be seen must hold
            out.append(Fail("C18", "%s:success-beyond-object" % op.fn, "cnt=%d object=%d" % (cnt, objlen - off)))
            cnt = objlen - off
        for kk, cells in ob.img.items():
            b = before[kk]
            for i, (x, y) in enumerate(zip(b, cells)):
                inside = kk == k and off <= i < off + cnt
                if inside and y != v:
                    pos = "first" if i == off else "last" if i == off + cnt - 1 else "inner"
                    out.append(Fail("C18", "%s:not-erased:%s" % (op.fn, pos), "cell %d of %d holds %x want %x (align %s)" % (i - off, cnt, y, v, m.get("align"))))
                    return out
                if not inside and x != y:
                    side = "before" if (kk == k and i < off) else "after" if kk == k else "other-region"
                    out.append(Fail("C18", "%s:changed-outside:%s" % (op.fn, side), "R%d+%d %x->%x (n=%d)" % (kk, i, x, y, cnt)))
                    return out
        if ob.can != "ok":
            out.append(Fail("C18", "%s:changed-outside:canary" % op.fn, ob.can))
        if ob.ev:
            out.append(Fail("C18", "%s:handler-on-success" % op.fn, "ev=%s" % (ob.ev,)))
    else:
        # failure: "the operation is not performed" (memzero*, strzero_s); memset*: nothing, or the first dmax cells
        # (object size when known) are set; never anything outside the object
        if m.get("dest") is None:
            lo = hi = 0
            k = None
        else:
            k, off = m["dest"]
            w = m["w"]
            if m.get("fam") == "memset":
                cap = m["dmax"] if m.get("bos") is None else m["bos"]
                lo, hi = off, off + cap
            else:
                lo = hi = off
        for kk, cells in ob.img.items():
            b = before[kk]
            for i, (x, y) in enumerate(zip(b, cells)):
                if x != y and not (kk == k and lo <= i < hi):
                    out.append(Fail("C18", "%s:failed-call-modified:ret=%s" % (op.fn, ob.ret), "R%d+%d %x->%x" % (kk, i, x, y)))
                    return out
        if ob.can != "ok":
            out.append(Fail("C18", "%s:failed-call-modified:canary" % op.fn, ob.can))
    return out


def nontrivial(op, ob):
    """a call that succeeded and erased at least one cell"""
    e = expected_range(op)
    return (not ob.fault) and ob.reti() == 0 and e is not None and e[2] > 0


FAMILIES = {
    "erase": dict(gen=gen, annotate=annotate, props=["C18"], oracles={"C18": o_C18}),
}

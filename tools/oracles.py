"""Property oracles: the executable form of each property's conclusion, evaluated directly on
what the *implementation* did (independent of the Lean model).  Each returns a list of
Fail(prop, sig, detail); `sig` is seed-stable (function + failure kind + relative location) and is
what known_findings.jsonl is keyed on.
"""
from collections import namedtuple
from gens import *
from proto import parse_img

Fail = namedtuple("Fail", "prop sig detail")

STR_KIND_FAMS = {"copy", "query", "inplace", "tok", "strerror"}


class Obs:
    def __init__(self, d, op):
        self.d = d
        self.fault = d.get("fault")
        self.ret = d.get("ret")
        self.outs = d.get("o", "").split(",") if d.get("o") else []
        ev = d.get("ev", "")
        self.ev = [(e.split(":")[0], int(e.split(":")[1])) for e in ev.split(",") if e and e != "more"]
        self.img = parse_img(d.get("img", ""), {k: r.w for k, r in enumerate(op.regions)})
        self.can = d.get("can", "ok")

    def reti(self):
        try:
            return int(self.ret)
        except (TypeError, ValueError):
            return None


def parse_loc(s):
    """'R0+5' -> (0, 5); 'raw:..'/'null' -> None"""
    if s and s[0] == "R":
        i = 1
        while s[i].isdigit():
            i += 1
        return int(s[1:i]), int(s[i:])
    return None


def locname(op, loc):
    """seed-stable name of a cell relative to the declared extents"""
    if loc is None:
        return "wild"
    k, c = loc
    m = op.meta
    names = []
    d = m.get("dest")
    if d and d[0] == k:
        rel = c - d[1]
        dm = min(m.get("dmax", 0), m.get("objsize", 1 << 60)) if m.get("objsize") is not None else m.get("dmax", 0)
        if rel < 0:
            names.append("dest-")
        elif rel < m.get("dmax", 0):
            names.append("dest[i]")
        elif rel == m.get("dmax", 0):
            names.append("dest+dmax")
        else:
            names.append("dest+dmax+")
    s = m.get("src")
    if s and s[0] == k and not names:
        rel = c - s[1]
        names.append("src-" if rel < 0 else "src+")
    for (ek, eo, el) in op.Rd:
        if ek == k and c == eo + el and not names:
            names.append("rd-end")
    return names[0] if names else "R%d" % k


def in_ext(exts, k, c):
    return any(ek == k and eo <= c < eo + el for (ek, eo, el) in exts)


def dest_cells(op, img):
    m = op.meta
    k, off = m["dest"]
    return img[k][off:off + m["dmax"]]


def usable_dest(m):
    """dest/dmax themselves usable: non-null, 0 < dmax <= limit, within the object"""
    if m.get("dest") is None or not m.get("truthful", True):
        return False
    lim = m.get("limit", LIM[m["w"]])
    if not (0 < m["dmax"] <= lim):
        return False
    if m.get("bos") is not None and m["dmax"] > m["bos"]:
        return False
    return True


# ------------------------------------------------------------------ generic oracles
def o_C01(op, ob, before):
    m = op.meta
    if not m.get("truthful", True):
        return []
    out = []
    if ob.fault and ob.fault.startswith("w:"):
        out.append(Fail("C01", "%s:wfault@%s" % (op.fn, locname(op, parse_loc(ob.fault[2:]))), ob.fault))
        return out
    if ob.can != "ok":
        out.append(Fail("C01", "%s:write@%s" % (op.fn, locname(op, parse_loc(ob.can[4:]))), ob.can))
    for k, cells in ob.img.items():
        b = before[k]
        for i, (x, y) in enumerate(zip(b, cells)):
            if x != y and not in_ext(op.W, k, i):
                out.append(Fail("C01", "%s:write@%s" % (op.fn, locname(op, (k, i))), "R%d+%d %x->%x" % (k, i, x, y)))
                break
    return out


def o_C02(op, ob, before):
    m = op.meta
    if not m.get("truthful", True):
        return []
    if ob.fault and ob.fault.startswith("r:"):
        return [Fail("C02", "%s:rfault@%s" % (op.fn, locname(op, parse_loc(ob.fault[2:]))), ob.fault)]
    return []


def o_C03(op, ob, before):
    m = op.meta
    if not m.get("producing") or ob.fault or not usable_dest(m) or m.get("noop"):
        return []
    after = dest_cells(op, ob.img)
    if 0 not in after:
        return [Fail("C03", "%s:unterminated:ret=%s" % (op.fn, retcode(op, ob)), "dest=%s ret=%s" % (after[:16], ob.ret))]
    return []


def failed(op, ob):
    """did the call report a runtime-constraint violation?"""
    m = op.meta
    rk = m.get("retkind", "e")
    if rk == "e":
        r = ob.reti()
        return r is not None and r != 0 and r not in m.get("benign", ())
    if rk == "perr":  # pointer return + *errp
        e = ob.outs[m["errpos"]] if ob.outs else "_"
        return e not in ("0", "_")
    return False


def retcode(op, ob):
    m = op.meta
    rk = m.get("retkind", "e")
    if rk == "e":
        return ob.reti()
    if rk == "perr":
        e = ob.outs[m["errpos"]] if ob.outs else "_"
        return None if e == "_" else int(e)
    return None


def o_C04(op, ob, before):
    m = op.meta
    if not m.get("clears") or ob.fault or not usable_dest(m) or not failed(op, ob):
        return []
    out = []
    code = retcode(op, ob)
    after = dest_cells(op, ob.img)
    k, off = m["dest"]
    prior = before[k][off:off + m["dmax"]]
    if after[0] != 0:
        out.append(Fail("C04", "%s:dest0-nonzero:ret=%s" % (op.fn, code), "dest=%s" % after[:16]))
    elif any(a != 0 and a != p for a, p in zip(after, prior)):
        out.append(Fail("C04", "%s:partial-result:ret=%s" % (op.fn, code), "dest=%s" % after[:16]))
    elif op.meta.get("slack", 1) and ((code in (ESNOSPC, ESOVRLP, ESUNTERM) and code not in m.get("entry_codes", ()))
                                      or m.get("src") is None) and any(after):
        out.append(Fail("C04", "%s:not-all-zero:ret=%s" % (op.fn, code), "dest=%s" % after[:16]))
    # a source that does not overlap dest is never modified by a failed call
    s = m.get("src")
    if s is not None:
        for (ek, eo, el) in op.Rd:
            if (ek, eo) == tuple(s):
                disjoint = ek != k or eo + el <= off or off + m["dmax"] <= eo
                if disjoint and ob.img[ek][eo:eo + el] != before[ek][eo:eo + el]:
                    out.append(Fail("C04", "%s:src-modified:ret=%s" % (op.fn, code), ""))
    return out


def o_C05(op, ob, before):
    """exactly one handler call, with the code returned, iff a constraint is violated"""
    m = op.meta
    if m.get("early") and ob.fault:
        return [Fail("C05", "%s:touched-before-rejecting" % op.fn, ob.fault)]
    if ob.fault or "viol" not in m:
        return []
    out = []
    code = retcode(op, ob)
    kind = m.get("hkind", "S")
    viol = m["viol"]
    if not viol and failed(op, ob) and code in m.get("viol_opt", ()):
        viol = {code}
    if viol:
        if not failed(op, ob):
            out.append(Fail("C05", "%s:violation-not-reported:%s" % (op.fn, m.get("violname", "")), "ret=%s ev=%s" % (ob.ret, ob.ev)))
        elif code not in viol:
            out.append(Fail("C05", "%s:wrong-code:%s:got=%s" % (op.fn, m.get("violname", ""), code), "want=%s" % sorted(viol)))
        if len(ob.ev) != 1:
            out.append(Fail("C05", "%s:handler-count=%d:%s" % (op.fn, len(ob.ev), m.get("violname", "")), "ev=%s" % ob.ev))
        elif ob.ev[0] != (kind, code):
            out.append(Fail("C05", "%s:handler-arg:%s" % (op.fn, m.get("violname", "")), "ev=%s ret=%s" % (ob.ev, code)))
    else:
        if failed(op, ob):
            out.append(Fail("C05", "%s:spurious-failure:ret=%s" % (op.fn, code), "ev=%s" % ob.ev))
        if ob.ev:
            out.append(Fail("C05", "%s:spurious-handler" % op.fn, "ev=%s ret=%s" % (ob.ev, ob.ret)))
    return out


def o_C05_early(op, ob, before):
    m = op.meta
    if m.get("early") and ob.fault:
        return [Fail("C05", "%s:touched-before-rejecting" % op.fn, ob.fault)]
    return []


def o_C06(op, ob, before):
    m = op.meta
    if ob.fault or "ref" not in m or not m.get("truthful", True):
        return []
    ref = m["ref"]
    out = []
    ok = not failed(op, ob) and (m.get("retkind", "e") != "perr" or ob.ret != "null")
    if ref.get("must_fail") and ok:
        out.append(Fail("C06", "%s:success-but-does-not-fit" % op.fn, "ret=%s" % ob.ret))
        return out
    if not ok or m.get("dest") is None:
        return out
    if "cells" in ref:  # exact expected prefix of dest
        k, off = m["dest"]
        got = ob.img[k][off:off + len(ref["cells"])]
        if got != ref["cells"]:
            i = next(i for i, (a, b) in enumerate(zip(got, ref["cells"])) if a != b)
            out.append(Fail("C06", "%s:wrong-result" % op.fn, "at %d got %x want %x" % (i, got[i], ref["cells"][i])))
    if "retptr" in ref and ob.ret != ref["retptr"]:
        out.append(Fail("C06", "%s:wrong-pointer" % op.fn, "got %s want %s" % (ob.ret, ref["retptr"])))
    return out


def o_C07(op, ob, before):
    m = op.meta
    if ob.fault or "ovl" not in m:
        return []
    ovl = m["ovl"]   # dict(disjoint=bool, must=bool, same=bool)
    out = []
    code = retcode(op, ob)
    if ovl["disjoint"] and code == ESOVRLP:
        out.append(Fail("C07", "%s:disjoint-rejected" % op.fn, ""))
    if ovl["must"] and code == EOK:
        out.append(Fail("C07", "%s:overlap-not-detected" % op.fn, ""))
    if ovl.get("moveok") and code == EOK and m.get("ref", {}).get("cells") is not None and m.get("dest") is not None:
        # the memmove family: for every placement exactly the bytes a copy through a temporary would produce
        k, off = m["dest"]
        want = m["ref"]["cells"]
        got = ob.img[k][off:off + len(want)]
        if got != want:
            i = next(i for i, (a, b) in enumerate(zip(got, want)) if a != b)
            out.append(Fail("C07", "%s:move-not-exact" % op.fn, "at %d got %x want %x" % (i, got[i], want[i])))
    if code == ESOVRLP and usable_dest(m):
        if any(dest_cells(op, ob.img)) and m.get("slack", 1):
            out.append(Fail("C07", "%s:overlap-dest-not-cleared" % op.fn, ""))
    if code == EOK and not ovl["disjoint"] and not ovl.get("same") and m.get("src") is not None and not ovl.get("moveok"):
        # accepted although the objects overlap: the source must have survived
        for (ek, eo, el) in op.Rd:
            if (ek, eo) == tuple(m["src"]):
                k, off = m["dest"]
                src_after = ob.img[ek][eo:eo + el]
                src_before = before[ek][eo:eo + el]
                res = m.get("ref", {}).get("cells")
                written = range(off, off + (len(res) if res else 0)) if ek == k else range(0)
                for i in range(el):
                    if (eo + i) not in written and src_after[i] != src_before[i]:
                        out.append(Fail("C07", "%s:source-corrupted-on-success" % op.fn, "src+%d" % i))
                        break
    return out


def o_C08(op, ob, before):
    m = op.meta
    if ob.fault or not m.get("slackdoc") or not usable_dest(m) or failed(op, ob) or m.get("noop"):
        return []
    if m.get("retkind") == "perr" and ob.ret == "null":
        return []
    if retcode(op, ob) in m.get("not_success", ()):      # a plain status that is no violation, but no success either (gets_s at EOF)
        return []
    after = dest_cells(op, ob.img)
    if m.get("slack", 1):
        if 0 in after:
            z = after.index(0)
            if any(after[z:]):
                i = next(i for i in range(z, len(after)) if after[i])
                return [Fail("C08", "%s:stale-after-terminator" % op.fn, "len=%d stale@%d dmax=%d" % (z, i, len(after)))]
    return []


GENERIC = {"C01": o_C01, "C02": o_C02, "C03": o_C03, "C04": o_C04, "C05": o_C05, "C06": o_C06, "C07": o_C07,
           "C08": o_C08}

"""C16: qsort_s sorts and bsearch_s finds, for every array and comparator.

  harness   harness/hsort.c: the real _qsort_s_chk / _bsearch_s_chk on arrays of exactly nmemb*size bytes placed flush against
            PROT_NONE pages (lay=R: end flush, lay=L: start flush); comparators written in C that check, before they
            dereference anything, that both arguments lie inside the array at multiples of size and that ctx is the caller's,
            and log every call (positions of both arguments).
  model     lean/SafeC/Models/Sort.lean (musl smoothsort at element-index level, two-word bit vector, ar[]/lp[] capacities,
            entry checks) run by the compiled driver on the same op line; compared on: out-of-bounds?, return code, handler
            events, number of comparator calls, the EXACT sequence of comparator calls, the final arrangement (every whole
            element where the model puts it), bsearch result / errno.
  pntz      harness/hpntz.c #includes src/misc/qsort_s.c, so the static helper pntz() is the compiler's: it is run on a fixed
            list of two-word vectors (one second bit at every distance 1..127, {1,1} {1,3} {1,0} {2,..} ...) and a seeded
            random stream, compared with the model's pntz for `current` (a difference is a correspondence break) and judged
            by the function's own contract (distance from bit 0 to the next set bit, 0 if none).  This is the function-level
            replay of the witness of Props/C16 qsort_safe_witness, whose whole-call version needs 5.5e13 elements.
  oracle    the property, written from its text and the doc comments (not from the model): multiset of whole elements
            preserved, adjacent keys ordered under a consistent comparator, every comparator argument in range / aligned /
            right ctx, nothing outside the array touched, termination, documented return codes with exactly one handler
            call; bsearch_s on an array sorted w.r.t. the key: found iff present (linear scan), returned element equal,
            at most ceil(log2 n)+1 probes, array untouched.
"""
import os, sys, json, random, time, re, itertools, math, hashlib
from concurrent.futures import ThreadPoolExecutor
import orch, buildlib, proto, mkoblig
from orch import Result, log, VERIF

PID = "C16"
RSIZE_MAX_MEM = 268435456            # cross-checked against the regenerated SafeC/Gen/Consts.lean in run()
EOK, ESNULLP, ESLEMAX, ESNOSPC = 0, 400, 403, 406
LEO = [1, 1]
while LEO[-1] < 1 << 40:
    LEO.append(LEO[-1] + LEO[-2] + 1)
CTZ_LIMIT = LEO[34]                  # 18454929: largest nmemb the unrepaired pntz handles (two trees 33 orders apart need one more)
SIZES_ROT = [1, 2, 3, 4, 5, 7, 8, 12, 16, 24, 33, 64, 100, 255, 256, 257, 300]
SIZES_EDGE = [1, 2, 3, 4, 5, 6, 7, 8, 9, 11, 13, 16, 17, 31, 32, 33, 63, 64, 65, 100, 127, 128, 129, 200, 255, 256, 257, 299, 300, 511, 512, 513, 768, 769, 1000]
CONSISTENT = ("asc", "desc", "zero")
ALLCMP = ("asc", "desc", "zero", "pos", "neg", "rnd", "mix", "posn")


class Case:
    __slots__ = ("kind", "n", "w", "keys", "keyspec", "cmp", "seed", "ctx", "bos", "base", "fn", "keyp", "key", "lay", "full", "origin", "to", "fork")

    def __init__(self, kind, n, w, keys, cmp="asc", seed=1, ctx=7, bos="u", base=1, fn=1, keyp=1, key=0, lay="R", full=1, origin="", keyspec=None, to=60):
        self.kind, self.n, self.w, self.keys, self.cmp, self.seed, self.ctx = kind, n, w, keys, cmp, seed, ctx
        self.bos, self.base, self.fn, self.keyp, self.key, self.lay, self.full, self.origin = bos, base, fn, keyp, key, lay, full, origin
        self.keyspec, self.to, self.fork = keyspec, to, 0

    def nelem(self):
        return len(self.keys) if self.keys is not None else int(self.keyspec.split(":")[1])

    def line(self, i, fx=""):
        ks = self.keyspec if self.keyspec else (",".join(map(str, self.keys)) if self.keys else "-")
        s = "id=%d %s=1 n=%d w=%d keys=%s cmp=%s seed=%d ctx=%d bos=%s base=%d fn=%d lay=%s full=%d to=%d" % (
            i, self.kind, self.n, self.w, ks, self.cmp, self.seed, self.ctx, self.bos, self.base, self.fn, self.lay, self.full, self.to)
        if self.kind == "bs":
            s += " keyp=%d key=%d" % (self.keyp, self.key)
        if not self.full:
            s += " trace=0"
        return s + fx

    def canon(self):
        return self.line(0)


def keymax(w):
    return 256 ** min(w, 4)


# ------------------------------------------------------------------ generators
def gen_exhaustive(tier, rng):
    """every array over 3 keys, nmemb 0..8 (quick) / 0..10 (thorough), consistent comparator; sizes rotate through SIZES_ROT"""
    out = []
    top = 8 if tier == "quick" else 10
    k = 0
    for n in range(0, top + 1):
        for keys in itertools.product((0, 1, 2), repeat=n):
            w = SIZES_ROT[k % len(SIZES_ROT)]
            out.append(Case("sort", n, w, list(keys), "asc", seed=k, lay="RL"[k & 1], origin="exhaustive-3keys"))
            k += 1
    # every comparator on every array over 3 keys up to nmemb 5 (6 thorough)
    for n in range(0, (5 if tier == "quick" else 6) + 1):
        for keys in itertools.product((0, 1, 2), repeat=n):
            for cm in ALLCMP[1:]:
                for sd in ((1,) if cm not in ("rnd", "mix") else (1, 2, 3)):
                    w = SIZES_ROT[k % len(SIZES_ROT)]
                    out.append(Case("sort", n, w, list(keys), cm, seed=sd * 1000 + k, lay="RL"[k & 1], origin="exhaustive-3keys-allcmp"))
                    k += 1
    return out


def gen_bsearch(tier, rng):
    out = []
    top = 8 if tier == "quick" else 12
    k = 0
    for n in range(0, top + 1):
        for ms in itertools.combinations_with_replacement((1, 3, 5), n):        # every sorted array over 3 keys
            for key in range(0, 7):
                w = SIZES_ROT[k % len(SIZES_ROT)]
                out.append(Case("bs", n, w, list(ms), "asc", key=key, lay="RL"[k & 1], origin="bs-exhaustive-sorted"))
                k += 1
    for n in list(range(0, 70)) + [100, 127, 128, 129, 255, 256, 257, 1000, 1023, 1024, 1025, 2000]:
        keys = [2 * i + 1 for i in range(n)]                                     # distinct odd keys: every hit and every gap
        picks = range(0, 2 * n + 2) if n <= 40 else sorted({0, 1, 2, n, n + 1, 2 * n - 1, 2 * n, 2 * n + 1} | {rng.randrange(2 * n + 2) for _ in range(12)})
        for key in picks:
            w = rng.choice(SIZES_EDGE) if n <= 300 else rng.choice([1 + 3 * (n < 128), 4, 8, 12])
            if keymax(w) <= 2 * n + 1:
                w = 4
            out.append(Case("bs", n, w, keys, "asc", key=key, lay="RL"[k & 1], origin="bs-distinct"))
            k += 1
        # duplicates: runs of equal keys
        if n:
            keys2 = sorted(rng.randrange(1, 8) * 2 + 1 for _ in range(n))
            for key in (0, 3, 4, 7, 9, 15, 16):
                out.append(Case("bs", n, 4, keys2, "asc", key=key, lay="RL"[k & 1], origin="bs-duplicates"))
                k += 1
            out.append(Case("bs", n, 4, sorted(keys2, reverse=True), "desc", key=7, origin="bs-descending"))
    # comparators that do not describe a sorted array: bounds / termination / probe count only
    for n in (0, 1, 2, 3, 5, 8, 13, 64, 100, 1000):
        keys = [rng.randrange(50) for _ in range(n)]
        for cm in ("zero", "pos", "neg", "rnd", "asc"):
            for sd in (1, 2, 3):
                out.append(Case("bs", n, rng.choice([1, 4, 7, 300]), [x % 256 for x in keys], cm, seed=sd, key=rng.randrange(50), lay="RL"[k & 1], origin="bs-any-comparator"))
                k += 1
    return out


def shaped_keys(rng, n, shape, alpha):
    if shape == "rnd":
        return [rng.randrange(alpha) for _ in range(n)]
    if shape == "sorted":
        return sorted(rng.randrange(alpha) for _ in range(n))
    if shape == "rev":
        return sorted((rng.randrange(alpha) for _ in range(n)), reverse=True)
    if shape == "pipe":
        a = sorted(rng.randrange(alpha) for _ in range(n))
        return a[::2] + a[1::2][::-1]
    if shape == "const":
        return [alpha // 2] * n
    if shape == "nearly":
        a = sorted(rng.randrange(alpha) for _ in range(n))
        for _ in range(max(1, n // 16)):
            if n > 1:
                i, j = rng.randrange(n), rng.randrange(n)
                a[i], a[j] = a[j], a[i]
        return a
    return [rng.randrange(alpha) for _ in range(n)]


def gen_boundary(tier, rng):
    out = []
    k = 0
    ns = sorted(set(list(range(0, 20)) + [x + d for x in LEO[2:16] for d in (-1, 0, 1, 2)] + [32, 63, 64, 65, 100, 128, 200, 256, 500, 1000]))
    ns = [n for n in ns if n <= (1300 if tier == "quick" else 2000)]
    shapes = ("rnd", "sorted", "rev", "pipe", "const", "nearly")
    for n in ns:
        for j, cm in enumerate(ALLCMP):
            reps = 1 if tier == "quick" else 3
            for r in range(reps):
                w = SIZES_EDGE[(k * 7 + j) % len(SIZES_EDGE)] if n <= 300 else rng.choice([1, 2, 3, 4, 5, 8, 13, 16, 33])
                alpha = min(keymax(w), rng.choice([2, 3, 5, 16, 256, 100000]))
                keys = shaped_keys(rng, n, shapes[(k + r) % len(shapes)], alpha)
                out.append(Case("sort", n, w, keys, cm, seed=rng.randrange(1 << 30), ctx=rng.randrange(1000), lay="RL"[k & 1], origin="boundary-leonardo"))
                k += 1
    # every element size 1..300 (and the chunk boundaries of cycle's 256-byte tmp) on a few shapes
    for w in list(range(1, 301)) + [511, 512, 513, 767, 768, 769, 1023, 1024, 1025]:
        for n in ((2, 3, 9) if tier == "quick" else (2, 3, 5, 9, 16, 26)):
            keys = shaped_keys(rng, n, "rnd", min(keymax(w), 7))
            out.append(Case("sort", n, w, keys, "asc", seed=rng.randrange(1 << 30), lay="RL"[k & 1], origin="every-size"))
            k += 1
    return out


def gen_random(tier, rng):
    out = []
    cnt = 260 if tier == "quick" else 20000
    for k in range(cnt):
        r = rng.random()
        n = rng.randrange(0, 40) if r < 0.3 else rng.randrange(40, 400) if r < 0.75 else rng.randrange(400, 2001)
        w = rng.randrange(1, 301) if rng.random() < 0.6 else rng.choice(SIZES_EDGE)
        if n * w > 400000:
            w = rng.choice([1, 2, 3, 4, 5, 7, 8, 16])
        alpha = min(keymax(w), rng.choice([2, 3, 4, 10, 100, 256, 65536, 1 << 31]))
        keys = shaped_keys(rng, n, rng.choice(("rnd", "rnd", "rnd", "sorted", "rev", "pipe", "nearly", "const")), alpha)
        cm = rng.choice(ALLCMP) if rng.random() < 0.55 else "asc"
        out.append(Case("sort", n, w, keys, cm, seed=rng.randrange(1 << 40), ctx=rng.randrange(1 << 20), lay=rng.choice("RL"), origin="random"))
    if tier != "quick":
        for k in range(30):
            n = rng.randrange(20000, 120000)
            out.append(Case("sort", n, 4, None, rng.choice(("asc", "desc", "mix", "rnd")), seed=rng.randrange(1 << 40), full=0, origin="random-large",
                            keyspec="rnd:%d:%d:%d" % (n, rng.randrange(1 << 30), rng.choice([3, 1000, 1 << 30]))))
    return out


def gen_entry(tier, rng):
    """runtime-constraint checks of both entry points (doc comments of qsort_s.c / bsearch_s.c)"""
    out = []
    keys = [5, 3, 9, 1, 2, 8]
    skeys = sorted(keys)
    big = [RSIZE_MAX_MEM + 1, RSIZE_MAX_MEM * 2, (1 << 63), (1 << 64) - 1, (1 << 32) + 1]
    for kind, ks in (("sort", keys), ("bs", skeys)):
        def mk(n, w, kk=ks, **kw):
            if w > 4096:
                kk = []                 # no element of that size is mapped; a rejected call must not touch anything anyway
            c = Case(kind, n, w, kk, "asc", key=5, origin="entry", **kw)
            out.append(c)
            return c
        for base in (0, 1):
            for fn in (0, 1):
                for keyp in ((0, 1) if kind == "bs" else (1,)):
                    for n in (0, 1, 6):
                        mk(n, 4, ks[:n], base=base, fn=fn, keyp=keyp)
                        mk(n, 4, ks[:n], base=base, fn=fn, keyp=keyp, bos=str(4 * n))
        for b in big:
            mk(b, 4, ks)                 # nmemb too large
            mk(6, b, ks)                 # size too large (no access may happen)
            mk(0, b, [])                 # nmemb == 0 does not excuse size
            mk(b, 0, ks)
            mk(b, b, ks)
        mk(RSIZE_MAX_MEM, 0, ks)         # allowed: limits inclusive, empty product
        mk(6, 0, ks)                     # size 0: nothing to sort / probe has no extent
        mk(0, 0, [], base=0)
        mk(0, 4, [], base=0, fn=0, keyp=0)
        # object size known
        for bos in (24, 25, 4096, 23, 20, 1, 0):
            mk(6, 4, ks, bos=str(bos))
        mk(3, 4, ks[:3], bos="12")
        # known object size and a product that does not fit size_t
        for (n, w, nb) in ((((1 << 64) + 4 * 6) // 4, 4, 24), ((1 << 62) + 1, 4, 4), ((1 << 63) + 3, 2, 6), ((1 << 61) + 2, 8, 16),
                           (((1 << 64) * 3 + 24) // 8, 8, 24), ((1 << 32) + 1, (1 << 32), 1 << 32)):
            if (n * w) % (1 << 64) <= nb and n * w > nb:
                m = min(len(ks), nb // w if w <= nb else 0)
                c = mk(n, w, ks[:m] if w <= 4096 else [], bos=str(nb))
                c.origin = "entry-overflow"
    return out


def gen_huge(tier):
    out = [Case("sort", CTZ_LIMIT + 1, 4, None, "asc", full=0, origin="huge", keyspec="ident:%d" % (CTZ_LIMIT + 1), to=120)]
    if tier != "quick":
        out.append(Case("sort", CTZ_LIMIT, 4, None, "asc", full=0, origin="huge", keyspec="ident:%d" % CTZ_LIMIT, to=300))
        out.append(Case("sort", LEO[33] + 1, 4, None, "desc", full=0, origin="huge", keyspec="ident:%d" % (LEO[33] + 1), to=300))
    return out


def gen_pntz(rng, tier):
    """(lo, hi) words for the function-level replay of pntz(); the first entries are the witness of Props/C16 qsort_safe_witness"""
    out = [(1, 1), (1, 3), (1, 0), (1, 2), (1, 1 << 63), (1, (1 << 64) - 1), (3, 0), (3, 1), (5, 7), ((1 << 33) + 1, 0), ((1 << 63) + 1, 0), ((1 << 63) + 1, 1),
           (2, 1), (2, 0), (0, 1), (0, 0), (4, 3), ((1 << 64) - 1, (1 << 64) - 1)]
    for t in range(1, 128):                                   # exactly one more bit, at every distance
        v = 1 | (1 << t)
        out.append((v & ((1 << 64) - 1), v >> 64))
    for t in range(1, 128):                                   # everything from distance t upwards set
        v = 1 | (((1 << 128) - 1) >> t << t)
        out.append((v & ((1 << 64) - 1), v >> 64))
    for _ in range(200 if tier == "quick" else 5000):
        t = rng.randrange(1, 128)
        v = 1 | (1 << t) | (rng.getrandbits(128) >> t << t)
        out.append((v & ((1 << 64) - 1), v >> 64))
    for _ in range(50 if tier == "quick" else 1000):          # arbitrary words, bit 0 clear included: model <-> C only
        out.append((rng.getrandbits(64) >> rng.randrange(64), rng.getrandbits(64) >> rng.randrange(65)))
    return out


def pntz_contract(lo, hi):
    """what the callers of pntz() rely on (comment-free static helper: read off trinkle / the final loop of qsort_musl, which shift p by the
    answer and add it to pshift): bit 0 set -> distance to the next set bit of p[1]:p[0], 0 if there is none; None: no contract"""
    if not lo & 1:
        return None
    v = ((hi << 64) | lo) >> 1
    if v == 0:
        return 0
    return (v & -v).bit_length()


def gen_cyc(rng, tier):
    """driver self-check: byte-level cycle (256-byte chunks) against the element rotation"""
    out = []
    for w in [0, 1, 2, 3, 100, 255, 256, 257, 300, 511, 512, 513, 700, 1025]:
        for ar in ([0], [1, 0], [3, 1, 0], [4, 2, 1, 0], [5, 4, 3, 2, 1, 0], [2, 2], [3, 1, 3], [0, 5]):
            out.append("cyc=1 n=6 w=%d ar=%s seed=%d" % (w, ",".join(map(str, ar)), rng.randrange(1 << 30)))
    return out


# ------------------------------------------------------------------ oracle (independent of the model)
def expected_entry(c):
    """documented outcome of the runtime-constraint checks, or None when the call is valid"""
    nulls = (c.base == 0 or c.fn == 0 or (c.kind == "bs" and c.keyp == 0))
    if c.n != 0 and nulls:
        return [ESNULLP]
    if c.bos == "u":
        if c.n > RSIZE_MAX_MEM or c.w > RSIZE_MAX_MEM:
            return [ESLEMAX]
        return None
    if c.n * c.w > int(c.bos):          # the product as a number, not as a size_t
        # doc: ESLEMAX when nmemb or size > RSIZE_MAX_MEM, ESNOSPC when nmemb*size > sizeof base: either is a documented answer
        return [ESNOSPC, ESLEMAX] if (c.n > RSIZE_MAX_MEM or c.w > RSIZE_MAX_MEM) else [ESNOSPC]
    return None


def sizeclass(c):
    if c.origin == "entry-overflow":
        return "bos-known-product-overflow"
    if c.kind == "bs":
        return "any"
    if c.n > CTZ_LIMIT:
        return "nmemb>%d" % CTZ_LIMIT
    return "nmemb<=%d" % CTZ_LIMIT


def ordered(cm, ka):
    if cm == "asc":
        return all(ka[i - 1] <= ka[i] for i in range(1, len(ka)))
    if cm == "desc":
        return all(ka[i - 1] >= ka[i] for i in range(1, len(ka)))
    return True


def oracle(c, d):
    """returns [(sig, detail)]"""
    fn = "qsort_s" if c.kind == "sort" else "bsearch_s"
    cls = sizeclass(c)
    f = []
    exp = expected_entry(c)
    if "fault" in d:
        what = d["fault"]
        kind = "timeout" if what == "timeout" else "oob-compare" if what.startswith("cmp@") else "fault"
        return [("%s:%s:%s" % (fn, kind, cls), "call did not return: %s after %s comparator calls" % (what, d.get("nc")))]
    if int(d.get("bad", "0").split(":")[0]):
        f.append(("%s:oob-compare:%s" % (fn, cls), "comparator argument outside the array / misaligned: " + d["bad"]))
    if int(d.get("ctxbad", 0)):
        f.append(("%s:wrong-ctx:%s" % (fn, cls), "%s comparator calls with a context other than the caller's" % d["ctxbad"]))
    if int(d.get("slack", 0)):
        f.append(("%s:write-outside:%s" % (fn, cls), "%s bytes outside the nmemb*size bytes changed" % d["slack"]))
    unchanged = d.get("sumb") == d.get("suma") and (d.get("hb") is None or d["hb"] == d["ha"])
    ev = [] if d.get("ev", "-") == "-" else d["ev"].split(",")
    if exp is not None:
        if c.kind == "sort":
            code = int(d["ret"])
            ok = code in exp
        else:
            code = int(d["errno"])
            ok = code in exp and d["ret"] == "null"
        if not ok:
            nm = "overflow-not-rejected" if c.origin == "entry-overflow" else "violation-not-rejected"
            f.append(("%s:%s:%s" % (fn, nm, "+".join(map(str, exp))), "documented %s, got ret=%s errno=%s" % (exp, d["ret"], d.get("errno"))))
        elif len(ev) != 1 or int(ev[0].split(":")[1]) != code:
            f.append(("%s:handler-mismatch:%s" % (fn, code), "returned %s but handler events %s" % (code, d.get("ev"))))
        if int(d["nc"]) and ok:
            f.append(("%s:compares-after-violation:%s" % (fn, code), "comparator called %s times on a rejected call" % d["nc"]))
        if not unchanged and ok:
            f.append(("%s:modified-on-violation" % fn, "array changed although the call was rejected"))
        return f
    # valid call
    if ev:
        f.append(("%s:spurious-handler:%s" % (fn, cls), "handler events %s on a valid call" % d["ev"]))
    if c.kind == "sort":
        if int(d["ret"]) != EOK:
            f.append(("qsort_s:valid-call-rejected:%s" % d["ret"], "valid call returned %s" % d["ret"]))
            return f
        if d.get("hb") is not None:
            hb, ha = d["hb"], d["ha"]
            if sorted(hb) != sorted(ha):
                f.append(("qsort_s:not-a-permutation:%s" % cls, "multiset of whole elements differs (%d elements, size %d)" % (len(hb), c.w)))
            if not ordered(c.cmp, d["ka"]):
                i = next(i for i in range(1, len(d["ka"])) if not ordered(c.cmp, d["ka"][i - 1:i + 1]))
                f.append(("qsort_s:not-sorted:%s" % cls, "keys %s, %s at positions %d, %d under comparator %s" % (d["ka"][i - 1], d["ka"][i], i - 1, i, c.cmp)))
        else:
            if d["sumb"] != d["suma"]:
                f.append(("qsort_s:not-a-permutation:%s" % cls, "sum of element hashes differs"))
            if c.cmp == "asc" and d["sorted"] != "1":
                f.append(("qsort_s:not-sorted:%s" % cls, "large array not ascending"))
    else:
        n = c.n
        if d["errno"] != "0":
            f.append(("bsearch_s:errno-on-valid-call:%s" % d["errno"], "errno %s after a valid call" % d["errno"]))
        if not unchanged:
            f.append(("bsearch_s:modified-array", "array changed"))
        nc = int(d["nc"])
        bound = 0 if n == 0 else (math.ceil(math.log2(n)) + 1 if n > 1 else 1)
        if nc > bound:
            f.append(("bsearch_s:too-many-probes", "%d comparator calls for nmemb %d (bound %d)" % (nc, n, bound)))
        if c.cmp in ("asc", "desc") and c.w > 0:
            keys = c.keys[:n]
            srt = all(keys[i - 1] <= keys[i] for i in range(1, len(keys))) if c.cmp == "asc" else all(keys[i - 1] >= keys[i] for i in range(1, len(keys)))
            if srt:
                present = any(x == c.key for x in keys)                      # linear scan
                r = d["ret"]
                if r.startswith("badptr"):
                    f.append(("bsearch_s:result-outside-array", r))
                elif present and r == "null":
                    f.append(("bsearch_s:missed", "key %d is in the array (nmemb %d) but NULL was returned" % (c.key, n)))
                elif r != "null" and (int(r) >= n or keys[int(r)] != c.key):
                    f.append(("bsearch_s:wrong-element", "returned position %s holding %s for key %d" % (r, keys[int(r)] if int(r) < n else "?", c.key)))
    return f


# ------------------------------------------------------------------ model vs implementation
def parse_obs(d):
    for k in ("hb", "ha"):
        if k in d:
            d[k] = [] if d[k] == "-" else d[k].split(",")
    if "ka" in d:
        d["ka"] = [] if d["ka"] == "-" else [int(x) for x in d["ka"].split(",")]
    return d


def projection_diff(c, dc, dm):
    """None when model and implementation agree on what C16 can observe"""
    if c.kind == "bs" and c.w == 0 and c.n > 0:
        return None      # zero-size elements all alias base: the element-level model does not apply; the oracle still does
    ioob = "fault" in dc or int(dc.get("bad", "0").split(":")[0]) > 0
    moob = "fault" in dm
    if ioob != moob:
        return "out-of-bounds/fault: impl %s, model %s" % (dc.get("fault") or dc.get("bad"), dm.get("fault"))
    if ioob:
        return None
    if dc["ret"] != dm["ret"]:
        return "return: impl %s, model %s" % (dc["ret"], dm["ret"])
    if dc["ev"] != dm["ev"]:
        return "handler events: impl %s, model %s" % (dc["ev"], dm["ev"])
    if dc["nc"] != dm["nc"]:
        return "comparator calls: impl %s, model %s" % (dc["nc"], dm["nc"])
    if c.kind == "bs":
        if dc["errno"] != dm["errno"]:
            return "errno: impl %s, model %s" % (dc["errno"], dm["errno"])
        if dc["log"] != dm["log"] and int(dc["nc"]) <= 4000:
            return "probe sequence: impl %s, model %s" % (dc["log"][:200], dm["log"][:200])
        return None
    if dm.get("lh", "-") != "-" and dc["lh"] != dm["lh"]:
        a, b = dc.get("log", "-").split(","), dm.get("log", "-").split(",")
        k = next((i for i, (x, y) in enumerate(zip(a, b)) if x != y), min(len(a), len(b)))
        return "comparator call sequence differs at call %d: impl %s, model %s" % (k, a[k:k + 3], b[k:k + 3])
    if int(dm.get("ctxok", 1)) != (1 if int(dc["ctxbad"]) == 0 else 0):
        return "ctx: impl ctxbad=%s model ctxok=%s" % (dc["ctxbad"], dm.get("ctxok"))
    if dm.get("perm", "-") != "-" and dc.get("hb") is not None:
        perm = [int(x) for x in dm["perm"].split(",")] if dm["perm"] != "-" else []
        hb, ha = dc["hb"], dc["ha"]
        if len(perm) != len(ha):
            return "array length: impl %d, model %d" % (len(ha), len(perm))
        for i, p in enumerate(perm):
            if ha[i] != hb[p]:
                return "position %d: model puts original element %d there, the implementation has another element (whole-element hash)" % (i, p)
    elif c.keyspec and c.keyspec.startswith("ident:"):
        if dc["ph"] != dm["ph"]:
            return "final arrangement hash: impl %s, model %s" % (dc["ph"], dm["ph"])
    return None


def run_parallel(cmd, lines, workers=4, timeout=3000):
    chunks = [lines[i::workers] for i in range(workers)]

    def one(ch):
        if not ch:
            return {}
        o, rc, err = proto.run_lines(cmd, ch, timeout=timeout)
        if rc != 0:
            raise RuntimeError("%s exited %d: %s" % (cmd[0], rc, err[:300]))
        return o
    res = {}
    with ThreadPoolExecutor(max_workers=workers) as ex:
        for o in ex.map(one, chunks):
            res.update(o)
    return res


def fx_override():
    """VERIF_C16_FX = three bits, order ctz64, ovf, pntzGap (Models/Sort.lean `Fixes`); anything else: the model's `current`"""
    v = os.environ.get("VERIF_C16_FX", "")
    return (" fx=" + v) if re.fullmatch(r"[01]{3}", v) else ""


def build_harness():
    L = buildlib.build(slack=True)
    hp = buildlib.build_harness(L, os.path.join(VERIF, "harness", "hpntz.c"), os.path.join(L["dir"], "hpntz"), extra=L["cflags"])
    return buildlib.build_harness(L, os.path.join(VERIF, "harness", "hsort.c"), os.path.join(L["dir"], "hsort")), hp


def features(c, dc):
    """coarse path features for the distribution printed into the evidence"""
    n = c.n
    nb = "0" if n == 0 else "1" if n == 1 else "2-8" if n <= 8 else "9-40" if n <= 40 else "41-400" if n <= 400 else "401-2000" if n <= 2000 else ">2000"
    wb = "0" if c.w == 0 else "1" if c.w == 1 else "2-8" if c.w <= 8 else "9-255" if c.w <= 255 else "256" if c.w == 256 else "257-512" if c.w <= 512 else ">512"
    return nb, wb


def run(tier, seed, replay=None):
    res = Result(PID, tier, seed)
    orch.gen_mod.main()
    mkoblig.main()
    obs = orch.obligations(PID)
    targets = sorted({o["module"] for o in obs} | {"SafeC.Props.C16"}) + ["safec_model"]
    lean_ok, lean_log, dt = orch.lake_build(targets)
    res.extra["lean_build_s"] = round(dt, 1)
    drv_ok = lean_ok or orch.lake_build(["safec_model"])[0]
    audit, _ = orch.audit_axioms(PID, obs) if lean_ok else ([dict(o, ok=False, axioms=None, error="build failed") for o in obs], "")
    forb = orch.forbidden_tokens()
    known = orch.load_known()
    fx = fx_override()
    consts = open(os.path.join(orch.LEAN, "SafeC", "Gen", "Consts.lean")).read()
    for name, val in (("RSIZE_MAX_MEM", RSIZE_MAX_MEM), ("ESNULLP", ESNULLP), ("ESLEMAX", ESLEMAX), ("ESNOSPC", ESNOSPC)):
        if not re.search(r"def %s : Nat := %d\b" % (name, val), consts):
            res.mismatch.append(dict(kind="correspondence", property=PID, fn="constants", what="%s is no longer %d in the tree's headers" % (name, val)))
    hbin, pbin = build_harness()

    if replay:
        rep = json.load(open(replay))
        if "case" not in rep:
            print(json.dumps(rep, indent=1)[:4000]); return 0
        ln = rep["case"]
        c, _, _ = proto.run_lines([pbin if " pntz=1" in ln else hbin], [ln], timeout=900)
        c.pop("info", None)
        m, _, _ = proto.run_lines([orch.MODEL_BIN], [ln + fx], timeout=900)
        short = lambda d: {k: (v if len(str(v)) < 300 else str(v)[:300] + "...") for k, v in d.items() if k != "id"}
        print("case :", ln[:600])
        print("impl :", short(next(iter(c.values()), {})))
        print("model:", short(next(iter(m.values()), {})))
        print("recorded impl:", {k: (v if len(str(v)) < 300 else str(v)[:300] + "...") for k, v in (rep.get("impl") or {}).items()})
        print("recorded failure:", rep.get("sig"), "-", rep.get("detail"))
        return 0

    rng = random.Random(seed * 7919 + 16)
    t0 = time.time()
    cases = gen_exhaustive(tier, rng) + gen_bsearch(tier, rng) + gen_boundary(tier, rng) + gen_random(tier, rng) + gen_entry(tier, rng) + gen_huge(tier)
    small = [c for c in cases if c.origin != "huge"]
    huge = [c for c in cases if c.origin == "huge"]
    hl = [c.line(i) for i, c in enumerate(cases)]
    ml = [c.line(i, fx) for i, c in enumerate(cases)]
    ns = len(small)
    with ThreadPoolExecutor(max_workers=3) as ex:
        fh = ex.submit(run_parallel, [hbin], hl[:ns], 4)
        fm = ex.submit(run_parallel, [orch.MODEL_BIN], ml[:ns], 3) if drv_ok else None
        fhh = ex.submit(run_parallel, [hbin], hl[ns:], 1)
        fmh = ex.submit(run_parallel, [orch.MODEL_BIN], ml[ns:], max(1, min(3, len(huge)))) if drv_ok else None
        ci = fh.result(); ci.update(fhh.result())
        mi = {}
        if drv_ok:
            mi = fm.result(); mi.update(fmh.result())
    log("  C16: %d cases run on implementation and model in %.1fs" % (len(cases), time.time() - t0))
    # driver self-check of the byte-level cycle
    if drv_ok:
        cl = gen_cyc(rng, tier)
        co, _, _ = proto.run_lines([orch.MODEL_BIN], ["id=%d %s" % (i, l) for i, l in enumerate(cl)])
        badc = [cl[int(i)] + " -> " + d.get("cyc", "?") for i, d in co.items() if d.get("cyc") != "same" and not (d.get("cyc", "").startswith("fault:") and "ar=0,5" not in cl[int(i)])]
        res.extra["byte_level_cycle_selfcheck"] = dict(ops=len(cl), differing=len(badc))
        for b in badc[:3]:
            res.mismatch.append(dict(kind="correspondence", property=PID, fn="cycle", what="byte-level cycle model differs from the element rotation: " + b))
    # function-level replay of the static helper pntz(): the compiler's code (harness/hpntz.c) vs the model's pntz vs its contract
    pv = gen_pntz(rng, tier)
    pl = ["id=%d pntz=1 lo=%d hi=%d" % (i, lo, hi) for i, (lo, hi) in enumerate(pv)]
    pc, prc, perr = proto.run_lines([pbin], pl, timeout=120)
    pm = proto.run_lines([orch.MODEL_BIN], [l + fx for l in pl], timeout=120)[0] if drv_ok else {}
    pstat = dict(ops=len(pl), observed=0, model_differs=0, contract_failures=0, info=pc.get("info"))
    if prc != 0 or sum(1 for i in range(len(pl)) if str(i) in pc) != len(pl):
        res.mismatch.append(dict(kind="correspondence", property=PID, fn="pntz", what="harness/hpntz.c gave %d of %d answers (exit %s): %s" % (len(pc), len(pl), prc, perr[:200])))
    for i, (lo, hi) in enumerate(pv):
        dc, dm = pc.get(str(i)), pm.get(str(i))
        if dc is None:
            continue
        pstat["observed"] += 1
        res.count("fn", "pntz")
        agree = None if dm is None or "r" not in dm else dm["r"] == dc["r"]
        if agree is not None:
            res.modelled.add("pntz")
        want = pntz_contract(lo, hi)
        bad = want is not None and int(dc["r"]) != want
        if bad:
            pstat["contract_failures"] += 1
            sig = "qsort_s:pntz-wrong:distance=%s" % ("64" if want == 64 else "0" if want == 0 else "1-63" if want < 64 else "65-127")
            detail = "pntz({%d, %d}) = %s, the next set bit is %s" % (lo, hi, dc["r"], ("%d away" % want) if want else "absent (0 expected)")
            ent = next((e for e in known if orch.known_match(e, PID, sig, 1)), None)
            if ent is not None and agree is not False:
                kk = ent.get("id") or ent.get("sig") or ent.get("sig_re")
                hh = res.known_hit.setdefault(kk, dict(ent, count=0, example=pl[i], sigs=set()))
                hh["count"] += 1; hh["sigs"].add(sig)
            else:
                res.violations.append((sig, dict(kind="property-fails-on-implementation", property=PID, sig=sig, detail=detail, fn="pntz", case=pl[i], impl=dc, model=dm,
                                                 model_predicts=agree, model_diff=None if agree is not False else "pntz: impl %s, model %s" % (dc["r"], dm.get("r")))))
        if agree is False:
            pstat["model_differs"] += 1
            if not bad:
                res.mismatch.append(dict(kind="correspondence", property=PID, fn="pntz", what="pntz({%d, %d}): compiled C %s, model %s" % (lo, hi, dc["r"], dm.get("r")), case=pl[i], impl=dc, model=dm))
    res.extra["pntz_function_replay"] = pstat
    exh = {}
    for i, c in enumerate(cases):
        dc, dm = ci.get(str(i)), mi.get(str(i))
        fn = "qsort_s" if c.kind == "sort" else "bsearch_s"
        if dc is None or "err" in dc:
            res.notes.append("no observation for %s" % hl[i][:200]); continue
        dc = parse_obs(dc)
        res.evaluations += 1
        res.count("fn", fn)
        res.count("origin", c.origin)
        res.count("comparator", "%s/%s" % (fn, c.cmp))
        nb, wb = features(c, dc)
        res.count("nmemb", nb); res.count("size", wb); res.count("layout", c.lay)
        res.count("outcome", "fault" if "fault" in dc else "ret=%s" % dc["ret"] if c.kind == "sort" else ("found" if dc["ret"] not in ("null",) else "null/errno=%s" % dc["errno"]))
        nontrivial = "fault" in dc or int(dc.get("nc", 0)) > 0
        if nontrivial:
            res.distinct.add(hashlib.md5(c.canon().encode()).hexdigest())
        exh[c.origin] = exh.get(c.origin, 0) + 1
        if len(res.samples) < 8 and nontrivial and (res.evaluations % 1201 == 7 or c.origin in ("huge", "entry-overflow") and len(res.samples) < 3):
            res.samples.append(dict(op=hl[i][:400], impl={k: (v if len(str(v)) < 200 else str(v)[:200] + "...") for k, v in dc.items() if k != "id"},
                                    model=dm and {k: (v if len(str(v)) < 200 else str(v)[:200] + "...") for k, v in dm.items() if k != "id"}))
        diff = None
        if dm is not None and "err" not in dm:
            res.modelled.add(fn)
            diff = projection_diff(c, dc, dm)
        elif drv_ok:
            res.unmodelled.add(fn)
        agree = None if dm is None else diff is None
        fails = oracle(c, dc)
        for sig, detail in fails:
            ent = next((e for e in known if orch.known_match(e, PID, sig, 1)), None)
            if ent is not None and agree is not False:
                kk = ent.get("id") or ent.get("sig") or ent.get("sig_re")
                hh = res.known_hit.setdefault(kk, dict(ent, count=0, example=hl[i][:300], sigs=set()))
                hh["count"] += 1; hh["sigs"].add(sig)
            else:
                res.violations.append((sig, dict(kind="property-fails-on-implementation", property=PID, sig=sig, detail=detail, fn=fn, case=hl[i],
                                                 impl={k: v for k, v in dc.items() if k not in ("hb", "ha")}, model=dm, model_predicts=agree, model_diff=diff)))
        if diff is not None and not fails:
            res.mismatch.append(dict(kind="correspondence", property=PID, fn=fn, what=diff, case=hl[i][:2000], impl={k: v for k, v in dc.items() if k not in ("hb", "ha")}, model=dm))
    for x in res.mismatch[:8]:
        log("   mismatch:", x.get("fn"), x.get("what"), "|", str(x.get("case", ""))[:300])
    top = 8 if tier == "quick" else 10
    res.extra["exhaustive_scopes"] = [
        "qsort_s: every array over 3 keys for nmemb 0..%d (%d arrays), ascending comparator, element sizes rotating through %s, both layouts" % (top, sum(3 ** n for n in range(top + 1)), SIZES_ROT),
        "qsort_s: every array over 3 keys for nmemb 0..%d under each of the 7 other comparators" % (5 if tier == "quick" else 6),
        "bsearch_s: every sorted array over 3 keys for nmemb 0..%d x every key 0..6" % (8 if tier == "quick" else 12)]
    res.extra["cases_by_origin"] = exh
    res.extra["model_fixes"] = dict(order="ctz64,ovf,pntzGap", override=fx.strip() or None)
    res.extra["sortedness_note"] = ("sortedness (total-preorder comparator), termination and bounds of the whole qsort_s call are proved in Lean for EVERY element count for the code with the repaired pntz "
                                    "(qsort_safe, qsort_sorted; Fixes.pntzGap, fixes/qsort_s-pntz-gap-64.diff) and for up to leo 65 = 55555780070575 elements for the code without it "
                                    "(qsort_sorted_partial, qsort_safe_partial; unconditional for BOS_UNKNOWN: qsort_safe_bos_unknown), where pntz mis-answers a distance of exactly 64 "
                                    "(qsort_safe_witness, replayed on the compiled pntz by harness/hpntz.c on every run); the oracle still checks order on every implementation observation")
    trusted = ["Lean 4.33 kernel; axioms propext, Classical.choice, Quot.sound only (audited per theorem on every run)",
               "lean/SafeC/Models/Sort.lean: hand-written element-level model of musl smoothsort (sift/trinkle/cycle/shl/shr/pntz, lp[96], ar[113], two UInt64 words with x86 shift-count masking, "
               "__builtin_ctz on the low 32 bits compiled to tzcnt) and of the bsearch_s loop and both entry checks; tied to the C by this run's inputs only: exact comparator call sequence, final arrangement of whole elements, return/handler",
               "the byte-level cycle (256-byte tmp chunks) is a separate Lean program proved equal to the element rotation; the C's chunking is tied to it only through whole-element hashes of the result for every size 1..300 and around 256/512/768/1024",
               "harness/hsort.c (guard pages on both sides, comparators that validate their arguments before dereferencing, SIGSEGV capture, per-call alarm), harness/hpntz.c (#includes qsort_s.c: the compiler's static pntz), tools/p16.py (generators, oracle, comparison)",
               "gcc -O0 build of the current tree, x86-64 with BMI1 (tzcnt), Linux page protection"]
    assumptions = ["the comparator does not modify the array and terminates",
                   "element positions are compared through a 64-bit whole-element hash (FNV-1a) before and after the call",
                   "nmemb beyond 2000 is sampled only by a few large arrays (thorough) and the 18454930-element witness"]
    return orch.finish(res, PID, lean_ok, lean_log, audit, forb, "", trusted, assumptions,
                       extra_cov=dict(rule="cases: exhaustive small scope (coverage.exhaustive_scopes), Leonardo-number boundary sweep x 8 comparators x 6 input shapes, every element size 1..300 and the 256-byte chunk "
                                           "boundaries, seeded random arrays to 2000 elements, runtime-constraint lattice of both entry points (NULLs, limits, object size known/unknown, products that overflow size_t), "
                                           "the 18454930-element witness; evaluation = one call of the real entry point; distinct = distinct op line; non-trivial = the call made at least one comparator call or did not return",
                                      exhaustive=False))

"""Input generators for the generic harness.  Every random choice derives from one
random.Random(seed); the small scopes are enumerated exhaustively.

An op carries `meta`: the semantic roles the oracles need (which extent is dest, what the
source string is, whether the declarations are truthful, what a reference implementation of the
standard counterpart produces).
"""
import itertools, random
from proto import Op, Region, ptr, UNK

X = 0x58  # dirty filler, not in any source alphabet
LIM = {1: 4096, 2: 134217728, 4: 1024}
MEMLIM = {1: 268435456, 2: 134217728, 4: 67108864}

EOK, ESNULLP, ESZEROL, ESLEMIN, ESLEMAX, ESOVRLP, ESEMPTY, ESNOSPC, ESUNTERM, ESNODIFF, ESNOTFND, ESLEWRNG = \
    0, 400, 401, 402, 403, 404, 405, 406, 407, 408, 409, 410
EOVERFLOW = 75


def cstr(cells):
    """cells up to the first NUL (exclusive) or None if unterminated"""
    out = []
    for c in cells:
        if c == 0:
            return out
        out.append(c)
    return None


def bosarg(b, w=1):
    """meta keeps object sizes in cells; the _chk entry points take bytes"""
    return UNK if b is None else str(b * w)


# ------------------------------------------------------------------ copy family
COPY_FNS = {
    1: ["strcpy_s", "strcat_s", "strncpy_s", "strncat_s"],
    4: ["wcscpy_s", "wcscat_s", "wcsncpy_s", "wcsncat_s"],
}
BOUNDED = {"strncpy_s", "strncat_s", "wcsncpy_s", "wcsncat_s", "stpncpy_s"}
CAT = {"strcat_s", "strncat_s", "wcscat_s", "wcsncat_s"}


def copy_args(fn, d, dmax, s, slen, bos, sbos, w=1):
    if fn in ("stpcpy_s",):
        return [d, dmax, s, "_", bosarg(bos, w), bosarg(sbos, w)]
    if fn in ("stpncpy_s",):
        return [d, dmax, s, slen, "_", bosarg(bos, w), bosarg(sbos, w)]
    if fn in BOUNDED:
        return [d, dmax, s, slen, bosarg(bos, w), bosarg(sbos, w)]
    return [d, dmax, s, bosarg(bos, w)]


def mk_copy_sep(fn, w, dmax, prior, srccells, slen, bos=None, objsize=None, dnull=False, snull=False, sbos=None, swap=False):
    """dest and src in separate regions, both flush right; swap=True puts src at the LOWER address
    (the `dest > src` twin of every copy loop).
    prior: list of cells for dest's object (len objsize); srccells: the whole src region."""
    objsize = objsize if objsize is not None else max(dmax, 1)
    dcells = (list(prior) + [X] * objsize)[:objsize]
    dk, sk = (1, 0) if swap else (0, 1)
    regs = [None, None]
    regs[dk] = Region(w, dcells)
    regs[sk] = Region(w, srccells)
    sstr = cstr(srccells)
    srd = len(srccells) if sstr is None else len(sstr) + 1
    if slen is not None:
        srd = min(srd, slen)
    d = "null" if dnull else ptr(dk)
    s = "null" if snull else ptr(sk)
    W = [] if dnull else [(dk, 0, min(dmax, objsize))]
    Rd = ([] if dnull else [(dk, 0, min(dmax, objsize))]) + ([] if snull else [(sk, 0, srd)])
    meta = dict(fam="copy", fn=fn, w=w, dest=None if dnull else (dk, 0), dmax=dmax, bos=bos, objsize=objsize,
                src=None if snull else (sk, 0), slen=slen, sbos=sbos, srccells=list(srccells), prior=dcells,
                place="sep", truthful=(dnull or dmax <= objsize) and (bos is None or bos <= objsize))
    return Op(fn, regs, copy_args(fn, d, dmax, s, slen, bos, sbos, w), W, Rd, meta)


def mk_copy_arena(fn, w, arena, doff, dmax, soff, slen):
    """dest and src inside one region (overlap placements); BOS unknown"""
    regs = [Region(w, arena)]
    scells = arena[soff:]
    sstr = cstr(scells)
    srd = len(scells) if sstr is None else len(sstr) + 1
    if slen is not None:
        srd = min(srd, slen)
    W = [(0, doff, dmax)]
    Rd = [(0, doff, dmax), (0, soff, srd)]
    meta = dict(fam="copy", fn=fn, w=w, dest=(0, doff), dmax=dmax, bos=None, objsize=len(arena) - doff,
                src=(0, soff), slen=slen, sbos=None, srccells=list(scells), prior=arena[doff:],
                place="arena", truthful=doff + dmax <= len(arena))
    return Op(fn, regs, copy_args(fn, ptr(0, doff), dmax, ptr(0, soff), slen, None, None), W, Rd, meta)


def src_variants(w, maxlen):
    """terminated strings 'a','ab',.. and unterminated exact-fit arrays"""
    out = []
    for n in range(0, maxlen + 1):
        s = [0x61 + i for i in range(n)]
        out.append(s + [0])
    for n in range(1, maxlen + 1):
        out.append([0x61 + i for i in range(n)])  # unterminated
    return out


def prior_variants(dmax, fn):
    """dest prior contents: dirty (no NUL) and, for the concatenations, strings of each length"""
    out = [[X] * max(dmax, 1)]
    if fn in CAT:
        for n in range(0, min(dmax, 4) + 1):
            out.append(([0x70 + i for i in range(n)] + [0] + [X] * dmax)[:max(dmax, 1)])
    else:
        out.append(([0x70, 0] + [X] * dmax)[:max(dmax, 1)])
    return out


def gen_copy(rng, tier, fns=None, widths=(1, 4)):
    ops = []
    small = range(0, 6) if tier == "quick" else range(0, 8)
    for w in widths:
        for fn in (fns or COPY_FNS[w] + (["stpcpy_s", "stpncpy_s"] if w == 1 else [])):
            if fns is None and fn.startswith("stp") and w != 1:
                continue
            bounded = fn in BOUNDED
            # 1. small scope, separate regions
            for dmax in small:
                for prior in prior_variants(dmax, fn):
                    for src in src_variants(w, 4 if tier == "quick" else 6):
                        sstr = cstr(src)
                        if sstr is None and not bounded and len(src) < dmax:
                            continue  # untruthful: an unterminated source shorter than dmax
                        for slen in ([None] if not bounded else range(0, 6)):
                            if sstr is None and bounded and slen > len(src):
                                continue
                            ops.append(mk_copy_sep(fn, w, dmax, prior, src, slen))
                            if prior[0] == X or dmax <= 3:
                                ops.append(mk_copy_sep(fn, w, dmax, prior, src, slen, swap=True))
            # 2. boundary sweep across the 0x20 switch
            for dmax in (31, 32, 33, 34, 63, 64, 65):
                for n in (0, 1, dmax - 2, dmax - 1, dmax, dmax + 1):
                    if n < 0:
                        continue
                    src = [0x61 + (i % 20) for i in range(n)] + [0]
                    for slen in ([None] if not bounded else (0, 1, n - 1, n, n + 1, dmax)):
                        if slen is not None and slen < 0:
                            continue
                        prior = [X] * dmax if fn not in CAT else ([0x70, 0x71, 0] + [X] * dmax)[:dmax]
                        ops.append(mk_copy_sep(fn, w, dmax, prior, src, slen))
                        ops.append(mk_copy_sep(fn, w, dmax, prior, src, slen, swap=True))
            # 3. null / BOS / limits
            src = [0x61, 0x62, 0]
            sl = 2 if bounded else None
            ops.append(mk_copy_sep(fn, w, 4, [X] * 4, src, sl, dnull=True))
            ops.append(mk_copy_sep(fn, w, 4, [X] * 4, src, sl, snull=True))
            ops.append(mk_copy_sep(fn, w, 4, [X] * 4, src, sl, dnull=True, snull=True))
            ops.append(mk_copy_sep(fn, w, 0, [X], src, sl, dnull=True))
            for prior in ([X] * 8, [0x70, 0] + [X] * 6):
                for dmax in (1, 3, 4, 8):
                    for bos in (dmax, 8):
                        if bos < dmax:
                            continue
                        ops.append(mk_copy_sep(fn, w, dmax, prior, src, sl, bos=bos, objsize=8))
                        ops.append(mk_copy_sep(fn, w, dmax, prior, src, sl, bos=bos, objsize=8, swap=True))
                # dmax above the known object size
                ops.append(mk_copy_sep(fn, w, 9, prior, src, sl, bos=8, objsize=8))
                ops.append(mk_copy_sep(fn, w, LIM[w] + 1, prior, src, sl, bos=8, objsize=8))
            # over the limit, BOS unknown: dest points at the guard page, any touch faults
            o = mk_copy_sep(fn, w, LIM[w] + 1, [X], src, sl, objsize=1)
            o.args[0] = ptr(0, 1)
            o.W, o.Rd = [], [(1, 0, 3)]
            o.meta["dest"] = (0, 1)
            o.meta["objsize"] = 0
            o.meta["truthful"] = False
            o.meta["early"] = True
            ops.append(o)
            ops.append(mk_copy_sep(fn, w, LIM[w], [X] * LIM[w], src, sl))
            if bounded:
                ops.append(mk_copy_sep(fn, w, 4, [X] * 4, src, LIM[w] + 1))
                ops.append(mk_copy_sep(fn, w, 4, [0x70, 0, X, X], src, LIM[w] + 1))
                ops.append(mk_copy_sep(fn, w, 4, [X] * 4, src, 5, sbos=3))
                ops.append(mk_copy_sep(fn, w, 4, [X] * 4, src, 2, sbos=3))
            if fn in ("stpcpy_s", "stpncpy_s"):
                # a source whose known object size holds no terminator: the "src unterminated" exit after copying began
                for sb in (1, 2):
                    for dm in (3, 4, 8):
                        ops.append(mk_copy_sep(fn, w, dm, [X] * dm, [0x61, 0x62, 0x63, 0], 3 if bounded else None, sbos=sb))
            # 4. every placement inside one arena
            for dmax in (1, 2, 3, 4):
                for slen_src in (0, 1, 2, 3):
                    A = 4 + 2 * (dmax + slen_src + 1)
                    doff = A // 2 - dmax // 2
                    for soff in range(max(0, doff - (dmax + slen_src + 1)), min(A - slen_src - 1, doff + dmax + slen_src + 1) + 1):
                        arena = [X] * A
                        if fn in CAT:
                            arena[doff] = 0x70
                            if dmax > 1:
                                arena[doff + 1] = 0
                        for i in range(slen_src):
                            arena[soff + i] = 0x61 + i
                        arena[soff + slen_src] = 0
                        for slen in ([None] if not bounded else (slen_src, slen_src + 1, 1)):
                            ops.append(mk_copy_arena(fn, w, arena, doff, dmax, soff, slen))
    # 5. random large scope
    nrand = 300 if tier == "quick" else 6000
    for _ in range(nrand):
        w = rng.choice(widths)
        fn = rng.choice(fns or COPY_FNS[w])
        bounded = fn in BOUNDED
        dmax = rng.choice([rng.randint(1, 12), rng.randint(28, 70), rng.randint(1, 300)])
        n = rng.choice([rng.randint(0, dmax + 2), rng.randint(0, 8)])
        src = [rng.choice([0x61, 0x62, 0xE9, 0x7F, 0x80, 0xFF, 1]) for _ in range(n)] + [0]
        slen = rng.choice([0, 1, n, n + 1, rng.randint(0, dmax + 3)]) if bounded else None
        if fn in CAT:
            pl = rng.randint(0, dmax)
            prior = ([rng.choice([0x70, 0x71, 0xFE]) for _ in range(pl)] + [0] + [X] * dmax)[:dmax]
        else:
            prior = [rng.choice([X, 0x59, 0])] * dmax if rng.random() < 0.2 else [X] * dmax
        ops.append(mk_copy_sep(fn, w, dmax, prior, src, slen, swap=rng.random() < 0.5))
    return ops


# ------------------------------------------------------------------ memory family
MEMCPY_FNS = [("memcpy_s", 1), ("memmove_s", 1), ("memcpy16_s", 2), ("memmove16_s", 2), ("memcpy32_s", 4),
              ("memmove32_s", 4), ("wmemcpy_s", 4), ("wmemmove_s", 4)]
MEMSET_FNS = [("memset_s", 1), ("memset16_s", 2), ("memset32_s", 4)]
MEMZERO_FNS = [("memzero_s", 1), ("memzero16_s", 2), ("memzero32_s", 4)]


def pat(n, w, base=1):
    return [((base + i * 7) % ((1 << (8 * w)) - 1)) + 1 for i in range(n)]


DMAX_BYTES = {"memcpy16_s", "memcpy32_s", "memmove16_s", "memmove32_s", "memset16_s", "memset32_s"}


def dmax_arg(fn, w, dmax):
    """the 16/32-bit copy/set functions take dmax in bytes, everything else in elements"""
    return dmax * w if fn in DMAX_BYTES else dmax


def mk_memcpy(fn, w, arena, doff, dmax, soff, slen, bos=None, sbos=None, dnull=False, snull=False, early=False):
    regs = [Region(w, arena)]
    d = "null" if dnull else ptr(0, doff)
    s = "null" if snull else ptr(0, soff)
    W = [] if dnull else [(0, doff, min(dmax, len(arena) - doff))]
    Rd = [] if snull else [(0, soff, min(slen, max(0, len(arena) - soff)))]
    meta = dict(fam="memcpy", fn=fn, w=w, dest=None if dnull else (0, doff), dmax=dmax, bos=bos,
                src=None if snull else (0, soff), slen=slen, sbos=sbos, arena=list(arena), early=early,
                truthful=(dnull or doff + dmax <= len(arena)) and (snull or soff + slen <= len(arena) or slen > dmax))
    return Op(fn, regs, [d, dmax_arg(fn, w, dmax), s, slen, bosarg(bos, w), bosarg(sbos, w)], W, Rd, meta)


def gen_memcpy(rng, tier):
    ops = []
    for fn, w in MEMCPY_FNS:
        # every placement of src relative to dest in one arena
        for dmax in (1, 2, 3, 5):
            for slen in range(0, dmax + 2):
                A = 2 * (dmax + slen) + 4
                doff = (A - dmax) // 2
                for soff in range(max(0, doff - slen - 1), min(A - slen, doff + dmax + 1) + 1):
                    ops.append(mk_memcpy(fn, w, pat(A, w), doff, dmax, soff, slen))
        # alignment x length sweep of the word-unrolled primitive (disjoint and overlapping)
        lens = list(range(0, 40)) + [47, 48, 63, 64, 65, 127, 128, 129, 159, 160]
        if tier == "quick":
            lens = [l for l in lens if l < 20 or l % 16 in (0, 1, 15)]
        for n in lens:
            for da in (0, 1, 3, 7) if tier == "quick" else range(0, 8):
                for delta in (-(n + 2), -5, -1, 1, 8, n + 2):
                    A = 3 * n + 40
                    doff = n + 16 + da
                    soff = doff + delta
                    if soff < 0 or soff + n > A or doff + n > A:
                        continue
                    ops.append(mk_memcpy(fn, w, pat(A, w, base=n), doff, n if n else 1, soff, n))
        # null / zero / limits / BOS
        a = pat(16, w)
        ops.append(mk_memcpy(fn, w, a, 0, 4, 8, 4, dnull=True))
        ops.append(mk_memcpy(fn, w, a, 0, 4, 8, 4, snull=True))
        ops.append(mk_memcpy(fn, w, a, 0, 0, 8, 4))
        ops.append(mk_memcpy(fn, w, a, 0, 0, 8, 0))
        ops.append(mk_memcpy(fn, w, a, 0, 4, 8, 0, dnull=True))
        ops.append(mk_memcpy(fn, w, a, 0, 4, 8, 5))
        ops.append(mk_memcpy(fn, w, a, 0, 4, 8, MEMLIM[w] + 1))
        ops.append(mk_memcpy(fn, w, a, 0, 4, 8, 4, bos=4))
        ops.append(mk_memcpy(fn, w, a, 0, 4, 8, 4, bos=8))
        ops.append(mk_memcpy(fn, w, a, 0, 4, 8, 4, bos=3))
        ops.append(mk_memcpy(fn, w, a, 0, 4, 8, 4, sbos=3))
        ops.append(mk_memcpy(fn, w, a, 0, 4, 8, 4, sbos=4))
        o = mk_memcpy(fn, w, a[:1], 1, MEMLIM[w] + 1, 0, 1, early=True)
        o.W = []
        o.meta["truthful"] = False
        ops.append(o)
    nrand = 200 if tier == "quick" else 5000
    for _ in range(nrand):
        fn, w = rng.choice(MEMCPY_FNS)
        dmax = rng.randint(1, 200)
        slen = rng.choice([rng.randint(0, dmax), dmax, dmax + 1])
        A = 2 * (dmax + slen) + 8
        doff = rng.randint(0, A - dmax)
        soff = rng.randint(0, max(0, A - slen))
        ops.append(mk_memcpy(fn, w, pat(A, w, base=rng.randint(0, 99)), doff, dmax, soff, slen))
    return ops


def mk_memset(fn, w, obj, doff, dmax, value, n, bos=None, dnull=False, kind="memset"):
    regs = [Region(w, obj)]
    d = "null" if dnull else ptr(0, doff)
    W = [] if dnull else [(0, doff, min(dmax, len(obj) - doff))]
    meta = dict(fam=kind, fn=fn, w=w, dest=None if dnull else (0, doff), dmax=dmax, bos=bos, value=value, n=n,
                obj=list(obj), truthful=dnull or doff + dmax <= len(obj))
    if kind == "memset":
        args = [d, dmax_arg(fn, w, dmax), value, n, bosarg(bos, w)]
    else:
        args = [d, dmax, bosarg(bos, w)]
    return Op(fn, regs, args, W, W, meta)


def gen_memset(rng, tier):
    ops = []
    for fn, w in MEMSET_FNS:
        top = (1 << (8 * w)) - 1
        for n in list(range(0, 40)) + [63, 64, 65, 128, 129, 160]:
            for da in (0, 1, 3, 7) if tier == "quick" else range(0, 16):
                for v in (0, 1, 0x7F, 0x80, 0xFF) if w == 1 else (0, 1, top, 0x80):
                    obj = pat(n + da + 2, w)
                    ops.append(mk_memset(fn, w, obj, da, n + 2, v, n))
        obj = pat(8, w)
        ops.append(mk_memset(fn, w, obj, 0, 4, 0x41, 2, dnull=True))
        ops.append(mk_memset(fn, w, obj, 0, 0, 0x41, 0))
        ops.append(mk_memset(fn, w, obj, 0, 0, 0x41, 2))
        ops.append(mk_memset(fn, w, obj, 0, 4, 0x41, 5))
        ops.append(mk_memset(fn, w, obj, 4, 4, 0x41, 5))
        ops.append(mk_memset(fn, w, obj, 0, 4, 0x41, MEMLIM[w] + 1))
        ops.append(mk_memset(fn, w, obj, 0, 4, 0x141 if w == 1 else 0x41, 2))
        ops.append(mk_memset(fn, w, obj, 0, 2, 0x41, 2, bos=8))
        ops.append(mk_memset(fn, w, obj, 0, 2, 0x41, 6, bos=8))
        ops.append(mk_memset(fn, w, obj, 0, 8, 0x41, 6, bos=8))
        ops.append(mk_memset(fn, w, obj, 0, 9, 0x41, 6, bos=8))
    for fn, w in MEMZERO_FNS:
        for n in list(range(0, 40)) + [63, 64, 65, 128, 129, 160]:
            for da in (0, 1, 3, 7):
                obj = pat(n + da, w)
                ops.append(mk_memset(fn, w, obj if obj else [1], da if obj else 0, n, 0, n, kind="memzero"))
        obj = pat(8, w)
        ops.append(mk_memset(fn, w, obj, 0, 4, 0, 4, dnull=True, kind="memzero"))
        ops.append(mk_memset(fn, w, obj, 0, MEMLIM[w] + 1, 0, 0, kind="memzero"))
        ops.append(mk_memset(fn, w, obj, 0, 4, 0, 4, bos=8, kind="memzero"))
        ops.append(mk_memset(fn, w, obj, 0, 9, 0, 9, bos=8, kind="memzero"))
    return ops


# ------------------------------------------------------------------ products of simultaneous violations (C05)
def gen_copy_violprod(rng, tier):
    ops = []
    for w in (1, 4):
        for fn in COPY_FNS[w] + (["stpcpy_s", "stpncpy_s"] if w == 1 else []):
            bounded = fn in BOUNDED
            src = [0x61, 0x62, 0]
            for dnull in (False, True):
                for dmax in (0, 2, 4, LIM[w] + 1):
                    for snull in (False, True):
                        for slen in ((0, 2, 5, LIM[w] + 1) if bounded else (None,)):
                            for bos in (None, 3, 8):
                                for sbos in ((None, 1) if bounded else (None,)):
                                    for prior in ([X] * 8, [0x70, 0] + [X] * 6):
                                        o = mk_copy_sep(fn, w, dmax, prior, src, slen, bos=bos, objsize=8, dnull=dnull,
                                                        snull=snull, sbos=sbos)
                                        if dmax > 8 and bos is None and not dnull:
                                            # over the limit, size unknown: point dest at the guard page: any touch faults
                                            o.args[0] = ptr(0, 8)
                                            o.W = []
                                            o.Rd = [e for e in o.Rd if e[0] != 0]
                                            o.meta["dest"] = (0, 8)
                                            o.meta["objsize"] = 0
                                            o.meta["early"] = True
                                            o.meta["truthful"] = False
                                        ops.append(o)
    return ops


def gen_mem_violprod(rng, tier):
    ops = []
    for fn, w in MEMCPY_FNS:
        a = pat(24, w)
        for dnull in (False, True):
            for dmax in (0, 4, MEMLIM[w] + 1):
                for snull in (False, True):
                    for slen in (0, 3, 5, MEMLIM[w] + 1):
                        for bos in (None, 3, 8):
                            for sbos in (None, 2):
                                for soff in (12, 2):   # disjoint / overlapping
                                    o = mk_memcpy(fn, w, a, 0, dmax, soff, slen, bos=bos, sbos=sbos, dnull=dnull, snull=snull)
                                    if dmax > 24:
                                        o.meta["truthful"] = False
                                    ops.append(o)
    for fn, w in MEMSET_FNS:
        obj = pat(8, w)
        for dnull in (False, True):
            for dmax in (0, 4, 8, MEMLIM[w] + 1):
                for v in (0x41, 0x141 if w == 1 else 0x41):
                    for n in (0, 2, 5, 9, MEMLIM[w] + 1):
                        for bos in (None, 3, 8):
                            o = mk_memset(fn, w, obj, 0, dmax, v, n, bos=bos, dnull=dnull)
                            if dmax > 8:
                                o.meta["truthful"] = False
                            ops.append(o)
    for fn, w in MEMZERO_FNS:
        obj = pat(8, w)
        for dnull in (False, True):
            for dmax in (0, 4, 8, MEMLIM[w] + 1):
                for bos in (None, 3, 8):
                    o = mk_memset(fn, w, obj, 0, dmax, 0, dmax, bos=bos, dnull=dnull, kind="memzero")
                    if dmax > 8:
                        o.meta["truthful"] = False
                    ops.append(o)
    return ops

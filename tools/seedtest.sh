#!/bin/sh
# usage: tools/seedtest.sh <patch.diff> <ID> [<ID> ...]
# applies the patch to a scratch copy of /repo (never /repo itself while other runs use it) and runs the checks
set -e
P="$1"; shift
S=/tmp/seedrepo_$$
rm -rf $S; cp -a /repo $S
git -C $S apply "$P"
for id in "$@"; do
  echo "=== $id on $(basename $(dirname $P))"
  VERIF_REPO=$S "$(dirname "$0")/../check" $id 2>&1 | grep -v "ops in\|^KNOWN" | head -${SEED_LINES:-8} || true
done
rm -rf $S

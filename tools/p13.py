"""C13: constraint-handler registration histories, real pthreads vs. the Lean state machine."""
import subprocess, re, os, sys, json, random, time, itertools, hashlib
import orch, buildlib, proto
from orch import Result, log, VERIF

KINDS = "sm"
HS = "-123"


def oracle(ops):
    """the property's dispatch rule, evaluated directly (independent of the Lean model)"""
    glob = {}
    tl = {}
    alive = {0}
    out = []
    for op in ops:
        t = int(op[1])
        if t not in alive:
            out.append("x"); continue
        if op[0] in "ST":
            k, h = op[2], op[3]
            store = "0" if h == "-" else h
            if op[0] == "S":
                out.append("p" + glob.get(k, "-")); glob[k] = store
            else:
                out.append("p" + tl.get((t, k), "-")); tl[(t, k)] = store
        elif op[0] == "V":
            k = op[2]
            out.append("r" + tl.get((t, k), glob.get(k, "0")))
        elif op[0] == "P":
            c = int(op[3])
            alive.add(c)
            for k in KINDS:
                tl.pop((c, k), None)
            out.append("n")
    return out


def gen_histories(rng, tier):
    hist = []
    # exhaustive: every sequence of length <= 3 over a reduced alphabet, on two threads (1 spawned first)
    alpha = ["S0s1", "S1s2", "S0s-", "T0s3", "T1s1", "T1s-", "V0s", "V1s", "S0m2", "V1m", "T1m3"]
    for n in (1, 2, 3):
        for seq in itertools.product(alpha, repeat=n):
            hist.append(["P0:1"] + list(seq) + ["V0s", "V1s", "V0m", "V1m"])
    # spawn in the middle: registrations made before a thread exists must not leak into it
    for pre in itertools.product(["S0s1", "T0s2", "T0s-", "S0m3", "T0m1"], repeat=2):
        for post in (["V1s", "V1m"], ["T1s3", "V1s", "V0s"], ["S1s-", "V0s", "V1s"]):
            hist.append(list(pre) + ["P0:1"] + post + ["V0s", "V0m"])
            hist.append(list(pre) + ["P0:1", "P1:2"] + [p.replace("1", "2", 1) if p[0] in "TV" else p for p in post] + ["V2s", "V2m", "V1s"])
    nrand = 1500 if tier == "quick" else 20000
    for _ in range(nrand):
        n = rng.randint(4, 12)
        alive = [0]
        h = []
        for _ in range(n):
            r = rng.random()
            if r < 0.12 and len(alive) < 4:
                c = max(alive) + 1
                h.append("P%d:%d" % (rng.choice(alive), c)); alive.append(c)
            elif r < 0.45:
                h.append("V%d%s" % (rng.choice(alive), rng.choice(KINDS)))
            elif r < 0.72:
                h.append("T%d%s%s" % (rng.choice(alive), rng.choice(KINDS), rng.choice(HS)))
            else:
                h.append("S%d%s%s" % (rng.choice(alive), rng.choice(KINDS), rng.choice(HS)))
        for t in alive:
            for k in KINDS:
                h.append("V%d%s" % (t, k))
        hist.append(h)
    return hist


def run(tier, seed, replay=None):
    pid = "C13"
    res = Result(pid, tier, seed)
    orch.gen_mod.main()
    lean_ok, lean_log, dt = orch.lake_build(orch.prop_targets("C13"))
    drv_ok = lean_ok or orch.lake_build(["safec_model"])[0]
    obs = orch.obligations(pid)
    audit, _ = orch.audit_axioms(pid, obs) if lean_ok else ([dict(o, ok=False, axioms=None, error="build failed") for o in obs], "")
    forb = orch.forbidden_tokens()
    L = buildlib.build(slack=True)
    hreg = buildlib.build_harness(L, os.path.join(VERIF, "harness", "hreg.c"), os.path.join(L["dir"], "hreg"))
    if replay:
        rep = json.load(open(replay))
        hists = [rep["history"]]
    else:
        hists = gen_histories(random.Random(seed), tier)
    lines = ["id=%d ops=%s" % (i, ",".join(h)) for i, h in enumerate(hists)]
    c, rc, err = proto.run_lines([hreg], lines, timeout=3000)
    m, rc2, err2 = proto.run_lines([orch.MODEL_BIN], lines) if drv_ok else ({}, 0, "")
    for i, h in enumerate(hists):
        dc = c.get(str(i))
        if dc is None or "out" not in dc:
            res.violations.append(("harness-crash", dict(kind="crash", history=h, impl=dc)))
            continue
        res.evaluations += 1
        got = dc["out"].split(",")
        want = oracle(h)
        key = ",".join(h)
        if any(o[0] == "V" for o in h) and any(o[0] in "ST" for o in h):
            res.distinct.add(key)
        res.count("len", str(len(h)))
        res.count("threads", str(1 + sum(1 for o in h if o[0] == "P")))
        if len(res.samples) < 5 and i % 401 == 7:
            res.samples.append({"history": key, "impl": dc["out"]})
        if got != want:
            j = next(j for j, (a, b) in enumerate(zip(got, want)) if a != b)
            sig = "dispatch:%s:got=%s:want=%s" % (h[j][0], got[j][0], want[j][0])
            res.violations.append((sig, dict(kind="property-fails-on-implementation", property=pid, history=h, step=j, op=h[j],
                                             impl=got, expected=want, model=(m.get(str(i)) or {}).get("out"))))
        dm = m.get(str(i))
        if dm is not None and dm.get("out") != dc["out"] and got == want:
            res.mismatch.append(dict(kind="correspondence", fn="handlers", history=h, impl=dc["out"], model=dm.get("out")))
        if dm is not None:
            res.modelled.add("set/thrd_set/invoke str+mem")
    # concurrent (unserialised) process-wide registrations: the micro-step machine of Props/C13Micro.lean predicts that the
    # load / store pair of set_*_constraint_handler_s is not an exchange (micro_returns_prev_witness); replay on the C
    if not replay:
        try:
            race = buildlib.build_harness(L, os.path.join(VERIF, "harness", "hreg_race.c"), os.path.join(L["dir"], "hreg_race"))
            out = subprocess.run([race], capture_output=True, text=True, timeout=300).stdout
            mm = re.search(r"returned-twice=(\d+) never-returned=(\d+)", out)
            res.count("race", out.strip()[:120])
            if mm and int(mm.group(1)) > 0:
                sig = "set:concurrent-registration:previous-returned-twice"
                ent = next((e for e in orch.load_known() if orch.known_match(e, pid, sig, 1)), None)
                if ent is not None:
                    kk = ent.get("id", sig)
                    res.known_hit.setdefault(kk, dict(ent, count=0, example=out.strip(), sigs=set()))
                    res.known_hit[kk]["count"] += int(mm.group(1))
                    res.known_hit[kk]["sigs"].add(sig)
                else:
                    res.violations.append((sig, dict(kind="property-fails-on-implementation", property=pid, harness="harness/hreg_race.c",
                                                     output=out.strip(), model="SafeC.Props.C13Micro.micro_returns_prev_witness")))
        except Exception as e:      # the auxiliary replay must never break the check
            res.count("race", "not run: %s" % str(e)[:80])
    trusted = ["Lean 4.33 kernel; axioms propext, Classical.choice, Quot.sound only (audited)",
               "Lean model lean/SafeC/Models/Handlers.lean of safe_{str,mem}_constraint.c (8 lines of C each), tied by executing the same histories with real pthreads (harness/hreg.c)",
               "sequential consistency for the serialised history order (threads handed a semaphore token per operation)",
               "gcc -O0 build of the current tree, glibc 2.36 TLS"]
    return orch.finish(res, pid, lean_ok, lean_log, audit, forb, "", trusted,
                       ["every C operation is one aligned word load or store, so an interleaving of N threads is a history (SC assumed)",
                        "whether a child inherits its creator's thread-local registration is left open by the property; the code does not, and no theorem depends on it"],
                       extra_cov=dict(rule="histories: exhaustive over an 11-letter alphabet up to length 3 on two threads (+ spawn-in-the-middle patterns), random length 4-12 on up to 4 threads; every history ends with a violation of each kind on each live thread; distinct = distinct history; non-trivial = contains a registration and a violation",
                                      exhaustive=False))

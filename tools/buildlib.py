"""Build the safeclib objects from /repo's *current working tree* into a scratch directory.

The list of library sources is read from the tree's own build description
(src/Makefile, variables libsafec_la_SOURCES etc.); if the Makefile is missing the list
falls back to every .c file under src/ except the kernel module.
"""
import os, subprocess, shutil, tempfile, atexit, hashlib, re, sys
from concurrent.futures import ThreadPoolExecutor

REPO = os.environ.get("VERIF_REPO", "/repo")
VERIF = os.path.dirname(os.path.dirname(os.path.abspath(__file__)))

_scratch = []


def scratch_dir(prefix="safec_verif_"):
    d = tempfile.mkdtemp(prefix=prefix)
    _scratch.append(d)
    return d


@atexit.register
def _cleanup():
    for d in _scratch:
        shutil.rmtree(d, ignore_errors=True)


def lib_sources():
    mk = os.path.join(REPO, "src", "Makefile")
    files = []
    if os.path.exists(mk):
        try:
            out = subprocess.run(
                ["make", "-s", "-C", os.path.join(REPO, "src"), "--eval",
                 "vp_print: ; @echo $(libsafec_la_SOURCES) $(libsafeccore_la_SOURCES) $(libmemprims_la_SOURCES)",
                 "vp_print"], capture_output=True, text=True, timeout=60)
            files = [f for f in out.stdout.split() if f.endswith(".c")]
        except Exception:
            files = []
    if not files:
        for root, _, fs in os.walk(os.path.join(REPO, "src")):
            if "slkm" in root:
                continue
            for f in fs:
                if f.endswith(".c"):
                    files.append(os.path.relpath(os.path.join(root, f), os.path.join(REPO, "src")))
    return sorted(set(files))


def tree_hash():
    h = hashlib.sha256()
    for base in ("src", "include"):
        for root, dirs, fs in os.walk(os.path.join(REPO, base)):
            dirs.sort()
            for f in sorted(fs):
                if f.endswith((".c", ".h")):
                    p = os.path.join(root, f)
                    h.update(p.encode())
                    h.update(open(p, "rb").read())
    p = os.path.join(REPO, "config.h")
    if os.path.exists(p):
        h.update(open(p, "rb").read())
    return h.hexdigest()[:16]


def build(slack=True, opt="-O0", extra_cflags=(), shared=False, pic=False, outdir=None, defines=()):
    """Compile every library source; returns dict(dir, objs, lib, incflags)."""
    d = outdir or scratch_dir()
    inc = os.path.join(d, "inc")
    os.makedirs(inc, exist_ok=True)
    incflags = []
    if not slack:
        src = open(os.path.join(REPO, "include", "safe_config.h")).read()
        new = re.sub(r"^#define\s+SAFECLIB_STR_NULL_SLACK.*$", "#undef SAFECLIB_STR_NULL_SLACK", src, flags=re.M)
        if new == src:
            raise RuntimeError("could not switch off SAFECLIB_STR_NULL_SLACK")
        open(os.path.join(inc, "safe_config.h"), "w").write(new)
    incflags = ["-I" + inc, "-I" + os.path.join(REPO, "include"), "-I" + os.path.join(REPO, "src"), "-I" + REPO]
    cflags = ["-DHAVE_CONFIG_H", opt, "-g", "-fno-strict-aliasing", "-fno-strict-overflow",
              "-fno-delete-null-pointer-checks", "-fno-lifetime-dse", "-w"] + list(extra_cflags)
    for df in defines:
        cflags.append("-D" + df)
    if shared or pic:
        cflags.append("-fPIC")
    srcs = lib_sources()
    objs = []
    jobs = []
    for s in srcs:
        o = os.path.join(d, s.replace("/", "_")[:-2] + ".o")
        objs.append(o)
        jobs.append(["gcc"] + cflags + incflags + ["-c", os.path.join(REPO, "src", s), "-o", o])
    errs = []

    def run(cmd):
        r = subprocess.run(cmd, capture_output=True, text=True)
        if r.returncode != 0:
            errs.append((cmd, r.stderr))

    with ThreadPoolExecutor(max_workers=16) as ex:
        list(ex.map(run, jobs))
    if errs:
        raise RuntimeError("library build failed: " + errs[0][1][:2000])
    res = {"dir": d, "objs": objs, "incflags": incflags, "cflags": cflags}
    if shared:
        so = os.path.join(d, "libsafec_v.so")
        r = subprocess.run(["gcc", "-shared", "-Wl,-z,now", "-o", so] + objs, capture_output=True, text=True)
        if r.returncode != 0:
            raise RuntimeError("link failed: " + r.stderr[:2000])
        res["lib"] = so
    else:
        a = os.path.join(d, "libsafec_v.a")
        r = subprocess.run(["ar", "rcs", a] + objs, capture_output=True, text=True)
        if r.returncode != 0:
            raise RuntimeError("ar failed: " + r.stderr[:2000])
        res["lib"] = a
    return res


def build_harness(lib, src, out, extra=(), libs=()):
    cmd = ["gcc", "-O1", "-g", "-w"] + lib["incflags"] + ["-I" + os.path.join(VERIF, "harness"), "-I" + lib["dir"]] + list(extra) + \
          ["-o", out] + (src if isinstance(src, list) else [src]) + [lib["lib"]] + list(libs) + ["-lm", "-lpthread"]
    r = subprocess.run(cmd, capture_output=True, text=True)
    if r.returncode != 0:
        raise RuntimeError("harness build failed: " + r.stderr[:3000])
    return out


if __name__ == "__main__":
    import time
    t = time.time()
    L = build(slack=True)
    print(len(L["objs"]), "objects in", round(time.time() - t, 2), "s ->", L["lib"])
    sys.path.insert(0, os.path.dirname(__file__))
    import fnspec
    fnspec.gen_dispatch(os.path.join(L["dir"], "dispatch.inc"))
    t = time.time()
    print(build_harness(L, os.path.join(VERIF, "harness", "hx.c"), os.path.join(L["dir"], "hx")), round(time.time() - t, 2))

"""C15: multibyte / wide conversions agree with the C library and round-trip.

Runs the real `_mbstowcs_s_chk … _wctomb_s_chk` (harness/hconv.c: dest flush against a PROT_NONE page, canaries in
front, counting handler, chosen entry errno and mbstate) and the Lean model (`conv=` lines of safec_model) on the
same inputs, compares the C15 projection (return, *retvalp, dest cells, fault, *srcp offset, mbstate, handler codes),
and evaluates an oracle written from the property text against PLAIN GLIBC run by the harness on private copies
(limit = len, limit = min(len, dmax), NULL destination).  Multi-call histories (query → convert, wide → multibyte →
wide, restart mid-string carrying *srcp and ps, invalid → valid with the same state) are built round by round from
the implementation's own observations.  `L_*` lines validate the Lean models of glibc themselves.
"""
import os, sys, json, random, time, re, subprocess, itertools, hashlib, zlib
from concurrent.futures import ThreadPoolExecutor
import orch, buildlib, proto, mkoblig
from orch import Result, log, VERIF

PID = "C15"
SIZE_MAX = (1 << 64) - 1
EOK, ESNULLP, ESZEROL, ESLEMAX, ESOVRLP, ESNOSPC, EOVERFLOW, EILSEQ = 0, 400, 401, 403, 404, 406, 75, 84
RSIZE_MAX_STR, RSIZE_MAX_WSTR = 4096, 1024
STRFNS = ("mbstowcs_s", "mbsrtowcs_s", "wcstombs_s", "wcsrtombs_s")
CHRFNS = ("wcrtomb_s", "wctomb_s")
MB2WC = ("mbstowcs_s", "mbsrtowcs_s")
RESTART = ("mbsrtowcs_s", "wcsrtombs_s")


# ------------------------------------------------------------------ own UTF-8 arithmetic (generator side only)
def enc(c):
    """RFC 2279 style 1..6 byte form of a 31-bit value (no validity judgement: generators also want the bad ones)"""
    if c < 0x80: return [c]
    if c < 0x800: return [0xC0 | c >> 6, 0x80 | c & 63]
    if c < 0x10000: return [0xE0 | c >> 12, 0x80 | c >> 6 & 63, 0x80 | c & 63]
    if c < 0x200000: return [0xF0 | c >> 18, 0x80 | c >> 12 & 63, 0x80 | c >> 6 & 63, 0x80 | c & 63]
    if c < 0x4000000: return [0xF8 | c >> 24, 0x80 | c >> 18 & 63, 0x80 | c >> 12 & 63, 0x80 | c >> 6 & 63, 0x80 | c & 63]
    return [0xFC | c >> 30 & 1, 0x80 | c >> 24 & 63, 0x80 | c >> 18 & 63, 0x80 | c >> 12 & 63, 0x80 | c >> 6 & 63, 0x80 | c & 63]


VALID_CP = [0x61, 0x7F, 0x80, 0x7FF, 0x800, 0x20AC, 0xD7FF, 0xE000, 0xFFFF, 0x10000, 0x1F600, 0x10FFFF, 0x110000, 0x1FFFFF,
            0x200000, 0x3FFFFFF, 0x4000000, 0x7FFFFFFF]
BAD_CP = [0xD800, 0xDFFF, 0x80000000, 0xFFFFFFFF]
BAD_MB = {
    "stray80": [0x80], "strayBF": [0xBF], "FE": [0xFE], "FF": [0xFF], "C0-80": [0xC0, 0x80], "C1-BF": [0xC1, 0xBF],
    "ovl3a": [0xE0, 0x80, 0x80], "ovl3b": [0xE0, 0x9F, 0xBF], "ovl4a": [0xF0, 0x80, 0x80, 0x80], "ovl4b": [0xF0, 0x8F, 0xBF, 0xBF],
    "ovl5": [0xF8, 0x87, 0xBF, 0xBF, 0xBF], "ovl6": [0xFC, 0x83, 0xBF, 0xBF, 0xBF, 0xBF], "surD800": [0xED, 0xA0, 0x80],
    "surDFFF": [0xED, 0xBF, 0xBF], "tr2": [0xC3], "tr3a": [0xE2], "tr3b": [0xE2, 0x82], "tr4": [0xF0, 0x9F, 0x98],
    "tr5": [0xF8, 0x88, 0x80, 0x80], "tr6": [0xFC, 0x84, 0x80, 0x80, 0x80], "badcont": [0xE2, 0x41], "badcont2": [0xE2, 0x82, 0x41],
}


def hexs(cells):
    if cells is None: return "-"
    if not cells: return "z"
    return ",".join("%x" % c for c in cells)


def unhex(s):
    if s in ("-", None): return None
    if s == "z": return []
    return [int(x, 16) for x in s.split(",")]


class Case:
    __slots__ = ("fn", "loc", "dest", "dmax", "len", "src", "wc", "bos", "ps", "rvn", "spn", "psn", "alias", "errno", "origin", "sane", "chain")

    def __init__(self, fn, loc, dest, dmax, len=0, src=None, wc=0, bos=None, ps=(), rvn=0, spn=0, psn=0, alias=0, errno=0, origin="", chain=None):
        self.fn, self.loc, self.dest, self.dmax, self.len, self.src, self.wc = fn, loc, dest, dmax, len, src, wc
        self.bos, self.ps, self.rvn, self.spn, self.psn, self.alias, self.errno, self.origin, self.chain = bos, list(ps), rvn, spn, psn, alias, errno, origin, chain
        self.sane = None

    def line(self, i):
        t = ["id=%d" % i, "conv=" + self.fn, "loc=" + self.loc, "dest=" + hexs(self.dest), "dmax=%d" % self.dmax]
        if self.fn in STRFNS or self.fn.startswith("L_"):
            t += ["len=%d" % self.len, "src=" + hexs(self.src)]
        if self.fn in CHRFNS or self.fn in ("L_wcrtomb", "L_wctomb"):
            t.append("wc=%x" % self.wc)
        t.append("bos=%s" % ("-" if self.bos is None else self.bos))
        if self.ps: t.append("ps=" + hexs(self.ps))
        for k in ("rvn", "spn", "psn", "alias"):
            if getattr(self, k): t.append("%s=1" % k)
        if self.errno: t.append("errno=%d" % self.errno)
        return " ".join(t)

    def key(self):
        return self.line(0)


def is_sane(c):
    if c.rvn or c.spn or c.psn or c.alias: return False
    if c.fn in STRFNS:
        if c.src is None: return False
        if c.dest is not None:
            if not (0 < c.dmax <= RSIZE_MAX_WSTR and c.len <= RSIZE_MAX_WSTR): return False
            if c.dmax > len(c.dest): return False            # the caller's dmax must be true
            esz = 4 if c.fn in MB2WC else 1
            if c.bos is not None and (c.bos != len(c.dest) * esz or c.len * esz > c.bos): return False
        return True
    if c.dest is not None:
        if not (0 < c.dmax <= RSIZE_MAX_WSTR) or c.dmax > len(c.dest): return False
        if c.bos is not None and c.bos != len(c.dest): return False
        return True
    return c.dmax == 0


# ------------------------------------------------------------------ generators
def lattice(n, extra=()):
    return sorted({0, 1, max(n - 1, 0), n, n + 1, n + 2} | {x for x in extra if x >= 0})


def fill(n, wide):
    return [(0x5A5A5A00 + i if wide else 0x50 + i % 16) for i in range(n)]


def str_cases(fn, loc, src, nunits, total, rng, origin, dense=True, slackcap=False, errno=0):
    """one source × the len/dmax lattice around its converted length (`total` = cells the whole conversion yields)"""
    wide = fn in MB2WC
    out = []
    lens = lattice(total, (nunits, total + 5))
    dmaxs = [d for d in lattice(total, (nunits + 1,)) if d > 0]
    if not dense:
        lens = sorted(set(rng.sample(lens, min(3, len(lens))) + [total + 1]))
        dmaxs = sorted(set(rng.sample(dmaxs, min(3, len(dmaxs))) + [total + 1]))
    for ln in lens:
        for dm in dmaxs:
            out.append(Case(fn, loc, fill(dm, wide), dm, ln, src, origin=origin, errno=errno))
            if slackcap and ln > dm:
                out.append(Case(fn, loc, fill(dm + 8, wide), dm, ln, src, origin=origin + "/slackcap"))
    for dm in (0, total, total + 1):
        out.append(Case(fn, loc, None, dm, total + 1, src, origin=origin + "/query", errno=rng.choice((0, 34))))
    return out


def mb_units(tier):
    v = [enc(c) for c in VALID_CP]
    b = list(BAD_MB.values())
    return v, b


def gen_strings(rng, tier):
    cases = []
    v, b = mb_units(tier)
    small_v = [enc(c) for c in (0x61, 0xE9, 0x20AC, 0x1F600)]
    small_b = [BAD_MB["stray80"], BAD_MB["tr3b"], BAD_MB["surD800"], BAD_MB["C0-80"]]
    # ---- multibyte sources
    mbs = [([], 0)]
    units = v + b
    for u in units:
        mbs.append((u, 1))
    pair_pool = units if tier != "quick" else (v[:1] + v[2:3] + v[5:6] + v[9:10] + v[12:13] + v[14:15] + v[17:18] + b[:2] + b[4:5] + b[12:13] + b[16:17] + b[20:21])
    for x in pair_pool:
        for y in pair_pool:
            mbs.append((x + y, 2))
    tri_pool = small_v + small_b[: (4 if tier != "quick" else 2)]
    for x in tri_pool:
        for y in tri_pool:
            for z in tri_pool:
                mbs.append((x + y + z, 3))
    if tier != "quick":
        quad = small_v + small_b[:2]
        for t in itertools.product(quad, repeat=4):
            mbs.append((sum(t, []), 4))
    for loc in ("U", "C"):
        for fn in MB2WC:
            for k, (s, nu) in enumerate(mbs):
                if loc == "C" and tier == "quick" and k % 3 and nu > 1:
                    continue
                dense = nu <= 2 or tier != "quick" or k % 5 == 0
                cases += str_cases(fn, loc, s, nu, nu, rng, "exh%d" % nu, dense=dense, slackcap=(k % 7 == 0), errno=(34 if k % 11 == 0 else 0))
    # ---- wide sources
    cps = VALID_CP + BAD_CP
    wss = [[]] + [[c] for c in cps]
    pool2 = cps if tier != "quick" else [0x61, 0x80, 0x20AC, 0x10000, 0x200000, 0x7FFFFFFF, 0xD800, 0x80000000]
    wss += [[x, y] for x in pool2 for y in pool2]
    pool3 = [0x61, 0xE9, 0x20AC, 0x1F600, 0x4000000, 0xDFFF]
    wss += [[x, y, z] for x in pool3 for y in pool3 for z in pool3]
    if tier != "quick":
        wss += [list(t) for t in itertools.product(pool3[:5], repeat=4)]
    for loc in ("U", "C"):
        for fn in ("wcstombs_s", "wcsrtombs_s"):
            for k, ws in enumerate(wss):
                if loc == "C" and tier == "quick" and k % 3 and len(ws) > 1:
                    continue
                nb = sum(len(enc(c)) for c in ws if c < 0x80000000)
                bounds = list(itertools.accumulate(len(enc(c)) for c in ws if c < 0x80000000))
                wide_lat = lattice(nb, [x + d for x in bounds for d in (-1, 0, 1)])
                dense = len(ws) <= 2 or tier != "quick" or k % 5 == 0
                lens, dmaxs = wide_lat, [d for d in wide_lat if d > 0]
                if not dense:
                    lens = sorted(set(rng.sample(lens, min(3, len(lens))) + [nb + 1]))
                    dmaxs = sorted(set(rng.sample(dmaxs, min(3, len(dmaxs))) + [nb + 1]))
                elif len(lens) > 7 and tier == "quick":
                    lens = sorted(set(rng.sample(lens, 6) + [nb, nb + 1]))
                    dmaxs = sorted(set(rng.sample(dmaxs, 6) + [nb, nb + 1]))
                for ln in lens:
                    for dm in dmaxs:
                        cases.append(Case(fn, loc, fill(dm, False), dm, ln, ws, origin="wexh%d" % len(ws), errno=(34 if k % 11 == 0 else 0)))
                        if ln > dm and k % 7 == 0:
                            cases.append(Case(fn, loc, fill(dm + 8, False), dm, ln, ws, origin="wexh/slackcap"))
                for dm in (0, nb, nb + 1):
                    cases.append(Case(fn, loc, None, dm, nb + 1, ws, origin="wexh/query", errno=rng.choice((0, 34))))
    return cases


def gen_chars(rng, tier):
    cases = []
    cps = sorted(set(VALID_CP + BAD_CP + [0, 1, 0x7E, 0x81, 0x7FE, 0x801, 0xFFFE, 0x10001, 0x10FFFE, 0x110001, 0x1FFFFE, 0x200001, 0x3FFFFFE, 0x4000001, 0x7FFFFFFE]))
    if tier != "quick":
        cps += [rng.randrange(0, 1 << 31) for _ in range(3000)] + [rng.randrange(1 << 31, 1 << 32) for _ in range(100)]
        for b in (0x80, 0x800, 0xD800, 0xE000, 0x10000, 0x110000, 0x200000, 0x4000000, 0x80000000):
            cps += list(range(b - 3, b + 3))
    for loc in ("U", "C"):
        for fn in CHRFNS:
            for c in cps:
                for dm in range(1, 9):
                    cases.append(Case(fn, loc, fill(dm, False), dm, wc=c, origin="chr"))
                cases.append(Case(fn, loc, fill(12, False), 3, wc=c, origin="chr/slackcap"))
                cases.append(Case(fn, loc, None, 0, wc=c, origin="chr/query", errno=rng.choice((0, 34, 84))))
    return cases


def gen_entry(rng, tier):
    """argument violations (C05 territory; only `ret != 0` is asked of them here, but model and code must agree)"""
    cases = []
    for loc in ("U", "C"):
        for fn in STRFNS:
            wide = fn in MB2WC
            src = [0x61, 0x62]
            d = fill(4, wide)
            esz = 4 if wide else 1
            base = dict(dest=d, dmax=4, len=3, src=src)
            var = [dict(rvn=1), dict(src=None), dict(dmax=0), dict(dmax=RSIZE_MAX_WSTR + 1), dict(len=RSIZE_MAX_WSTR + 1),
                   dict(bos=4 * esz), dict(bos=2 * esz), dict(bos=4 * esz, len=5), dict(bos=4 * esz, dmax=RSIZE_MAX_WSTR + 1),
                   dict(dest=None, dmax=0, rvn=1), dict(dest=None, src=None, dmax=0), dict(dest=None, src=None, dmax=3),
                   dict(dmax=RSIZE_MAX_WSTR, len=2, dest=fill(RSIZE_MAX_WSTR, wide)), dict(dest=None, dmax=5000, len=5000)]
            if fn != "wcsrtombs_s":
                var.append(dict(alias=1))
            if fn in RESTART:
                var += [dict(spn=1), dict(psn=1), dict(spn=1, dest=None, dmax=0), dict(spn=1, dest=None, dmax=2)]
            for v in var:
                a = dict(base); a.update(v)
                cases.append(Case(fn, loc, a.pop("dest"), a.pop("dmax"), origin="entry", **a))
        for fn in CHRFNS:
            d = fill(4, False)
            var = [dict(rvn=1), dict(dmax=0), dict(dmax=RSIZE_MAX_WSTR + 1), dict(bos=4), dict(bos=2), dict(bos=4, dmax=RSIZE_MAX_STR + 1),
                   dict(dest=None, dmax=3), dict(dest=None, dmax=0)]
            if fn == "wcrtomb_s":
                var.append(dict(psn=1))
            for v in var:
                a = dict(dest=d, dmax=4, wc=0x61); a.update(v)
                cases.append(Case(fn, loc, a.pop("dest"), a.pop("dmax"), origin="entry", **a))
    # long sources: counts beyond RSIZE_MAX_STR in the query form
    long_w = [0x20AC] * 1500
    for dm in (0, 5000):
        cases.append(Case("wcstombs_s", "U", None, dm, 10, long_w, origin="long-query", errno=34))
        cases.append(Case("wcsrtombs_s", "U", None, dm, 10, long_w, origin="long-query", errno=34))
    cases.append(Case("mbstowcs_s", "U", None, 0, 10, [0x61] * 1500, origin="long-query", errno=34))
    cases.append(Case("mbsrtowcs_s", "U", None, 0, 10, [0x61] * 1500, origin="long-query", errno=34))
    # across the 0x20 slack switch / large exact fits
    for n in (31, 32, 33, 100, 1023):
        cases.append(Case("mbstowcs_s", "U", fill(n + 1, True), n + 1, n + 1, [0x61] * n, origin="big"))
        cases.append(Case("mbstowcs_s", "U", fill(n, True), n, n, [0x61] * n, origin="big"))
        cases.append(Case("wcstombs_s", "U", fill(n + 1, False), n + 1, n + 1, [0x61] * n, origin="big"))
        cases.append(Case("wcstombs_s", "U", fill(n, False), n, n + 3, [0x61] * n, origin="big"))
    return cases


def gen_partial(rng, tier):
    """mbsrtowcs_s entered with a non-initial conversion state (bytes left pending by an earlier mbrtowc)"""
    cases = []
    pends = [[0xE2], [0xE2, 0x82], [0xC3], [0xF0, 0x9F], [0xF0, 0x9F, 0x98], [0xE0], [0xED], [0xF8, 0x88, 0x80, 0x80], [0xFC, 0x84]]
    tails = [[0xAC], [0x82, 0xAC], [0xA9], [0x98, 0x80], [0x80], [0x41], [], [0xAC, 0x61], [0x82, 0xAC, 0xE2, 0x82, 0xAC], [0xA0, 0x80], [0x80, 0x80], [0x80, 0x80, 0x80, 0x80]]
    for p in pends:
        for t in tails:
            for ln in (0, 1, 2, 5):
                for dm in (1, 2, 6):
                    cases.append(Case("mbsrtowcs_s", "U", fill(dm, True), dm, ln, t, ps=p, origin="partial-state"))
            cases.append(Case("mbsrtowcs_s", "U", None, 0, 0, t, ps=p, origin="partial-state/query"))
    return cases


def gen_random(rng, tier, n):
    cases = []
    v, b = mb_units(tier)
    for _ in range(n):
        loc = "U" if rng.random() < 0.8 else "C"
        fn = rng.choice(STRFNS)
        k = rng.randrange(0, 9)
        bad = rng.random() < 0.3
        if fn in MB2WC:
            us = [rng.choice(v) if not (bad and rng.random() < 0.25) else rng.choice(b) for _ in range(k)]
            if loc == "C" and rng.random() < 0.7:
                us = [[rng.randrange(1, 0x80)] for _ in range(k)]
            src = sum(us, [])
            total = k
        else:
            src = [rng.choice(VALID_CP) if not (bad and rng.random() < 0.25) else rng.choice(BAD_CP) for _ in range(k)]
            if loc == "C" and rng.random() < 0.7:
                src = [rng.randrange(1, 0x80) for _ in range(k)]
            total = sum(len(enc(c)) for c in src if c < 0x80000000)
        ln = max(0, total + rng.choice((-3, -2, -1, 0, 1, 1, 2, 5)))
        dm = max(1, total + rng.choice((-3, -2, -1, 0, 1, 1, 2, 5)))
        null = rng.random() < 0.1
        cap = dm if rng.random() < 0.8 else dm + rng.randrange(1, 9)
        cases.append(Case(fn, loc, None if null else fill(cap, fn in MB2WC), 0 if null and rng.random() < 0.5 else dm, ln, src,
                          origin="random", errno=rng.choice((0, 0, 34))))
    return cases


def gen_libc(rng, tier):
    """direct validation of the Lean models of glibc (the trusted-base items)"""
    cases = []
    cps = sorted(set(VALID_CP + BAD_CP + [0]))
    nrand = 1500 if tier == "quick" else 60000
    cps += [rng.randrange(0, 1 << 31) for _ in range(nrand)] + [rng.randrange(1 << 31, 1 << 32) for _ in range(nrand // 20)]
    for bnd in (0x80, 0x800, 0xD800, 0xE000, 0x10000, 0x110000, 0x200000, 0x4000000, 0x80000000, 0x100000000):
        cps += [x for x in range(bnd - 40, bnd + 40) if 0 <= x < (1 << 32)]
    if tier != "quick":
        cps += list(range(0, 0x11000)) + list(range(0, 1 << 31, 65521))
    cps = sorted(set(cps))
    for loc in ("U", "C"):
        for c in cps if loc == "U" else cps[:: (7 if len(cps) > 5000 else 1)]:
            cases.append(Case("L_wcrtomb", loc, [0], 0, wc=c, origin="libc-enc"))
            if c < (1 << 31) and (loc == "U"):
                e = enc(c)
                cases.append(Case("L_dec", loc, [0], 0, src=e, origin="libc-dec"))          # decode(encode) incl. surrogates
                if len(e) > 1 and (c % 5 == 0 or len(cps) < 5000):
                    for cut in range(1, len(e)):
                        cases.append(Case("L_dec", loc, [0], 0, src=e[:cut], origin="libc-dec-trunc"))
                    e2 = list(e); e2[-1] ^= 0x40
                    cases.append(Case("L_dec", loc, [0], 0, src=e2, origin="libc-dec-badcont"))
        for c in (0x61, 0x20AC, 0xD800):
            cases.append(Case("L_wctomb", loc, [0], 0, wc=c, origin="libc-enc"))
            cases.append(Case("L_wctomb", loc, None, 0, wc=c, origin="libc-enc"))
            cases.append(Case("L_wcrtomb", loc, None, 0, wc=c, origin="libc-enc"))
        # every 1-byte and (sampled / all) 2-byte sequence, 3-byte lattice
        for b0 in range(1, 256):
            cases.append(Case("L_dec", loc, [0], 0, src=[b0], origin="libc-dec-1"))
        step = 1 if tier != "quick" else 5
        for b0 in range(0x80, 256, 1):
            for b1 in list(range(0, 256, 16 * step)) + [0x7F, 0x80, 0x81, 0x8F, 0x90, 0x9F, 0xA0, 0xBF, 0xC0]:
                cases.append(Case("L_dec", loc, [0], 0, src=[b0, b1], origin="libc-dec-2"))
        for b0 in (0xE0, 0xE1, 0xEC, 0xED, 0xEE, 0xEF, 0xF0, 0xF1, 0xF4, 0xF5, 0xF7, 0xF8, 0xFB, 0xFC, 0xFD):
            for b1 in (0x7F, 0x80, 0x87, 0x88, 0x8F, 0x90, 0x9F, 0xA0, 0xBF, 0xC0):
                for tail in ([0x80], [0xBF], [0x80, 0x80], [0xBF, 0xBF, 0xBF], [0x80, 0x80, 0x80, 0x80], [0x41]):
                    cases.append(Case("L_dec", loc, [0], 0, src=[b0, b1] + tail, origin="libc-dec-n"))
    # string level
    v, b = mb_units(tier)
    pool = [enc(c) for c in (0x61, 0xE9, 0x20AC, 0x1F600, 0x200000, 0x7FFFFFFF)] + [BAD_MB[k] for k in ("stray80", "tr3b", "surD800", "ovl3a", "tr4", "badcont2")]
    srcs = [[]] + pool + [x + y for x in pool for y in pool] + [x + y + z for x in pool[:5] + pool[6:8] for y in pool[:5] + pool[6:8] for z in pool[:5] + pool[6:8]]
    pends = [[], [0xE2], [0xE2, 0x82], [0xF0, 0x9F]]
    for loc in ("U", "C"):
        for k, s in enumerate(srcs):
            if loc == "C" and k % 4: continue
            for ln in range(0, 6):
                cases.append(Case("L_mbsrtowcs", loc, [0], 0, len=ln, src=s, origin="libc-mbs"))
                if k % 3 == 0:
                    cases.append(Case("L_mbstowcs", loc, [0], 0, len=ln, src=s, origin="libc-mbs"))
            cases.append(Case("L_mbsrtowcs", loc, None, 0, len=0, src=s, origin="libc-mbs"))
            if loc == "U" and k % 2 == 0:
                for p in pends[1:]:
                    for ln in (0, 1, 3):
                        cases.append(Case("L_mbsrtowcs", loc, [0], 0, len=ln, src=s, ps=p, origin="libc-mbs-pend"))
                    cases.append(Case("L_mbsrtowcs", loc, None, 0, len=0, src=s, ps=p, origin="libc-mbs-pend"))
    wpool = [0x61, 0x80, 0x20AC, 0x1F600, 0x200000, 0x7FFFFFFF, 0xD800, 0x80000000]
    wsrcs = [[]] + [[x] for x in wpool] + [[x, y] for x in wpool for y in wpool] + [[x, y, z] for x in wpool[:5] + wpool[6:7] for y in wpool[:5] + wpool[6:7] for z in wpool[:5] + wpool[6:7]]
    for loc in ("U", "C"):
        for k, s in enumerate(wsrcs):
            if loc == "C" and k % 4: continue
            for ln in range(0, 14, 1 if len(s) < 3 else 2):
                cases.append(Case("L_wcsrtombs", loc, [0], 0, len=ln, src=s, origin="libc-wcs"))
                if k % 3 == 0:
                    cases.append(Case("L_wcstombs", loc, [0], 0, len=ln, src=s, origin="libc-wcs"))
            cases.append(Case("L_wcsrtombs", loc, None, 0, len=0, src=s, origin="libc-wcs"))
    return cases


# ------------------------------------------------------------------ running
def run_lines(cmd, lines, workers=4):
    if not lines:
        return {}
    chunk = (len(lines) + workers - 1) // workers
    parts = [lines[i:i + chunk] for i in range(0, len(lines), chunk)]

    def one(p):
        r = subprocess.run(cmd, input="\n".join(p) + "\n", capture_output=True, text=True)
        if r.returncode != 0:
            raise RuntimeError("%s exited %d: %s" % (cmd[0], r.returncode, r.stderr[:400]))
        return r.stdout
    out = {}
    with ThreadPoolExecutor(max_workers=workers) as ex:
        for txt in ex.map(one, parts):
            for ln in txt.splitlines():
                d = dict(t.split("=", 1) for t in ln.split() if "=" in t)
                if "id" in d:
                    out[int(d["id"])] = d
    return out


def pend_to_state(p):
    """glibc's mbstate_t (count, value) for a list of pending UTF-8 bytes"""
    if not p:
        return (0, None)
    b0 = p[0]
    cnt, hi = (2, b0 & 0x1F) if b0 < 0xE0 else (3, b0 & 0xF) if b0 < 0xF0 else (4, b0 & 7) if b0 < 0xF8 else (5, b0 & 3) if b0 < 0xFC else (6, b0 & 1)
    ch = hi
    for x in p[1:]:
        ch = (ch << 6) | (x & 0x3F)
    ch <<= 6 * (cnt - len(p))
    return (len(p) | (cnt << 8), ch & 0xFFFFFFFF)


def state_to_pend(st):
    cnt, val = st.split(":")
    cnt, val = int(cnt), int(val, 16)
    if cnt == 0:
        return []
    n, total = cnt & 255, cnt >> 8
    lead = {2: 0xC0, 3: 0xE0, 4: 0xF0, 5: 0xF8, 6: 0xFC}[total]
    bs = [0] * total
    w = val
    for i in range(total - 1, 0, -1):
        bs[i] = 0x80 | (w & 0x3F)
        w >>= 6
    bs[0] = lead | w
    return bs[:n]


def impl_state(d):
    cnt, val = d["st"].split(":")
    return (int(cnt), int(val, 16) if int(cnt) else None)


def projection_diff(c, dc, dm):
    """None when model and implementation agree on the C15 projection"""
    if c.fn.startswith("L_"):
        restart = c.fn in ("L_mbsrtowcs", "L_wcsrtombs")
        for k in ("r", "wc", "out", "src", "e"):
            if k == "src" and not restart:
                continue
            if k in dm and k in dc and dm[k] != dc[k]:
                return "libc model differs on %s: glibc %s, model %s" % (k, dc[k], dm[k])
        if "st" in dm and "st" in dc and restart:
            if pend_to_state(unhex(dm["st"]) or []) != impl_state(dc):
                return "libc model differs on the state: glibc %s, model %s" % (dc["st"], dm["st"])
        return None
    mf, cf = dm.get("fault") == "1", dc.get("fault") == "1"
    if mf != cf:
        return "fault: implementation %s (%s), model %s" % (cf, dc.get("fa"), mf)
    if cf:
        return None
    for k, name in (("ret", "return value"), ("rv", "*retvalp"), ("dest", "dest cells"), ("ev", "handler codes")):
        if dm.get(k, "") != dc.get(k, ""):
            return "%s: implementation %s, model %s" % (name, dc.get(k), dm.get(k))
    if c.fn in RESTART:
        if dm.get("src") != dc.get("src"):
            return "*srcp: implementation %s, model %s" % (dc.get("src"), dm.get("src"))
        if pend_to_state(unhex(dm["st"]) or []) != impl_state(dc):
            return "mbstate: implementation %s, model pending %s" % (dc["st"], dm["st"])
    return None


def judge_string(c, d, slack, dest, rv, ret, ev, st, lr, lout, lsrc, lst):
    """one string-converter call against ONE libc reference run (count lr, cells lout, *src lsrc, state lst)"""
    f = []
    fn, dmax = c.fn, c.dmax
    restart = fn in RESTART
    cleared = dest[0] == 0 and (not slack or all(x == 0 for x in dest[:dmax]))
    if lr == SIZE_MAX:
        # libc meets an invalid sequence within the limit it was given
        if ret == 0:
            f.append(("%s:eok-on-invalid" % fn, "libc reports EILSEQ, the call returned EOK (handler codes %s)" % ev))
        if len(ev) != 1:
            f.append(("%s:invalid:handler-count" % fn, "%d handler calls" % len(ev)))
        elif ev[0] != ret:
            f.append(("%s:invalid:handler-code" % fn, "handler got %d, caller got %d" % (ev[0], ret)))
        if not cleared:
            f.append(("%s:invalid:not-cleared" % fn, "dest after the failed call: %s" % d["dest"][:200]))
        if restart and st[0] != 0:
            f.append(("%s:invalid:state-not-initial" % fn, "mbstate after the failed call: %s" % d["st"]))
        return f
    if ret == 0:
        ok = rv == lr and lr < dmax and dest[:lr] == lout[:lr]
        if not ok:
            f.append(("%s:differs-from-libc" % fn, "EOK with count %s dest %s; libc gives %s %s" % (rv, d["dest"][:200], lr, hexs(lout)[:200])))
        elif rv < len(dest) and dest[rv] != 0:
            f.append(("%s:unterminated" % fn, "EOK, count %d, dest[%d] = %#x" % (rv, rv, dest[rv])))
        if restart and ok:
            wst = (int(lst.split(":")[0]), int(lst.split(":")[1], 16) if int(lst.split(":")[0]) else None)
            if d["src"] != lsrc or st != wst:
                f.append(("%s:restart-position" % fn, "*srcp %s state %s, libc leaves %s %s" % (d["src"], d["st"], lsrc, lst)))
        if ev:
            f.append(("%s:handler-on-success" % fn, "EOK with handler calls %s" % ev))
    else:
        if lr < dmax:
            f.append(("%s:valid-rejected" % fn, "libc converts %d cells, which fit dmax=%d (len=%d); returned %d" % (lr, dmax, c.len, ret)))
        if len(ev) != 1:
            f.append(("%s:nospace:handler-count" % fn, "%d handler calls" % len(ev)))
        elif ev[0] != ret:
            f.append(("%s:nospace:handler-code" % fn, "handler got %d, caller got %d" % (ev[0], ret)))
        if not cleared:
            f.append(("%s:nospace:not-cleared" % fn, "dest after the failed call: %s" % d["dest"][:200]))
    return f


# ------------------------------------------------------------------ oracle (property text + plain glibc references; no model)
def oracle(c, d, slack):
    """list of (signature, detail) — what the property demands of this call and does not get"""
    f = []
    fn = c.fn
    if fn.startswith("L_"):
        return f
    faulted = d["fault"] == "1"
    ret = int(d["ret"])
    ev = [int(x) for x in d["ev"].split(",")] if d.get("ev") else []
    if not is_sane(c):
        # a precondition is violated: the property only needs an error indication (the rest is C05's), and no crash
        if faulted:
            f.append(("%s:fault:bad-arguments" % fn, "fault at %s" % d["fa"]))
        elif ret == 0:
            f.append(("%s:eok:bad-arguments" % fn, "returned EOK"))
        return f
    dest = unhex(d["dest"])
    dmax = c.dmax
    if faulted:
        f.append(("%s:write-beyond-dmax:fault" % fn, "fault at the %s page; dmax=%d len=%d" % (d["fa"], dmax, c.len)))
        return f
    if d.get("can") != "ok":
        f.append(("%s:write-before-dest" % fn, "canary in front of dest changed"))
    if dest is not None and any(dest[i] != c.dest[i] for i in range(dmax, len(dest))):
        f.append(("%s:write-beyond-dmax" % fn, "cells at index >= dmax=%d changed: %s" % (dmax, d["dest"])))
    rv = None if d["rv"] == "ns" else int(d["rv"])
    st = impl_state(d)
    if fn in STRFNS:
        restart = fn in RESTART
        if dest is None:
            q = int(d["qr"])
            if rv != q:
                f.append(("%s:query-count" % fn, "*retvalp=%s, libc with a NULL destination returns %s" % (rv, q)))
            if q == SIZE_MAX and ret == 0:
                f.append(("%s:eok-on-invalid:query" % fn, "invalid sequence, returned EOK"))
            if q != SIZE_MAX and ret not in (EOK, ESNOSPC):
                f.append(("%s:query-stale-errno" % fn, "valid input, query returned %d (entry errno %d)" % (ret, c.errno)))
            if ev:
                pass
            return f
        if d["lr"] == "skip":
            return f
        # two readings of "the standard function limited to the space available": limit len, limit min(len, dmax);
        # the call has to be right under one of them
        best = None
        for pfx in ("l", "c"):
            g = judge_string(c, d, slack, dest, rv, ret, ev, st, int(d[pfx + "r"]), unhex(d[pfx + "out"]) or [], d[pfx + "src"], d[pfx + "st"])
            if best is None or len(g) < len(best):
                best = g
        return f + best
    # single characters
    lr, lout = int(d["lr"]), unhex(d["lout"]) or []
    if fn == "wctomb_s":
        lr = SIZE_MAX if lr >= (1 << 63) else lr
    if dest is None:
        if rv != lr:
            f.append(("%s:query-count" % fn, "*retvalp=%s, libc returns %s" % (rv, lr)))
        if ret not in (EOK, ESNOSPC):
            f.append(("%s:query-stale-errno" % fn, "query returned %d (entry errno %d)" % (ret, c.errno)))
        return f
    cleared = dest[0] == 0 and (not slack or all(x == 0 for x in dest[:dmax]))
    if lr == SIZE_MAX:
        if ret == 0:
            f.append(("%s:eok-on-invalid" % fn, "libc reports EILSEQ, the call returned EOK"))
        if len(ev) != 1 or ev[0] != ret:
            f.append(("%s:invalid:handler" % fn, "handler calls %s, returned %d" % (ev, ret)))
        if not cleared:
            f.append(("%s:invalid:not-cleared" % fn, "dest %s" % d["dest"]))
    elif ret == 0:
        if not (rv == lr and lr < dmax and dest[:lr] == lout[:lr]):
            f.append(("%s:differs-from-libc" % fn, "EOK count %s dest %s; libc gives %s %s" % (rv, d["dest"], lr, d["lout"])))
        if ev:
            f.append(("%s:handler-on-success" % fn, "EOK with handler calls %s" % ev))
    else:
        if lr < dmax:
            f.append(("%s:valid-rejected" % fn, "libc needs %d bytes, dmax=%d; returned %d" % (lr, dmax, ret)))
        if len(ev) != 1 or ev[0] != ret:
            f.append(("%s:nospace:handler" % fn, "handler calls %s, returned %d" % (ev, ret)))
        if not cleared:
            f.append(("%s:nospace:not-cleared" % fn, "dest %s" % d["dest"]))
    return f


# ------------------------------------------------------------------ histories: next round built from this round's observations
def next_round(cases, obs, rng, tier, rnd):
    nxt = []
    for i, c in enumerate(cases):
        d = obs.get(i)
        if d is None or d.get("fault") == "1" or c.fn.startswith("L_") or not is_sane(c):
            continue
        ret = int(d["ret"])
        rv = None if d["rv"] == "ns" else int(d["rv"])
        pick = zlib.crc32((c.key() + str(rnd)).encode()) & 0xFFFF
        if c.fn in STRFNS and c.dest is None and rv is not None and rv < 64 and c.chain is None:
            # query → convert with exactly the space the query asked for
            n = rv + 1
            nxt.append(Case(c.fn, c.loc, fill(n, c.fn in MB2WC), n, n, c.src, ps=c.ps, origin="hist/query-then-convert",
                            chain=dict(kind="query", count=rv)))
        elif c.fn in ("wcstombs_s", "wcsrtombs_s") and ret == 0 and c.dest is not None and c.chain is None and rv is not None and pick % 2 == 0:
            # wide → multibyte → wide
            dest = unhex(d["dest"])
            lsrc = d.get("lsrc")
            whole = (c.fn == "wcstombs_s" and rv == int(d["qr"])) or (c.fn == "wcsrtombs_s" and d["src"] == "-1")
            if whole:
                n = len(c.src) + 1
                nxt.append(Case("mbstowcs_s" if pick % 4 == 0 else "mbsrtowcs_s", c.loc, fill(n, True), n, n, dest[:rv],
                                origin="hist/round-trip", chain=dict(kind="roundtrip", want=list(c.src))))
        elif c.fn == "mbsrtowcs_s" and c.dest is not None and rnd < 4:
            src_off = int(d["src"])
            if ret == 0 and src_off > 0 and (c.chain is None or c.chain.get("kind") == "restart"):
                # restart where the last call stopped, with the state it left
                done = (c.chain or {}).get("done", []) + unhex(d["dest"])[:rv]
                full = (c.chain or {}).get("full", c.src)
                pend = state_to_pend(d["st"])
                nxt.append(Case("mbsrtowcs_s", c.loc, fill(c.dmax, True), c.dmax, c.len, c.src[src_off:], ps=pend,
                                origin="hist/restart", chain=dict(kind="restart", done=done, full=full)))
            elif ret != 0 and d.get("lr") == str(SIZE_MAX) and c.chain is None and pick % 2 == 0:
                # invalid sequence, then a valid call with the SAME state object
                pend = state_to_pend(d["st"])
                nxt.append(Case("mbsrtowcs_s", c.loc, fill(4, True), 4, 3, [0x61, 0x62], ps=pend, origin="hist/after-invalid",
                                chain=dict(kind="after-invalid", state=d["st"])))
        elif c.fn == "wcsrtombs_s" and c.dest is not None and rnd < 4 and ret == 0 and d["src"] not in ("-1", "0") and (c.chain is None or c.chain.get("kind") == "wrestart"):
            off = int(d["src"])
            done = (c.chain or {}).get("done", []) + unhex(d["dest"])[:rv]
            full = (c.chain or {}).get("full", c.src)
            nxt.append(Case("wcsrtombs_s", c.loc, fill(c.dmax, False), c.dmax, c.len, c.src[off:], origin="hist/wrestart",
                            chain=dict(kind="wrestart", done=done, full=full)))
    if tier == "quick" and len(nxt) > 6000:
        keep = [x for x in nxt if x.origin in ("hist/after-invalid",)]
        rest = [x for x in nxt if x.origin not in ("hist/after-invalid",)]
        nxt = keep + rng.sample(rest, min(6000, len(rest)))
    return nxt


def chain_oracle(c, d):
    """what the HISTORY demands of this call (on top of the per-call oracle)"""
    f = []
    ch = c.chain
    if not ch or d.get("fault") == "1":
        return f
    ret = int(d["ret"])
    rv = None if d["rv"] == "ns" else int(d["rv"])
    dest = unhex(d["dest"]) or []
    if ch["kind"] == "query":
        if not (ret == 0 and rv == ch["count"] and dest[rv] == 0):
            f.append(("%s:query-then-convert" % c.fn, "query said %d; converting with dmax = len = %d gives ret %d count %s dest %s" % (ch["count"], c.dmax, ret, rv, d["dest"])))
    elif ch["kind"] == "roundtrip":
        if not (ret == 0 and dest[:len(ch["want"])] == ch["want"] and rv == len(ch["want"])):
            f.append(("%s:round-trip" % c.fn, "wide %s -> multibyte %s -> wide: ret %d count %s dest %s" % (hexs(ch["want"]), hexs(c.src), ret, rv, d["dest"])))
    elif ch["kind"] in ("restart", "wrestart"):
        # when the chain reaches the terminator, the concatenation must be the one-shot conversion of the whole source
        if ret == 0 and d["src"] == "-1":
            whole = ch["done"] + dest[:rv]
            want = unhex(d.get("wholeref", "-"))
            ch["whole"] = whole
    elif ch["kind"] == "after-invalid":
        if not (ret == 0 and dest[:3] == [0x61, 0x62, 0]):
            f.append(("mbsrtowcs_s:invalid:state-not-usable", "after a failed call (state %s) the same state converts \"ab\" to ret %d dest %s" % (ch["state"], ret, d["dest"])))
    return f


def fx_override():
    v = os.environ.get("VERIF_C15_FX", "")
    return v if re.fullmatch(r"[01]{6}", v) else ""


def build_impl(slack):
    L = buildlib.build(slack=bool(slack))
    return buildlib.build_harness(L, os.path.join(VERIF, "harness", "hconv.c"), os.path.join(L["dir"], "hconv"))


def run(tier, seed, replay=None):
    res = Result(PID, tier, seed)
    orch.gen_mod.main()
    mkoblig.main()
    lean_ok, lean_log, dt = orch.lake_build(orch.prop_targets(PID))
    res.extra["lean_build_s"] = round(dt, 1)
    drv_ok = lean_ok or orch.lake_build(["safec_model"])[0]
    obs = orch.obligations(PID)
    audit, _ = orch.audit_axioms(PID, obs) if lean_ok else ([dict(o, ok=False, axioms=None, error="build failed") for o in obs], "")
    forb = orch.forbidden_tokens()
    known = orch.load_known()
    fx = fx_override()
    consts = open(os.path.join(orch.LEAN, "SafeC", "Gen", "Consts.lean")).read()
    for name, val in (("RSIZE_MAX_STR", RSIZE_MAX_STR), ("RSIZE_MAX_WSTR", RSIZE_MAX_WSTR), ("EILSEQ", EILSEQ), ("ESNOSPC", ESNOSPC)):
        if not re.search(r"def %s : Nat := %d\b" % (name, val), consts):
            res.mismatch.append(dict(kind="correspondence", property=PID, fn="constants", what="%s is no longer %d in the tree's headers" % (name, val)))

    def model_lines(cases, slack):
        return ["%s slack=%d%s" % (c.line(i), slack, (" fx=" + fx) if fx else "") for i, c in enumerate(cases)]

    if replay:
        rep = json.load(open(replay))
        if "line" not in rep:
            print(json.dumps(rep, indent=1)[:4000]); return 0
        slack = rep.get("slack", 1)
        hbin = build_impl(slack)
        c = run_lines([hbin], [rep["line"]], 1)
        m = run_lines([orch.MODEL_BIN], ["%s slack=%d%s" % (rep["line"], slack, (" fx=" + fx) if fx else "")], 1)
        print("case :", rep.get("origin"), rep["line"]); print("slack:", slack)
        print("impl :", {k: v for k, v in list(c.values())[0].items() if k != "id"} if c else None)
        print("model:", {k: v for k, v in list(m.values())[0].items() if k != "id"} if m else None)
        print("recorded impl:", rep.get("impl"))
        print("signature:", rep.get("sig"), "--", rep.get("detail"))
        return 0

    if drv_ok:
        fo = run_lines([orch.MODEL_BIN], ["id=0 conv=fixes"], 1)
        res.extra["model_fixes"] = dict(order="clamp,stage,rc,zero,nullsrc,term", current=fo.get(0, {}).get("fx"), override=fx or None)
    rng = random.Random(seed * 7907 + 15)
    base = gen_entry(rng, tier) + gen_chars(rng, tier) + gen_partial(rng, tier) + gen_strings(rng, tier) + \
        gen_random(rng, tier, 4000 if tier == "quick" else 60000)
    libc_cases = gen_libc(rng, tier)
    t0 = time.time()
    sig_examples = {}
    for slack in (1, 0):
        hbin = build_impl(slack)
        rounds = [base + (libc_cases if slack == 1 else [])]
        rnd = 0
        while rounds[-1] and rnd < 5:
            cases = rounds[-1]
            ci = run_lines([hbin], [c.line(i) for i, c in enumerate(cases)])
            if rnd == 0:
                # "in the current locale": what a call does must not depend on the locale an EARLIER call ran in.  The same
                # lines once more in processes whose first call of every entry point happened in locale C resp. C.UTF-8.
                for prime in ("prime=C", "prime=U"):
                    cp = run_lines([hbin, prime], [c.line(i) for i, c in enumerate(cases)])
                    for i, c in enumerate(cases):
                        a, b = ci.get(i), cp.get(i)
                        if a is None or b is None or c.fn.startswith("L_"):
                            continue
                        if {k: v for k, v in a.items() if k != "id"} != {k: v for k, v in b.items() if k != "id"}:
                            sig = "%s:depends-on-earlier-calls:%s" % (c.fn, prime)
                            dk = [k for k in a if a.get(k) != b.get(k)]
                            res.violations.append((sig, dict(kind="property-fails-on-implementation", property=PID, sig=sig, fn=c.fn,
                                detail="the same call in locale %s differs after the process's first calls ran in locale %s: %s" % (c.loc, prime[-1], {k: (a.get(k, "")[:60], b.get(k, "")[:60]) for k in dk[:4]}),
                                origin=c.origin, line=c.line(0), prime=prime, slack=slack, impl=b, impl_unprimed=a)))
                            sig_examples.setdefault(sig, c.line(i))
                    res.count("history", prime)
            mi = run_lines([orch.MODEL_BIN], model_lines(cases, slack), workers=3) if drv_ok else {}
            for i, c in enumerate(cases):
                dc, dm = ci.get(i), mi.get(i)
                if dc is None or "err" in dc:
                    res.notes.append("no observation for %s" % c.line(i)[:200]); continue
                res.evaluations += 1
                res.count("fn", c.fn); res.count("origin", c.origin.split("/")[0] if not c.origin.startswith("hist") else c.origin)
                res.count("locale", c.loc); res.count("slack", str(slack))
                if not c.fn.startswith("L_"):
                    res.count("outcome", "fault" if dc["fault"] == "1" else "ret=%s" % dc["ret"])
                    res.count("dest", "null" if c.dest is None else "present")
                nontrivial = c.fn.startswith("L_") or (is_sane(c))
                if nontrivial:
                    res.distinct.add((c.key(), slack if not c.fn.startswith("L_") else 1))
                if len(res.samples) < 12 and (res.evaluations % 9973 == 7 or (c.chain and len(res.samples) < 4)):
                    res.samples.append(dict(op=c.line(i), slack=slack, origin=c.origin, impl={k: v for k, v in dc.items() if k != "id"},
                                            model=dm and {k: v for k, v in dm.items() if k != "id"}))
                diff = None
                if dm is not None and "err" not in dm:
                    res.modelled.add(c.fn)
                    diff = projection_diff(c, dc, dm)
                elif drv_ok:
                    res.unmodelled.add(c.fn)
                agree = None if dm is None else diff is None
                fails = oracle(c, dc, slack) + chain_oracle(c, dc)
                for sig, detail in fails:
                    ent = next((e for e in known if orch.known_match(e, PID, sig, slack)), None)
                    if ent is not None and agree is not False:
                        kk = ent.get("id") or ent.get("sig") or ent.get("sig_re")
                        hh = res.known_hit.setdefault(kk, dict(ent, count=0, example=c.line(i), sigs=set()))
                        hh["count"] += 1; hh["sigs"].add(sig)
                    else:
                        res.violations.append((sig, dict(kind="property-fails-on-implementation", property=PID, sig=sig, detail=detail, fn=c.fn,
                                                         origin=c.origin, line=c.line(0), slack=slack, impl=dc, model=dm, model_predicts=agree, model_diff=diff)))
                    sig_examples.setdefault(sig, c.line(i))
                if diff is not None and not fails:
                    res.mismatch.append(dict(kind="correspondence", property=PID, fn=c.fn, what=diff, line=c.line(0), slack=slack, impl=dc, model=dm, origin=c.origin))
            log("  C15 slack=%d round %d: %d cases, %.1fs" % (slack, rnd, len(cases), time.time() - t0))
            rnd += 1
            rounds.append(next_round(cases, ci, rng, tier, rnd))
    for x in res.mismatch[:8]:
        log("   mismatch:", x.get("fn"), x.get("what"), "|", x.get("line"), "slack=%s" % x.get("slack"))
    # a correspondence mismatch with no oracle failure: make the first one replayable
    if res.mismatch and not res.violations:
        x = res.mismatch[0]
        if "line" in x:
            res.violations.append(("%s:model-differs" % x["fn"], dict(kind="correspondence", property=PID, sig="%s:model-differs" % x["fn"], detail=x["what"],
                                                                       fn=x["fn"], origin=x.get("origin"), line=x["line"], slack=x["slack"], impl=x["impl"], model=x["model"])))
    res.violations.sort(key=lambda v: (len(v[1].get("line", "")), v[1].get("line", "")))     # smallest failing input first
    res.extra["signatures_seen"] = {k: v for k, v in sorted(sig_examples.items())}
    res.extra["cases_round0"] = len(base)
    res.extra["libc_model_validation_cases"] = len(libc_cases)
    trusted = ["Lean 4.33 kernel; axioms propext, Classical.choice, Quot.sound only (audited per theorem on every run)",
               "lean/SafeC/Models/Conv.lean: `Libc.*` — hand-written models of glibc 2.36's UTF-8 / ASCII gconv steps and of mbsrtowcs/wcsrtombs/mbstowcs/wcstombs/wcrtomb/wctomb "
               "(window loop, stop conditions, pending-byte state), validated against the real glibc by the L_* lines of this run only; the six wrapper models, tied to the C by this run's inputs only",
               "harness/hconv.c (guard page, canaries, counting handler, reference runs of plain glibc on private buffers), lean/SafeC/DriverConv.lean, tools/p15.py",
               "gcc -O0 build of the current tree in both SAFECLIB_STR_NULL_SLACK configurations, glibc 2.36, locales C and C.UTF-8 (the only ones installed)"]
    assumptions = ["locales C and C.UTF-8 only; wchar_t is 32 bit; the conversion state of the wide → multibyte direction is always initial (both codecs are stateless there)",
                   "valid/invalid is judged by plain glibc on the same bytes with the same limit (an invalid sequence beyond the limit is not seen by either)",
                   "'same as the standard function limited to the space available' is read as: on EOK, count and cells equal those of the libc function called with limit len "
                   "(or with limit min(len, dmax)) on a private buffer, and that count is < dmax; a conversion whose libc result fits must not be rejected",
                   "object size (BOS) unknown or exact; callers' dmax is true (dest really has dmax cells) in every case the oracle judges"]
    return orch.finish(res, PID, lean_ok, lean_log, audit, forb, "", trusted, assumptions,
                       extra_cov=dict(rule="sources are built from units: the 1..6-byte encodings of boundary code points (0x7F/0x80, 0x7FF/0x800, 0xFFFF/0x10000, 0x10FFFF/0x110000, 0x1FFFFF/0x200000, "
                                           "0x3FFFFFF/0x4000000, 0x7FFFFFFF) and every invalid class (stray continuation, truncated at each position, overlong 2..6-byte, surrogates, FE/FF, bad continuation; "
                                           "wide: surrogates, > 0x7FFFFFFF); all strings of <= 2 units (quick: <= 2 over a reduced pool, 3 over a small pool; thorough: + 4) x len and dmax at "
                                           "converted length -1/0/+1/+2, 0, 1 and every character boundary +-1 (bytes) x dest NULL or present x locales C, C.UTF-8 x both slack builds x entry errno 0/34; "
                                           "argument violations; non-initial entry states; seeded random strings; histories built from observations (query->convert, wide->mb->wide, restarts, invalid->valid); "
                                           "L_* lines compare the Lean models of glibc with glibc itself. evaluation = one call on one build; distinct = distinct op line per build; "
                                           "non-trivial = no argument precondition violated (or a libc-model validation line)",
                                      exhaustive=False))

"""Shared pipeline of every check: regenerate facts, build proofs, audit axioms, build the
implementation from the current tree, run implementation and model on the same inputs, compare
the property's projection, evaluate the property oracle, classify, write evidence.
"""
import os, sys, json, time, subprocess, re, random, hashlib, shutil

HERE = os.path.dirname(os.path.abspath(__file__))
VERIF = os.path.dirname(HERE)
sys.path.insert(0, HERE)
import buildlib, fnspec, gen as gen_mod, proto
from proto import Op, Region
import oracles
from oracles import Obs, Fail

LEAN = os.path.join(VERIF, "lean")
MODEL_BIN = os.path.join(LEAN, ".lake", "build", "bin", "safec_model")
ALLOWED_AXIOMS = {"propext", "Classical.choice", "Quot.sound"}
FORBIDDEN = ["sorry", "admit", "native_decide", "bv_decide", "implemented_by", "unsafe ", "maxHeartbeats 0"]


def log(*a):
    print(*a, file=sys.stderr, flush=True)


# ------------------------------------------------------------------ Lean side
def strip_comments(src):
    out, i, depth = [], 0, 0
    n = len(src)
    while i < n:
        if src.startswith("/-", i):
            depth += 1; i += 2; continue
        if depth and src.startswith("-/", i):
            depth -= 1; i += 2; continue
        if depth:
            i += 1; continue
        if src.startswith("--", i):
            j = src.find("\n", i)
            i = n if j < 0 else j
            continue
        out.append(src[i]); i += 1
    return "".join(out)


def forbidden_tokens():
    hits = []
    for root, dirs, fs in os.walk(LEAN):
        if ".lake" in root:
            continue
        for f in fs:
            if f.endswith(".lean"):
                p = os.path.join(root, f)
                code = strip_comments(open(p).read())
                for t in FORBIDDEN:
                    if re.search(r"(?<![A-Za-z_.])" + re.escape(t.strip()) + (r"(?![A-Za-z_])" if t.strip().isidentifier() else ""), code):
                        hits.append((os.path.relpath(p, LEAN), t.strip()))
                if re.search(r"^\s*axiom\s", code, re.M):
                    hits.append((os.path.relpath(p, LEAN), "axiom"))
    return hits


def lake_build(targets, timeout=3000):
    t = time.time()
    r = subprocess.run(["lake", "build"] + targets, cwd=LEAN, capture_output=True, text=True, timeout=timeout)
    return r.returncode == 0, r.stdout + r.stderr, time.time() - t


def prop_targets(pid):
    """lake targets of a property: every module an obligation lives in, plus the driver"""
    mods = sorted({o["module"] for o in obligations(pid)} | {"SafeC.Props.%s" % pid})
    return mods + ["safec_model"]


def obligations(pid):
    p = os.path.join(LEAN, "obligations.json")
    if not os.path.exists(p):
        return []
    return json.load(open(p)).get(pid, [])


def audit_axioms(pid, obs):
    """#print axioms for every registered obligation; returns (results, raw)"""
    if not obs:
        return [], ""
    mods = sorted({o["module"] for o in obs})
    src = "\n".join("import " + m for m in mods) + "\n" + "\n".join("#print axioms %s" % o["name"] for o in obs) + "\n"
    f = os.path.join(LEAN, ".lake", "audit_%s.lean" % pid)
    os.makedirs(os.path.dirname(f), exist_ok=True)
    open(f, "w").write(src)
    r = subprocess.run(["lake", "env", "lean", f], cwd=LEAN, capture_output=True, text=True, timeout=1800)
    raw = r.stdout + r.stderr
    res = []
    for o in obs:
        name = o["name"]
        m = re.search(r"'%s' depends on axioms: \[(.*?)\]" % re.escape(name), raw, re.S)
        m2 = re.search(r"'%s' does not depend on any axioms" % re.escape(name), raw)
        if m:
            ax = [a.strip() for a in m.group(1).replace("\n", " ").split(",") if a.strip()]
            bad = [a for a in ax if a not in ALLOWED_AXIOMS]
            res.append(dict(o, ok=not bad, axioms=ax))
        elif m2:
            res.append(dict(o, ok=True, axioms=[]))
        else:
            res.append(dict(o, ok=False, axioms=None, error="theorem missing or does not check"))
    return res, raw


# ------------------------------------------------------------------ implementation side
class Impl:
    def __init__(self):
        self.libs = {}
        self.hx = {}

    def get(self, slack):
        if slack not in self.hx:
            L = buildlib.build(slack=bool(slack))
            fnspec.gen_dispatch(os.path.join(L["dir"], "dispatch.inc"))
            hx = buildlib.build_harness(L, os.path.join(VERIF, "harness", "hx.c"), os.path.join(L["dir"], "hx"))
            self.libs[slack], self.hx[slack] = L, hx
        return self.hx[slack]


def run_pair(impl, ops, slack, locale="C"):
    """run ops on the implementation and on the model; returns {id: (ObsC, dictM)}"""
    for i, o in enumerate(ops):
        o.id = i
    lines = [o.line(slack) for o in ops]
    hx = impl.get(slack)
    c, rc, err = proto.run_lines([hx, locale], lines)
    if rc != 0:
        raise RuntimeError("harness exited %d: %s" % (rc, err[:500]))
    m, rc2, err2 = proto.run_lines([MODEL_BIN], lines)
    if rc2 != 0:
        raise RuntimeError("model driver exited %d: %s" % (rc2, err2[:500]))
    return c, m


# ------------------------------------------------------------------ projections
def before_images(op):
    return {k: list(r.cells) for k, r in enumerate(op.regions)}


def proj(pid, op, d, is_model):
    """the part of an observation line property `pid` is a function of"""
    if "err" in d:
        return ("err", d["err"])
    if "fault" in d:
        f = d["fault"]
        if pid == "C01":
            return ("fault", f) if f.startswith("w:") else ("rfault",)
        if pid == "C02":
            return ("fault", f)
        return ("fault", f[0])
    widths = {k: r.w for k, r in enumerate(op.regions)}
    img = proto.parse_img(d.get("img", ""), widths)
    m = op.meta
    dest = None
    if m.get("dest") is not None and m.get("dmax") is not None:
        k, off = m["dest"]
        if k in img:
            dest = tuple(img[k][off:off + m["dmax"]])
    if pid == "C01":
        changed = []
        for k, cells in img.items():
            for i, v in enumerate(cells):
                if v != op.regions[k].cells[i] and not oracles.in_ext(op.W, k, i):
                    changed.append((k, i, v))
        if is_model:
            outside = any(s.startswith("w:") and not _inside(op, s[2:]) for s in d.get("stray", "").split(",") if s)
        else:
            outside = d.get("can", "ok") != "ok"
        return ("ok", tuple(changed), outside)
    if pid == "C02":
        return ("ok",)
    if pid == "C03":
        return ("ok", dest is not None and 0 in dest)
    if pid in ("C04", "C07"):
        return ("ok", d.get("ret"), d.get("o"), tuple(sorted((k, tuple(v)) for k, v in img.items())))
    if pid == "C05":
        return ("ok", d.get("ret"), d.get("o"), d.get("ev"))
    if pid == "C06":
        return ("ok", d.get("ret"), d.get("o"), dest)
    if pid == "C08":
        tail = None
        if dest is not None and 0 in dest:
            tail = dest[dest.index(0):]
        return ("ok", d.get("ret"), tail)
    return ("ok", d.get("ret"), d.get("o"), d.get("ev"), tuple(sorted((k, tuple(v)) for k, v in img.items())))


def _inside(op, s):
    loc = oracles.parse_loc(s)
    if loc is None:
        return False
    k, c = loc
    return k < len(op.regions) and 0 <= c < len(op.regions[k].cells)


# ------------------------------------------------------------------ known findings
def load_known():
    p = os.path.join(VERIF, "known_findings.jsonl")
    out = []
    if os.path.exists(p):
        for ln in open(p):
            ln = ln.strip()
            if ln and not ln.startswith("#") and ln.startswith("{"):
                out.append(json.loads(ln))
    return out


def known_match(e, pid, sig, slack):
    if e.get("property") != pid or e.get("status") != "known":
        return False
    if "slack" in e and e["slack"] != slack:
        return False
    if "sig" in e:
        return e["sig"] == sig
    if "sig_re" in e:
        return re.fullmatch(e["sig_re"], sig) is not None
    return False


# ------------------------------------------------------------------ the check
class Result:
    def __init__(self, pid, tier, seed):
        self.pid, self.tier, self.seed = pid, tier, seed
        self.t0 = time.time()
        self.evaluations = 0
        self.distinct = set()
        self.samples = []
        self.dist = {}
        self.violations = []      # (sig, replay dict)
        self.known_hit = {}       # sig -> entry
        self.mismatch = []        # correspondence differences without an oracle failure
        self.unmodelled = set()
        self.modelled = set()
        self.notes = []
        self.extra = {}

    def count(self, key, sub):
        self.dist.setdefault(key, {})
        self.dist[key][sub] = self.dist[key].get(sub, 0) + 1


def evaluate(res, pid, ops, c, m, slack, known, oracle_fns, nontrivial=None):
    """compare projection and evaluate the oracle for every op"""
    for op in ops:
        oid = str(op.id)
        dc, dm = c.get(oid), m.get(oid)
        if dc is None:
            res.notes.append("harness produced no line for " + op.line(slack)[:200])
            continue
        if "err" in dc:
            res.notes.append("harness rejected op: %s %s" % (dc["err"], op.line(slack)[:200]))
            continue
        res.evaluations += 1
        ob = Obs(dc, op)
        before = before_images(op)
        key = hashlib.md5(op.line(slack).split(" ", 1)[1].encode()).hexdigest()
        nt = (nontrivial(op, ob) if nontrivial else (not ob.fault and (ob.reti() != 400)))
        if nt:
            res.distinct.add(key)
        res.count("fn", op.fn)
        res.count("outcome", "fault" if ob.fault else "ret=%s" % ob.ret)
        if len(res.samples) < 6 and nt and res.evaluations % 97 == 1:
            res.samples.append({"op": op.line(slack), "impl": {k: v for k, v in dc.items() if k != "id"}})
        fails = []
        for f in oracle_fns:
            fails += f(op, ob, before)
        fails = [f for f in fails if f.prop == pid]
        modelled = dm is not None and dm.get("err") != "nomodel"
        agree = None
        if modelled:
            res.modelled.add(op.fn)
            agree = proj(pid, op, dc, False) == proj(pid, op, dm, True)
        else:
            res.unmodelled.add(op.fn)
        for f in fails:
            ent = next((e for e in known if known_match(e, pid, f.sig, slack)), None)
            if ent is not None and (agree is None or agree):
                kk = ent.get("id") or ent.get("sig") or ent.get("sig_re")
                res.known_hit.setdefault(kk, dict(ent, count=0, example=op.line(slack), sigs=set()))
                res.known_hit[kk]["count"] += 1
                res.known_hit[kk]["sigs"].add(f.sig)
            else:
                res.violations.append((f.sig, dict(kind="property-fails-on-implementation", property=pid, sig=f.sig,
                                                   detail=f.detail, op=op.line(slack), impl=dc, model=dm,
                                                   model_predicts=agree, slack=slack, fn=op.fn)))
        if modelled and agree is False and not fails:
            res.mismatch.append(dict(kind="correspondence", property=pid, op=op.line(slack), impl=dc, model=dm, slack=slack,
                                     fn=op.fn, impl_proj=repr(proj(pid, op, dc, False))[:400],
                                     model_proj=repr(proj(pid, op, dm, True))[:400]))


def finish(res, pid, lean_ok, lean_log, audit, forb, level_text, trusted, assumptions, extra_cov=None):
    """print the verdict lines, write evidence, return exit code"""
    os.makedirs(os.path.join(VERIF, "evidence"), exist_ok=True)
    rdir = os.path.join(VERIF, "evidence", "replays")
    os.makedirs(rdir, exist_ok=True)
    exit_code = 0
    nviol = 0
    for kk, ent in sorted(res.known_hit.items()):
        print("KNOWN-FINDING: property=%s %s -- %s (%d inputs this run)" % (pid, kk, ent.get("what", ""), ent["count"]))
    seen = set()
    for sig, rep in res.violations:
        if sig in seen:
            continue
        seen.add(sig)
        nviol += 1
        path = os.path.join(rdir, "%s_%s.json" % (pid, hashlib.md5(sig.encode()).hexdigest()[:10]))
        json.dump(rep, open(path, "w"), indent=1, default=str)
        print("VIOLATION property=%s replay=%s" % (pid, path))
        log("  ", sig, rep.get("detail", ""))
        exit_code = 1
    broken = []
    if not lean_ok:
        broken.append(dict(kind="proof", detail=lean_log[-3000:]))
    for a in audit:
        if not a["ok"]:
            broken.append(dict(kind="proof", theorem=a["name"], detail=a.get("error") or ("axioms: %s" % a["axioms"])))
    for f in forb:
        broken.append(dict(kind="audit", detail="forbidden token %s in %s" % (f[1], f[0])))
    if res.mismatch:
        fns = sorted({x["fn"] for x in res.mismatch})
        broken.append(dict(kind="correspondence", detail="model and implementation differ on the %s projection for %s (%d inputs)" % (pid, fns, len(res.mismatch)), first=res.mismatch[0]))
    if broken and not seen:
        # nothing the oracle could pin on an input: the property is no longer shown to hold
        path = os.path.join(rdir, "%s_unproved.json" % pid)
        json.dump(dict(property=pid, broken=broken, note="no failing input found by the search; the named theorem / correspondence no longer checks"),
                  open(path, "w"), indent=1, default=str)
        print("VIOLATION property=%s replay=%s no-failing-input-found" % (pid, path))
        for b in broken[:5]:
            log("   broken:", b.get("kind"), b.get("theorem", ""), str(b.get("detail"))[:300])
        exit_code = 1
        nviol += 1
    elif broken:
        for b in broken[:5]:
            log("   also broken:", b.get("kind"), b.get("theorem", ""), str(b.get("detail"))[:300])
    cov = dict(
        obligations=len(audit), discharged=sum(1 for a in audit if a["ok"]) if lean_ok else 0,
        checker_cmd="lake build SafeC.Props.%s safec_model && lake env lean .lake/audit_%s.lean (#print axioms per obligation)" % (pid, pid),
        trusted_base=trusted,
        theorems=[dict(name=a["name"], kind=a.get("kind"), covers=a.get("covers"), axioms=a.get("axioms")) for a in audit],
        evaluations=res.evaluations, distinct_nontrivial=len(res.distinct),
        rule="cases come from the exhaustive small scope, the boundary sweep and a seeded random stream (tools/gens.py); distinct = distinct canonical op line; non-trivial = the call got past the null-pointer check without faulting",
        samples=res.samples or [{"note": "no sample recorded"}],
        distribution=res.dist,
        modelled_functions=sorted(res.modelled), unmodelled_functions=sorted(res.unmodelled),
        correspondence_mismatches=len(res.mismatch),
        known_findings_reproduced=sorted(res.known_hit),
        notes=res.notes[:20],
    )
    if extra_cov:
        cov.update(extra_cov)
    cov.update(res.extra)
    ev = dict(property_id=pid, tier=res.tier, seed=res.seed, level="proof", coverage=cov,
              assumptions=assumptions, wall_s=round(time.time() - res.t0, 2), violations=nviol)
    json.dump(ev, open(os.path.join(VERIF, "evidence", "%s.json" % pid), "w"), indent=1, default=str)
    return exit_code

"""Line protocol shared by the C harness, the Lean driver and the orchestrator."""
import subprocess, os

PAGE = 4096
WBASE = 0x200000000
WSTRIDE = 0x100000
MAPPED_PAGES = 4
UNK = "unk"


def canary(x):
    c = (((x ^ (x >> 8)) * 0x9E + 0x55) & 0xFF)
    return c if c else 0xA5


class Region:
    __slots__ = ("w", "cells", "flush")

    def __init__(self, w, cells, flush="r"):
        self.w, self.cells, self.flush = w, list(cells), flush

    def hex(self):
        return "".join("%0*x" % (2 * self.w, c) for c in self.cells)

    def base(self, k):
        win = WBASE + k * WSTRIDE
        return win + (MAPPED_PAGES + 1) * PAGE - len(self.cells) * self.w if self.flush == "r" else win + PAGE


def ptr(k, off=0):
    return "R%d%+d" % (k, off)


class Op:
    """one call: fn, regions, args (strings), declared writable / readable extents [(k, off, len)]"""

    def __init__(self, fn, regions, args, W=(), Rd=(), meta=None):
        self.fn, self.regions, self.args = fn, regions, [str(a) for a in args]
        self.W, self.Rd = list(W), list(Rd)
        self.meta = meta or {}
        self.id = None

    def line(self, slack=1):
        parts = ["id=%s" % self.id, "fn=%s" % self.fn, "slack=%d" % slack]
        for k, r in enumerate(self.regions):
            parts.append("R%d=%d:%d:%s:%s" % (k, r.w, len(r.cells), r.flush, r.hex()))
        parts.append("W=" + ",".join("R%d%+d:%d" % e for e in self.W))
        parts.append("Rd=" + ",".join("R%d%+d:%d" % e for e in self.Rd))
        parts.append("a=" + ",".join(self.args))
        return " ".join(parts)


def parse_obs(line):
    d = {}
    for tok in line.split():
        if "=" in tok:
            k, v = tok.split("=", 1)
            d[k] = v
    return d


def parse_img(s, widths):
    """img=R0:hex;R1:hex -> {k: [cells]}"""
    out = {}
    if not s:
        return out
    for part in s.split(";"):
        if not part:
            continue
        name, hx = part.split(":", 1)
        k = int(name[1:])
        w = widths[k]
        out[k] = [int(hx[i:i + 2 * w], 16) for i in range(0, len(hx), 2 * w)]
    return out


def run_lines(cmd, lines, env=None, timeout=3600):
    """feed op lines to a process, return its output lines keyed by id"""
    data = ("\n".join(lines) + "\n").encode()
    r = subprocess.run(cmd, input=data, capture_output=True, env=env, timeout=timeout)
    out = {}
    for ln in r.stdout.decode(errors="replace").splitlines():
        if ln.startswith("id="):
            d = parse_obs(ln)
            out[d["id"]] = d
    return out, r.returncode, r.stderr.decode(errors="replace")

"""C12: reentrancy. Theorem: disjoint footprints => any interleaving equals the calls run alone
(lean/SafeC/Proofs/Interleave.lean), with footprints obtained from the no-stray theorems.
Tie to the code: every library call leaves the library's own writable segments bit-identical
(harness/hstat.c snapshots them around a table of representative calls), plus an N-thread stress
on thread-private data as the failing-schedule search."""
import os, sys, json, random, time, subprocess, re, bisect
import orch, buildlib
from orch import Result, log, VERIF

# the only static storage the property allows a call to change
ALLOWED = {
    "set_str_constraint_handler_s": {"str_handler"},
    "set_mem_constraint_handler_s": {"mem_handler"},
    "thrd_set_str_constraint_handler_s": set(),
    "thrd_set_mem_constraint_handler_s": set(),
}


def build_hstat(L):
    out = os.path.join(L["dir"], "hstat")
    cmd = ["gcc", "-O1", "-g", "-w"] + L["incflags"] + ["-o", out, os.path.join(VERIF, "harness", "hstat.c"),
                                                       "-L" + L["dir"], "-lsafec_v", "-Wl,-rpath," + L["dir"], "-Wl,-z,now",
                                                       "-lpthread", "-lm", "-ldl"]
    r = subprocess.run(cmd, capture_output=True, text=True)
    if r.returncode:
        raise RuntimeError("hstat build failed: " + r.stderr[:2000])
    return out


def symbols(so):
    out = subprocess.run(["nm", "-S", "--defined-only", so], capture_output=True, text=True).stdout
    syms = []
    for ln in out.splitlines():
        p = ln.split()
        if len(p) == 4 and p[2] in "bBdD":
            syms.append((int(p[0], 16), int(p[1], 16), p[3]))
    syms.sort()
    return syms


def sym_of(syms, off):
    for a, sz, name in syms:
        if a <= off < a + max(sz, 1):
            return re.sub(r"\.\d+$", "", name)
    return "anon@%x" % off


def run(tier, seed, replay=None):
    pid = "C12"
    res = Result(pid, tier, seed)
    orch.gen_mod.main()
    lean_ok, lean_log, dt = orch.lake_build([t for t in orch.prop_targets("C12") if t != "safec_model"])
    obs = orch.obligations(pid)
    audit, _ = orch.audit_axioms(pid, obs) if lean_ok else ([dict(o, ok=False, axioms=None, error="build failed") for o in obs], "")
    forb = orch.forbidden_tokens()
    known = orch.load_known()
    L = buildlib.build(slack=True, shared=True)
    hstat = build_hstat(L)
    syms = symbols(L["lib"])
    r = subprocess.run([hstat], capture_output=True, text=True, timeout=600)
    if r.returncode != 0 or "call=" not in r.stdout:
        res.violations.append(("harness-failed", dict(kind="hstat crashed or found no segment", rc=r.returncode, out=r.stdout[-500:], err=r.stderr[-500:])))
    touched = {}
    for ln in r.stdout.splitlines():
        m = re.match(r"call=(\S+) changed=(.*)$", ln)
        if not m:
            continue
        call, ch = m.group(1), m.group(2)
        res.evaluations += 1
        fn = call.split(":")[0]
        res.distinct.add(call)
        names = set()
        for part in [x for x in ch.split(",") if x]:
            off = int(part.split(":")[0], 16)
            names.add(sym_of(syms, off))
        res.count("static_symbols_changed", str(len(names)))
        if len(res.samples) < 6 and (names or res.evaluations % 11 == 0):
            res.samples.append({"call": call, "library_statics_changed": sorted(names)})
        bad = names - ALLOWED.get(fn, set())
        for nm in sorted(bad):
            sig = "%s:writes-static:%s" % (fn, nm)
            ent = next((e for e in known if orch.known_match(e, pid, sig, 1)), None)
            if ent:
                kk = ent.get("id") or sig
                res.known_hit.setdefault(kk, dict(ent, count=0, sigs=set()))
                res.known_hit[kk]["count"] += 1
            else:
                res.violations.append((sig, dict(kind="property-fails-on-implementation", property=pid, sig=sig, call=call,
                                                 detail="the call changed the library's static object '%s'" % nm,
                                                 replay="harness/hstat (snapshot of the library's writable segments around the call)")))
        touched[call] = sorted(names)
    # failing-schedule search: thread-private data, N threads
    nt, iters = (8, 1500) if tier == "quick" else (16, 20000)
    s = subprocess.run([hstat, "stress", str(nt), str(iters)], capture_output=True, text=True, timeout=3000)
    fails = [ln for ln in s.stdout.splitlines() if ln.startswith("stress-fail")]
    res.extra["stress"] = dict(threads=nt, iters=iters, failures=len(fails), tail=s.stdout.splitlines()[-1:] )
    for ln in fails[:3]:
        fnm = ln.split()[2]
        res.violations.append(("stress:%s" % fnm, dict(kind="concurrent calls on thread-private data disagree with the single-threaded result",
                                                       property=pid, detail=ln, replay="hstat stress %d %d" % (nt, iters))))
    res.extra["statics_touched_per_call"] = {k: v for k, v in touched.items() if v}
    res.modelled.add("interleaving theorem is about every Prog; footprints from the C01/C02 no-stray theorems")
    trusted = ["Lean 4.33 kernel; axioms propext, Classical.choice, Quot.sound only (audited)",
               "sequential consistency for data-race-free executions (the interleaving semantics of lean/SafeC/Proofs/Interleave.lean steps one load/store at a time)",
               "harness/hstat.c: dl_iterate_phdr finds the writable PT_LOAD segments of the library built from the current tree; nm maps changed bytes to symbols; the table of representative calls in hstat.c is what the snapshot explores",
               "gcc -O0 -fPIC build of the current tree linked -z now; glibc 2.36"]
    return orch.finish(res, pid, lean_ok, lean_log, audit, forb, "", trusted,
                       ["thread-local storage (the thrd_ handler slots, errno) is per-thread by construction and not part of the snapshot",
                        "libc functions the library delegates to are assumed reentrant on the paths used (asctime_r, snprintf, vswprintf …)"],
                       extra_cov=dict(rule="one snapshot comparison per representative call (harness/hstat.c run_calls: every family and every path that used scratch storage); distinct = distinct call label; non-trivial = all of them (each executes library code); plus an N-thread stress of qsort_s/asctime_s/sprintf_s/swprintf_s on private data",
                                      exhaustive=False))

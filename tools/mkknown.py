#!/usr/bin/env python3
"""Developer tool (never run by a check): turn the oracle signatures that `tools/corr.py <family>` still
prints on the unchanged tree — each one analysed as a genuine defect of the pinned library, with the model
predicting it — into known_findings.jsonl entries grouped by root cause.  The entry lists the EXACT
signatures (an alternation), so a different violation of the same property is still reported.
usage: mkknown.py <sigfile> ...   (lines: 'ORACLE <prop> <sig>')"""
import sys, re, json, collections

# (regex over the signature, id, site, what)
RULES = [
    # ---- reads outside the declared extents
    (r".*:rfault@dest\+dmax\+?$", "read-before-bound",
     "loops of the form 'while (*dest && dmax)' / 'while (*dest)' / a dereference after the loop (src/extstr/*.c, src/extwchar/*.c, src/str/strtok_s.c, src/wchar/wcstok_s.c); unbounded strchr/strlen in strchr_s/strstr_s; 'if (!*dest)' in the slack block of str/wcs(n)set_s, strzero_s",
     "with no NUL inside dest's dmax cells the cell dest[dmax] (or further) is read: a fault when the array ends at a page boundary"),
    (r".*:rfault@src\+$", "read-src-past-slen",
     "inner loops 'while (*scan2 && smax)', 'if (src[i] == 0 || !len)', 'while (*dest && *src && dmax)', strlen(src) (strstr_s, strcasestr_s, strpbrk_s, strspn_s, strcspn_s, strcmpfld_s, strfirst*/strlast*, wcscmp_s, wcsncmp_s, wcsstr_s)",
     "the source cell src[slen] / src[dmax] is read although only slen cells were declared"),
    (r".*:rfault@dest-$", "read-below-dest", "backward scans", "a cell below dest is read"),
    # ---- tokenizers
    (r"(strtok|wcstok)_s:write@dest\+dmax\+?$", "tok-unterm-exit-writes-dest-dmax",
     "src/str/strtok_s.c:318, src/wchar/wcstok_s.c:273/328: '*dest = 0' reached with dest == orig + dmax",
     "the 'unterminated' exits store a NUL at dest[dmax], one past the declared extent"),
    (r"(strtok|wcstok)_s:writes-outside-window:.*", "tok-unterm-exit-writes-dest-dmax", "same", "same store seen by the C14 oracle"),
    (r"(strtok|wcstok)_s:fault:unterm-.*", "tok-read-before-bound", "strtok_s.c:260/313, wcstok_s.c:268/323: '*dest' evaluated before 'dlen == 0'",
     "scanning an unterminated string reads dest[dmax] (fault at a page boundary)"),
    (r"(strtok|wcstok)_s:(violation-not-reported:nul-at-dmax.*|token-returned-where-none:nul-at-dmax.*)", "tok-read-before-bound", "same",
     "a NUL found AT dest[dmax] is accepted as the terminator: no ESUNTERM, a token is returned"),
    (r"(strtok|wcstok)_s:(ptr-not-stored|ptr-not-updated):.*", "tok-ptr-not-stored-at-end",
     "strtok_s.c:305-308, 360-361 / wcstok_s.c:315-318, 370-371: '*dmaxp = dlen; return ptoken;' without storing *ptr",
     "*ptr is stored only when a delimiter ended the token: after the last token (or when none is found) the continuation pointer is stale or never written, so the documented call sequence returns the last token again or dereferences an uninitialised pointer"),
    (r"(strtok|wcstok)_s:token-missed:.*delim-empty", "tok-empty-delim-no-token", "strtok_s.c:276-296: 'ptoken = dest' only inside 'while (*pt)'",
     "with an empty delimiter string no token is returned (the whole string should be one token)"),
    (r"(strtok|wcstok)_s:.*:delim-empty$", "tok-empty-delim-no-token", "same", "consequence of the empty-delimiter defect"),
    (r"strtok_s:.*dmax-max.*", "strtok-bos-skips-limit", "strtok_s.c:228-242: the RSIZE_MAX_STR test sits inside 'destbos == BOS_UNKNOWN'",
     "with a known object size a *dmaxp above RSIZE_MAX_STR is not rejected"),
    (r"(strtok|wcstok)_s:.*delim-long.*", "tok-delim-too-long", "strtok_s.c:278-281, 329-332 / wcstok_s.c:288-291, 339-342",
     "a delimiter string longer than STRTOK_DELIM_MAX_LEN is detected only after 16 mismatches, and detection overwrites dest[i], *ptr and *dmaxp"),
    (r"(strtok|wcstok)_s:violation-stores-ptr:unterm-.*", "tok-unterm-stores-ptr", "strtok_s.c:263/316, wcstok_s.c:271/326: '*ptr = NULL'",
     "the ESUNTERM exits store NULL through ptr although the documentation says nothing is stored on a violation"),
    # ---- in-place
    (r"str(ljustify|removews)_s:unterminated:ret=0", "justify-accepts-nul-at-dmax", "strljustify_s.c:111, strremovews_s.c:110: 'while (*dest) { if (dmax == 0)'",
     "a NUL at dest[dmax] is accepted as the terminator: EOK with no NUL inside dmax"),
    (r"str(ljustify|removews)_s:(violation-not-reported|handler-count=0):dest-unterm(-dmax1)?", "justify-accepts-nul-at-dmax", "same; and the 'dmax <= RSIZE_MIN_STR' shortcut",
     "an unterminated dest is not reported (NUL at dest[dmax] accepted; dmax == 1 silently emptied)"),
    (r"(str|wcs)nset_s:stale-after-terminator", "nset-no-slack-when-n-short", "strnset_s.c:117, wcsnset_s.c:119: 'if (!*dest)' after n ran out",
     "when n < strlen(dest) the cells behind the terminator are not nulled although the doc promises it"),
    # ---- query: wrong answers
    (r"str(cmp|cmpfld)_s:wrong-sign:highbit", "signed-char-compare", "strcmp_s.c:117, strcmpfld_s.c:109: '*resultp = *dest - *src' on plain char",
     "bytes >= 0x80 compare as negative: wrong sign vs strcmp (unsigned char)"),
    (r"(strcmp_s|strcasecmp_s):wrong-sign:unterm|strcmpfld_s:wrong-sign:equal", "compare-uses-dest-dmax", "same statements, after the loop",
     "the result is computed from dest[dmax]/src[dmax], outside the compared extent"),
    (r"strchr_s:found-but-absent:unterm", "strchr-off-by-one", "strchr_s.c:116: '> dmax' should be '>='", "a hit at index dmax is accepted"),
    (r"strprefix_s:found-but-absent:unterm", "strprefix-truncated-match", "strprefix_s.c:95-106", "a prefix longer than dest's dmax characters is reported as found"),
    (r"strprefix_s:absent-but-present:empty-prefix", "strprefix-empty", "strprefix_s.c:90", "the empty prefix is reported as not found"),
    (r"strpbrk_s:(absent-but-present|found-but-absent|wrong-position):slen-cuts", "strpbrk-slen", "strpbrk_s.c:128-139: compare precedes the len test; len == 0 ends the whole search",
     "slen is mishandled: characters beyond slen match, and exhausting slen ends the search for all later dest characters"),
    (r"strpbrk_s:operand-modified.*|strpbrk_s:handler-count=2:.*", "strpbrk-clears-dest", "strpbrk_s.c:111: handle_str_bos_overflow(dest, destbos) in a read-only query",
     "slen > srcbos clears dest (and reports twice with destbos unknown)"),
    (r"strcasestr_s:(absent-but-present:slen>dmax|spurious-handler)", "strcasestr-slen-gt-dmax", "strcasestr_s.c:102-107", "slen > dmax is turned into ESNOTFND through the handler although the needle is present"),
    (r"strcasestr_s:wrong-code:slen-bos:got=403", "strcasestr-code", "strcasestr_s.c:112", "slen > srcbos reported as ESLEMAX, documented EOVERFLOW"),
    (r"strrchr_s:.*(dest-empty|empty)$", "strrchr-empty", "strrchr_s.c:106 'return ESZEROL'", "an empty string returns ESZEROL without a handler call, and searching for NUL in it fails"),
    (r"memcmp32_s:wrong-sign:highbit", "memcmp32-unsigned-diff", "memcmp32_s.c:198 '*diff = *dest - *src' in uint32_t", "differences >= 2^31 get the wrong sign"),
    (r"strcasecmp_s:sign-vs-posix-tolower", "strcasecmp-folds-upper", "strcasecmp_s.c:106", "folds to upper case (documented) where POSIX strcasecmp folds to lower: sign differs for characters between 'Z' and 'a'"),
    (r"(memchr|memrchr)_s:handler-arg:ch|strcspn_s:handler-arg:slen-bos", "wrong-handler-family", "memchr_s.c:94, memrchr_s.c:89/104 (str handler), strcspn_s.c:116 (mem handler)", "the violation is reported through the other family's handler"),
    (r"memcmp16_s:(spurious-failure:ret=403|spurious-handler)", "memcmp16-bytes-vs-elements", "memcmp16_s.c:121-133 'dmax = dlen * 2' compared with RSIZE_MAX_MEM16", "dlen in (RSIZE_MAX_MEM16/2, RSIZE_MAX_MEM16] is rejected"),
    (r"memcmp32_s:(violation-not-reported|handler-count=0):dmax-max\+dmax-bos", "memcmp32-uint32-sizes", "memcmp32_s.c:91-133 uint32_t byte counts", "over-limit dlen passes when dest's size is known"),
    (r"stris(digit|mixedcase|uppercase)_s:wrong-return:want-value", "isclass-ignores-dmax", "strisdigit_s.c:78 etc.: 'while (*dest)' never tests dmax", "characters behind dmax decide the answer"),
    (r"wcsn?cmp_s:wrong-sign:bound-ignored", "wcscmp-bound-ignored", "wcscmp_s.c:132, wcsncmp_s.c:135: difference taken after the loop", "the result is taken from cells behind dmax/smax/count"),
    (r"wcsn?cmp_s:wrong-sign:int-overflow", "wcscmp-int-overflow", "same statements", "'*dest - *src' overflows int for wide values of opposite sign"),
    (r"wcsnlen_s:wrong-return:want-value", "wcsnlen-bos-off-by-one", "wcsnlen_s.c:122-124", "with a known object size an array filling its object returns one short (or 0)"),
    # ---- query2 constraint reporting
    (r".*:(violation-not-reported|handler-count=0|success-value-on-violation):dmax-max$", "bos-known-skips-limit", "CHK_DEST_OVR / CHK_DEST_OVR_BOOL / CHK_DESTW_OVR (safeclib_private.h:414-460): the RSIZE limit is tested only inside 'dmax > destbos'",
     "with a known object size >= dmax, a dmax above RSIZE_MAX_* is not rejected"),
    (r"strispassword_s:.*dmax-max.*", "strispassword-limit", "strispassword_s.c:82 + CHK_DEST_OVR_BOOL hard-codes RSIZE_MAX_STR", "dmax above SAFE_STR_PASSWORD_MAX_LENGTH is not rejected / reported with the wrong code when dest's size is known"),
    (r"wcsn?cmp_s:(touched-before-rejecting|(violation-not-reported|handler-count=0):dmax-max.*)", "wcscmp-narrow-limit", "wcscmp_s.c:98, wcsncmp_s.c:100: CHK_DMAX_MAX(RSIZE_MAX_STR)", "dmax is tested against the narrow limit 4096 instead of RSIZE_MAX_WSTR"),
    (r"wcsstr_s:(violation-not-reported|handler-count=0):slen-max.*", "wcsstr-empty-needle-first", "wcsstr_s.c:109 precedes the slen checks", "an empty needle is answered before slen is validated"),
    (r"wcsnlen_s:(violation-not-reported|success-value-on-violation):dmax-bos", "wcsnlen-clamps", "wcsnlen_s.c:119-126", "smax above the known object size is clamped instead of reported"),
    (r"(wmemcmp|wcscmp|wcsncmp|wcsstr)_s:.*dmax-max(\+dmax-bos)?(:got=401)?$", "wide-size-multiplication-wraps", "'dmax * sizeof(wchar_t)' without overflow check", "element counts >= 2^62 wrap to small byte sizes and pass"),
]


def main():
    by = collections.OrderedDict()
    unknown = []
    for f in sys.argv[1:]:
        for ln in open(f):
            p = ln.split()
            if len(p) < 3 or p[0] != "ORACLE":
                continue
            prop, sig = p[1], p[2]
            for rx, rid, site, what in RULES:
                if re.fullmatch(rx, sig):
                    by.setdefault((prop, rid), dict(site=site, what=what, sigs=[]))
                    if what not in ("same",) and by[(prop, rid)]["what"] in ("same",):
                        by[(prop, rid)].update(site=site, what=what)
                    if sig not in by[(prop, rid)]["sigs"]:
                        by[(prop, rid)]["sigs"].append(sig)
                    break
            else:
                unknown.append((prop, sig))
    for (prop, rid), v in by.items():
        print(json.dumps(dict(status="known", property=prop, id=rid, sig_re="|".join(re.escape(s) for s in sorted(v["sigs"])),
                              site=v["site"], what=v["what"], witness="see tools/corr.py output for the family (every listed signature is reproduced by the Lean model)")))
    for u in unknown:
        print("# UNCLASSIFIED", u, file=sys.stderr)


if __name__ == "__main__":
    main()

#!/usr/bin/env python3
"""Developer tool for the tok family: run REAL tokenizing histories.

tools/families/tok.py builds every call from the reference state, so one defective call cannot hide
the next one.  This tool does the opposite: call k+1 is built from what the IMPLEMENTATION handed back
in call k (*ptr, *dmaxp, buffer), exactly as a caller's loop would do, and the whole history is
compared with the reference token list (the maximal delimiter-free substrings).  It shows what the
per-call findings of FINDINGS_tok.md mean for a caller.

   python3 tools/tok_chain.py [--max-len 4] [--show 12] [--model]
--model additionally runs the Lean model along the same histories and reports any disagreement.
"""
import sys, os, argparse, itertools, collections
sys.path.insert(0, os.path.dirname(os.path.abspath(__file__)))
import orch, proto
from proto import ptr
from families.tok import mk_call, FN, ALPHA, D1, D2
from oracles import parse_loc


def ref_tokens(s, delim):
    out, cur = [], []
    for c in s:
        if c in delim:
            if cur:
                out.append(cur)
            cur = []
        else:
            cur.append(c)
    if cur:
        out.append(cur)
    return out


def text(cells):
    return "".join(chr(c) if 32 < c < 127 else "\\x%02x" % c for c in cells)


def main():
    ap = argparse.ArgumentParser()
    ap.add_argument("--max-len", type=int, default=4)
    ap.add_argument("--show", type=int, default=2)
    ap.add_argument("--model", action="store_true")
    a = ap.parse_args()
    impl = orch.Impl()
    hx = impl.get(1)
    delim = [D1, D2]
    total = collections.Counter()
    shown = collections.Counter()
    for w in (1, 4):
        fn = FN[w]
        hist = []
        for L in range(0, a.max_len + 1):
            for t in itertools.product(ALPHA, repeat=L):
                s = list(t)
                for extra in (0, 2):        # dmax == strlen+1, dmax == strlen+3
                    hist.append(dict(s=s, img=s + [0] + [0x58] * extra, dmax=L + 1 + extra, p=None, n=L + 1 + extra,
                                     toks=[], ev=[], nulls=0, done=None, calls=0, lines=[]))
        live = list(hist)
        for rnd in range(12):
            ops = []
            for h in live:
                first = h["p"] is None
                if not first and h["p"] == "_":
                    h["done"] = "cannot continue: *ptr was never stored"
                    continue
                op = mk_call(fn, w, h["img"], 0 if first else h["p"], h["n"], delim, first)
                ops.append((h, op))
            live = [h for h, _ in ops]
            if not ops:
                break
            for i, (_, op) in enumerate(ops):
                op.id = i
            lines = [op.line(1) for _, op in ops]
            c, rc, err = proto.run_lines([hx, "C"], lines)
            if a.model:
                mo, _, _ = proto.run_lines([orch.MODEL_BIN], lines)
            nxt = []
            for i, (h, op) in enumerate(ops):
                d = c[str(i)]
                h["calls"] += 1
                h["lines"].append((lines[i], d))
                if a.model:
                    dm = mo.get(str(i), {})
                    keys = ["fault"] if ("fault" in d or "fault" in dm) else ["ret", "o", "ev", "img"]
                    if any(d.get(k) != dm.get(k) for k in keys):
                        total["MODEL-MISMATCH"] += 1
                        print("MODEL MISMATCH", lines[i], d, dm)
                if "fault" in d:
                    h["done"] = "fault " + d["fault"]
                    continue
                img = proto.parse_img(d["img"], {0: w, 1: w})[0]
                o = d["o"].split(",")
                if d.get("ev"):
                    h["ev"].append(d["ev"])
                if d["ret"] == "null":
                    h["nulls"] += 1
                else:
                    h["nulls"] = 0
                    k = parse_loc(d["ret"])[1]
                    tok = []
                    while k < len(img) and img[k] != 0:
                        tok.append(img[k]); k += 1
                    h["toks"].append(tok)
                h["img"] = img
                h["n"] = int(o[1])
                if o[3] == "_":
                    h["p"] = "_"
                elif o[3] == "null":
                    h["done"] = "ended: *ptr == NULL"
                    continue
                else:
                    h["p"] = parse_loc(o[3])[1]
                if h["nulls"] == 2:
                    h["done"] = "two NULLs"
                    continue
                if h["p"] != "_" and h["p"] + h["n"] > len(img):
                    h["done"] = "state reaches past the buffer"
                    continue
                nxt.append(h)
            live = nxt
        for h in hist:
            want = ref_tokens(h["s"], delim)
            final_want = [0 if c in delim else c for c in h["s"]]
            problems, tags = [], []
            if h["toks"] != want:
                rep = len(h["toks"]) > len(want) and h["toks"][:len(want)] == want
                tags.append("last-token-returned-again" if rep else "tokens-differ")
                problems.append("tokens %s, reference %s" % ([text(t) for t in h["toks"]], [text(t) for t in want]))
            if h["ev"]:
                tags.append("handler-on-terminated-string")
                problems.append("handler called on a terminated string: %s" % h["ev"])
            if h["done"] and h["done"] != "two NULLs":
                tags.append(h["done"].split(":")[0].replace(" ", "-"))
                problems.append(h["done"])
            got = h["img"][:len(h["s"])]
            bad = [i for i, (x, y) in enumerate(zip(got, h["s"])) if x != y and h["s"][i] not in delim]
            if bad:
                tags.append("non-delimiter-overwritten")
                problems.append("non-delimiter cell(s) %s overwritten" % bad)
            key = (fn, "ok" if not problems else "+".join(tags))
            total[key] += 1
            if problems and shown[key] < a.show:
                shown[key] += 1
                print("%s(\"%s\", dmax=%d, \",;\"): %s" % (fn, text(h["s"]), h["dmax"], " | ".join(problems)))
                for ln, d in h["lines"]:
                    print("      a=%s  ->  ret=%s o=%s ev=%s img=%s" % (ln.split(" a=")[1], d.get("ret", "FAULT " + d.get("fault", "")), d.get("o"), d.get("ev"), d.get("img", "").split(";")[0]))
    print("---- histories by outcome")
    for k, v in sorted(total.items(), key=str):
        print("  %6d  %s" % (v, k))


if __name__ == "__main__":
    main()

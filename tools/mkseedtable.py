"""Rewrite the seeded-mutation table of DESIGN.md (between the SEEDTABLE markers) from seeded/*/meta.json."""
import json, os, re, glob
HERE = os.path.dirname(os.path.abspath(__file__))
V = os.path.dirname(HERE)
rows = []
for d in sorted(glob.glob(os.path.join(V, "seeded", "*"))):
    mp = os.path.join(d, "meta.json")
    if not os.path.exists(mp):
        continue
    m = json.load(open(mp))
    name = os.path.basename(d)
    what = (m.get("needs_to_manifest") or m.get("what") or m.get("change") or "").strip().split("\n")[0][:150].replace("|", "/")
    note = (m.get("detection_note") or "").replace("|", "/")
    rows.append("| %s | %s | %s | %s | %s |" % (name, m.get("property", ""), what, ", ".join(m.get("caught_by") or []) or "—", note))
tab = ["| seed | property | change (first line of the agent's description) | caught by | note |", "|---|---|---|---|---|"] + rows
p = os.path.join(V, "DESIGN.md")
s = open(p).read()
b, e = "<!-- SEEDTABLE:BEGIN -->", "<!-- SEEDTABLE:END -->"
if b in s:
    s = s[:s.index(b) + len(b)] + "\n" + "\n".join(tab) + "\n" + s[s.index(e):]
    open(p, "w").write(s)
print(len(rows), "seeds")

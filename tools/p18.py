"""C18: secure erase really erases.

Three parts, one verdict:
 (a) value/extent half - PROOF level: theorems of lean/SafeC/Props/C18.lean about the Lean models of the seven erase entry
     points and the three set primitives, tied to the current tree by differential execution (family `erase`: every
     n <= 160 x alignment 0..15 x fill values, dirty buffers, guard pages) with the oracle "after EOK exactly the addressed
     cells hold the value, nothing else changed";
 (a') objects of >= 2^32 elements (a 17 GB MAP_NORESERVE mapping, only a few pages of it ever touched): harness/hbig.c;
 (b) the ASSUMPTION VALIDATOR for the compiler dimension - explicitly NOT a proof, reported under its own evidence key:
     harness/herase.c + harness/herase_spy.c (client programs in which the erased buffer is dead after the call) built at
     several optimisation levels against the library built from the current tree at -O0 and -O2 (static archive), and with
     -flto on both sides; bytes inspected out-of-band; disassembly checked for the call.
"""
import os, sys, json, random, time, subprocess, re, hashlib, shutil
import orch, buildlib, proto, oracles
from orch import Result, Impl, log, VERIF
from oracles import Fail
import families.erase as erase

PID = "C18"
HARN = os.path.join(VERIF, "harness")

TRUSTED = [
    "Lean 4.33 kernel; axioms allowed: propext, Classical.choice, Quot.sound (audited per theorem with #print axioms on every run)",
    "hand-written Lean models lean/SafeC/Models/Mem.lean (mem_prim_set/16/32, memset_s, memset16_s, memset32_s, memzero_s, memzero16_s, memzero32_s) and lean/SafeC/Models/Inplace.lean (strzero_s), tied to /repo by differential execution on this run's inputs only",
    "the machine treats every store as an observable effect: it has no notion of a dead store. That a compiler keeps the stores of an erase whose buffer is dead is NOT proved; it is validated on the builds listed under coverage.assumption_validator only",
    "explicit_bzero (glibc 2.36) is modelled as n byte stores of 0, not verified",
    "correspondence harness harness/hx.c (guard pages, canaries), Lean driver lean/Main.lean, tools/*.py (generators, oracle, comparison)",
    "gcc 12 -O0 build of the current tree for the correspondence; x86-64 Linux page protection",
]

ASSUMPTIONS = [
    "caller declarations truthful as generated (dest really has dmax / object-size cells)",
    "sequential execution",
    "compiler dimension (all optimisation levels, LTO): NOT shown by proof; sampled by the assumption validator on gcc 12.2 (and clang 14 in the thorough tier), x86-64, the client programs of harness/herase.c",
]


# ------------------------------------------------------------------ (a') huge objects
def run_big(res, L, known, wit_ok):
    """objects with >= 2^32 elements: the uint32_t length parameters of the primitives"""
    exe = os.path.join(L["dir"], "hbig")
    buildlib.build_harness(L, os.path.join(HARN, "hbig.c"), exe)
    r = subprocess.run([exe], capture_output=True, text=True, timeout=300)
    rows = [proto.parse_obs(ln) for ln in r.stdout.splitlines() if ln.startswith("probe=")]
    if r.returncode != 0 or not rows:
        res.notes.append("hbig did not run (rc=%d): %s" % (r.returncode, r.stderr[:200]))
        return []
    out = []
    for d in rows:
        res.evaluations += 1
        res.count("fn", d["fn"] + "(2^32+2)")
        fn = d["fn"]
        if d["ret"] != "0":
            res.count("outcome", "big:ret=%s" % d["ret"])
            continue
        res.count("outcome", "big:ret=0")
        want = d["want"]
        cells = [d["c0"], d["c1"], d["c2"], d["clast"]]
        bad = [i for i, c in enumerate(cells) if c != want]
        if bad:
            sig = "%s:not-erased:n>=2^32:bos-known" % fn
            ent = next((e for e in known if orch.known_match(e, PID, sig, 1)), None)
            rep = dict(kind="property-fails-on-implementation", property=PID, sig=sig, probe=d,
                       detail="EOK returned for n = 2^32+2 elements with a known object size, but only n mod 2^32 elements were set",
                       replay_cmd="harness/hbig.c built against the current tree", model_predicts=wit_ok)
            if ent is not None and wit_ok:
                kk = ent.get("id")
                res.known_hit.setdefault(kk, dict(ent, count=0, example=json.dumps(d), sigs=set()))
                res.known_hit[kk]["count"] += 1
                res.known_hit[kk]["sigs"].add(sig)
            else:
                res.violations.append((sig, rep))
        else:
            res.distinct.add("big:" + fn)
        out.append(d)
    return out


# ------------------------------------------------------------------ (b) the assumption validator
def configs(tier):
    """(library opt, client opt, lto, client compiler, shared)"""
    if tier == "quick":
        return [("-O0", "-O0", False, "gcc", False), ("-O0", "-O2", False, "gcc", False),
                ("-O2", "-O2", False, "gcc", False), ("-O2", "-O2", True, "gcc", False), ("-O1", "-O1", True, "gcc", False)]
    out = []
    for lo in ("-O0", "-O2"):
        for co in ("-O0", "-O1", "-O2", "-O3", "-Os"):
            out.append((lo, co, False, "gcc", False))
    for o in ("-O1", "-O2", "-O3", "-Os"):
        out.append((o, o, True, "gcc", False))
    out.append(("-O2", "-O3", True, "gcc", False))
    out.append(("-O0", "-O2", False, "clang", False))
    out.append(("-O2", "-O3", False, "clang", False))
    out.append(("-O0", "-O2", False, "gcc", True))
    out.append(("-O2", "-O2", False, "gcc", True))
    return out


_libcache = {}


def get_lib(opt, lto, shared):
    key = (opt, lto, shared)
    if key not in _libcache:
        extra = ("-flto", "-ffat-lto-objects") if lto else ()
        _libcache[key] = buildlib.build(slack=True, opt=opt, extra_cflags=extra, shared=shared)
    return _libcache[key]


def cfgname(cfg):
    lo, co, lto, cc, shared = cfg
    return "lib%s_%s%s%s%s" % (lo, cc, co, "_lto" if lto else "", "_shared" if shared else "")


def programs(cfg):
    """the client programs of one configuration: (suffix, -D flags).  Without LTO the library call is opaque and one program
    holds all victims; with LTO one program per storage kind and slot, so that every erase function (and every set primitive)
    has a single call site and the link-time optimiser is free to inline it into the victim (where the buffer is dead)."""
    if not cfg[2]:
        return [("all", [])]
    return [("s%d_%d" % (st, sl), ["-DSEL_STORAGE=%d" % st, "-DSEL_SLOT=%d" % sl]) for st in (1, 2, 3, 4) for sl in (0, 1, 2, 3)]


def build_client(cfg, outdir, suffix="all", defs=()):
    """returns (exe, [command lines])"""
    lo, co, lto, cc, shared = cfg
    L = get_lib(lo, lto, shared)
    os.makedirs(outdir, exist_ok=True)
    spy = os.path.join(outdir, "spy.o")
    exe = os.path.join(outdir, "client_" + suffix)
    cmds = []
    c1 = ["gcc", "-O1", "-w", "-fno-lto", "-c", os.path.join(HARN, "herase_spy.c"), "-o", spy]
    # with LTO the client gets the library's own -f options: gcc does not inline across translation units whose
    # -fstrict-aliasing / -fstrict-overflow / -fdelete-null-pointer-checks settings differ, and the inlined case is the one
    # that matters (measured: without this the _chk functions stay out of line and every call is opaque)
    same = [f for f in L["cflags"] if f.startswith("-f") and "lto" not in f] if lto else []
    c2 = [cc, co, "-w", "-fno-pie", "-no-pie"] + (["-flto"] if lto else []) + same + list(defs) + L["incflags"] + \
         ["-o", exe, os.path.join(HARN, "herase.c"), spy, L["lib"]] + (["-Wl,-rpath," + L["dir"]] if shared else [])
    for c in (c1, c2):
        cmds.append(" ".join(c))
        if c is c1 and os.path.exists(spy):
            continue                      # built by the first program of this configuration
        r = subprocess.run(c, capture_output=True, text=True)
        if r.returncode != 0:
            raise RuntimeError("validator build failed: %s\n%s" % (" ".join(c), r.stderr[:2000]))
    libcmd = "library: every file of libsafec_la_SOURCES etc. compiled with: gcc " + " ".join(L["cflags"]) + " (tools/buildlib.py), " + \
             ("shared object" if shared else "static archive")
    return exe, [libcmd] + cmds


def static_syms(exe):
    r = subprocess.run(["nm", exe], capture_output=True, text=True)
    syms = {}
    for ln in r.stdout.splitlines():
        m = re.match(r"([0-9a-f]+) [bBdD] (vt_\w+_obj)(\.\S*)?$", ln)
        if m:
            syms[m.group(2)] = m.group(1)
    return syms


ERASE_SYM = re.compile(r"<(_(?:memset|memzero|memset16|memset32|memzero16|memzero32|strzero)_s_chk)(?:@plt|\.\S*)?>")
PRIM_SYM = re.compile(r"<(mem_prim_set(?:16|32)?|explicit_bzero|memset|__explicit_bzero_chk|__memset_chk)(?:@plt|\.\S*)?>")


def disasm(exe):
    """per victim function: does its body still call the erase entry point / a primitive, how many stores"""
    r = subprocess.run(["objdump", "-d", "--no-show-raw-insn", exe], capture_output=True, text=True)
    out = {}
    cur = None
    for ln in r.stdout.splitlines():
        m = re.match(r"[0-9a-f]+ <(v[snht]_\w+?)(\.\S*)?>:$", ln)
        if m:
            cur = m.group(1)
            out[cur] = dict(chk=None, prim=0, stores=0, insns=0)
            continue
        if re.match(r"[0-9a-f]+ <", ln):
            cur = None
            continue
        if cur and "\t" in ln:
            d = out[cur]
            d["insns"] += 1
            ins = ln.split("\t", 2)[-1] if ln.count("\t") >= 2 else ln
            if re.search(r"\b(call|jmp)\b", ins):
                m1 = ERASE_SYM.search(ins)
                if m1:
                    d["chk"] = m1.group(1)
                elif PRIM_SYM.search(ins):
                    d["prim"] += 1
            elif re.search(r"\b(mov\w*|stos\w*|vmov\w*)\b.*,\s*[-0-9a-fx]*\(%", ins) or "stos" in ins:
                d["stores"] += 1
    return out


def run_program(cfg, name, work, suffix, defs, only_victim=None):
    """build and run one client program; returns dict(rows, dis, cmds, syms, crashed, error)"""
    try:
        exe, cmds = build_client(cfg, os.path.join(work, name), suffix, defs)
    except RuntimeError as e:
        return dict(error=str(e)[:3000], rows=[], dis={}, cmds=[], syms={}, crashed=None)
    syms = static_syms(exe)
    env = dict(os.environ, HERASE_SYMS=",".join("%s=%s" % kv for kv in sorted(syms.items())))
    r = subprocess.run([exe] + ([only_victim] if only_victim else []), capture_output=True, text=True, env=env, timeout=120)
    rows = [proto.parse_obs(ln) for ln in r.stdout.splitlines() if ln.startswith("victim=")]
    crashed = None
    if r.returncode != 0 or "done=1" not in r.stdout:
        crashed = dict(rc=r.returncode, stdout=r.stdout[-2000:], stderr=r.stderr[-2000:])
    return dict(error=None, rows=rows, dis=disasm(exe), cmds=cmds, syms=syms, crashed=crashed, suffix=suffix, defs=list(defs))


def run_validator(res, tier, known, only=None, keep=None):
    from concurrent.futures import ThreadPoolExecutor
    t0 = time.time()
    rows_all = []
    summary = {}
    work = keep or buildlib.scratch_dir("safec_c18v_")
    for cfg in configs(tier):
        name = cfgname(cfg)
        if only and name != only:
            continue
        lo, co, lto, cc, shared = cfg
        get_lib(lo, lto, shared)
        progs = programs(cfg)
        # spy.o is shared by the programs of a configuration: build the first one alone, the rest 4 at a time
        first = run_program(cfg, name, work, progs[0][0], progs[0][1])
        with ThreadPoolExecutor(max_workers=4) as ex:
            rest = list(ex.map(lambda pr: run_program(cfg, name, work, pr[0], pr[1]), progs[1:]))
        ok = bad = nrows = nsyms = 0
        calls = 0
        allcmds = first["cmds"]
        for P in [first] + rest:
            if P["error"]:
                res.violations.append(("validator:build-failed:%s" % ("lto" if lto else "nolto"),
                                       dict(kind="validator", property=PID, config=name, detail=P["error"])))
                continue
            cmds, dis = P["cmds"], P["dis"]
            if P["crashed"]:
                res.violations.append(("validator:client-crashed:%s" % ("lto" if lto else "nolto"),
                                       dict(kind="validator", property=PID, config=name, build=cmds, **P["crashed"])))
            nsyms += len(P["syms"])
            for d in P["rows"]:
                nrows += 1
                d["config"] = name
                fn, storage, result = d.get("fn"), d.get("storage"), d.get("result")
                di = dis.get(d["victim"], {})
                d["calls_chk"] = di.get("chk")
                d["inlined"] = bool(di) and not di.get("chk")
                calls += 1 if di.get("chk") else 0
                fails = []
                if result != "erased":
                    kind = result
                    if result == "secret-left":
                        # which part of the secret survived: only bytes inside the 8-byte-aligned interior of the range (the word
                        # stores of mem_prim_set) or also the bytes it writes one at a time; without an address (stack scan):
                        # part of the range or all of it
                        total = (int(d["n"]) - int(d["off"])) * int(d["w"])
                        leaked, edge = int(d.get("leaked", 0)), int(d.get("edge", -1))
                        if storage == "stack-noescape":
                            extent = "partial" if leaked < total else "everything"
                        else:
                            extent = "words-only" if edge == 0 else "incl-byte-stores"
                        kind = "dead-store-eliminated:" + extent
                    fails.append(("%s:%s:%s:%s" % (fn, kind, storage, "lto" if lto else "nolto"),
                                  "the erased buffer was inspected out-of-band after the call: %s" % d))
                if not lto and di and not di.get("chk"):
                    fails.append(("%s:call-missing:%s:nolto" % (fn, storage),
                                  "the disassembly of %s contains no call to the _chk entry point" % d["victim"]))
                if not di:
                    res.notes.append("no disassembly found for %s in %s" % (d["victim"], name))
                for sig, detail in fails:
                    bad += 1
                    ent = next((e for e in known if orch.known_match(e, PID, sig, 1)), None)
                    rep = dict(kind="validator", property=PID, sig=sig, detail=detail, config=name, cfg=list(cfg), victim=d["victim"],
                               suffix=P["suffix"], defs=P["defs"], build=cmds,
                               program=[os.path.join(HARN, "herase.c"), os.path.join(HARN, "herase_spy.c")],
                               observed=d, disassembly=di)
                    if ent is not None:
                        kk = ent.get("id")
                        res.known_hit.setdefault(kk, dict(ent, count=0, example=json.dumps(d), sigs=set()))
                        res.known_hit[kk]["count"] += 1
                        res.known_hit[kk]["sigs"].add(sig)
                    else:
                        res.violations.append((sig, rep))
                if not fails:
                    ok += 1
                rows_all.append(d)
        summary[name] = dict(programs=len(progs), victims=nrows, erased=ok, failed=bad, static_symbols=nsyms,
                             calls_chk=calls, inlined_or_renamed=nrows - calls, build=allcmds)
        log("  C18 validator %s: %d programs, %d victims, %d erased, %d failed, %d with the library call inlined" %
            (name, len(progs), nrows, ok, bad, nrows - calls))
    return dict(
        note="NOT a proof: samples the assumption 'the stores of a successful erase are performed although the buffer is dead' on real builds of the current tree",
        configs=summary, programs=sum(v["programs"] for v in summary.values()), victims=len(rows_all), wall_s=round(time.time() - t0, 1),
        storage_kinds=sorted({d.get("storage") for d in rows_all if d.get("storage")}),
        functions=sorted({d.get("fn") for d in rows_all if d.get("fn")}),
        samples=[d for d in rows_all[:3]] + [d for d in rows_all if d.get("inlined")][:3] + [d for d in rows_all if d.get("result") != "erased"][:5],
        compilers=dict(gcc=_ver("gcc"), clang=_ver("clang")),
    ), rows_all


def _ver(cc):
    try:
        return subprocess.run([cc, "--version"], capture_output=True, text=True).stdout.splitlines()[0]
    except Exception:
        return None


# ------------------------------------------------------------------ the check
def run(tier, seed, replay=None):
    res = Result(PID, tier, seed)
    orch.gen_mod.main()
    lean_ok, lean_log, dt = orch.lake_build(orch.prop_targets("C18"))
    res.extra["lean_build_s"] = round(dt, 1)
    drv_ok = lean_ok or orch.lake_build(["safec_model"])[0]
    obs = orch.obligations(PID)
    audit, _ = orch.audit_axioms(PID, obs) if lean_ok else ([dict(o, ok=False, axioms=None, error="build failed") for o in obs], "")
    forb = orch.forbidden_tokens()
    impl = Impl()
    known = orch.load_known()
    if replay:
        return do_replay(replay, impl, tier)
    # (a) correspondence + oracle
    for slack in (1, 0):
        rng = random.Random(seed * 1000003 + slack)
        t = time.time()
        if slack:
            ops = erase.gen(rng, tier)
        else:
            # the mem functions do not depend on SAFECLIB_STR_NULL_SLACK: strzero_s completely, the others sampled
            allops = erase.gen(rng, tier)
            ops = [o for i, o in enumerate(allops) if o.fn == "strzero_s" or i % 23 == 0]
        for o in ops:
            o.meta["slack"] = slack
            erase.annotate(o)
        c, m = orch.run_pair(impl, ops, slack)
        if not drv_ok:
            m = {}
        orch.evaluate(res, PID, ops, c, m, slack, known, [erase.o_C18], nontrivial=erase.nontrivial)
        for o in ops:
            if "align" in o.meta:
                res.count("alignment", str(o.meta["align"]))
            res.count("width", str(o.meta.get("w")))
        res.count("family", "erase/slack=%d" % slack)
        log("  C18 erase slack=%d: %d ops in %.1fs" % (slack, len(ops), time.time() - t))
    # (a') huge objects
    wit_ok = any(a["name"].endswith("memset_s_C18_bos_witness") and a["ok"] for a in audit)
    big = run_big(res, impl.libs[1], known, wit_ok)
    # (b) assumption validator
    val, rows = run_validator(res, tier, known)
    res.extra["assumption_validator"] = val
    res.extra["huge_object_probes"] = big
    rule = ("value/extent: family `erase` (tools/families/erase.py): every n <= 160 x dest alignment 0..15 x fill values on dirty "
            "buffers flush against guard pages (right and left), larger blocks, the corner cases of the mem/inplace families, a seeded "
            "random stream; distinct = distinct canonical op line; non-trivial = the call returned EOK and had at least one cell to erase. "
            "The assumption validator's client programs are counted separately (coverage.assumption_validator.programs)")
    return orch.finish(res, PID, lean_ok, lean_log, audit, forb, "", TRUSTED, ASSUMPTIONS, extra_cov=dict(rule=rule, exhaustive=False))


def do_replay(path, impl, tier):
    rep = json.load(open(path))
    if rep.get("kind") == "validator":
        cfg = tuple(rep["cfg"])
        work = buildlib.scratch_dir("safec_c18r_")
        vid = rep["victim"].split("_", 1)[1]
        P = run_program(cfg, "replay", work, rep.get("suffix", "all"), rep.get("defs", []), only_victim=vid)
        print("config :", rep["config"])
        for c in P["cmds"]:
            print("build  :", c)
        if P["error"]:
            print("build failed:", P["error"])
        print("recorded:", rep.get("observed"))
        for d in P["rows"]:
            if d["victim"] == rep["victim"]:
                print("now     :", d)
                print("disassembly:", P["dis"].get(d["victim"]))
                print("reproduced" if d.get("result") == rep["observed"].get("result") else "differs from the recorded observation")
        return 0
    if rep.get("probe"):
        L = buildlib.build(slack=True)
        exe = os.path.join(L["dir"], "hbig")
        buildlib.build_harness(L, os.path.join(HARN, "hbig.c"), exe)
        print(subprocess.run([exe], capture_output=True, text=True).stdout)
        print("recorded:", rep["probe"])
        return 0
    import props
    return props.do_replay(PID, path, impl)


if __name__ == "__main__":
    # development aid: python3 tools/p18.py validator [quick|thorough] [config-name]
    sys.path.insert(0, os.path.dirname(os.path.abspath(__file__)))
    if len(sys.argv) > 1 and sys.argv[1] == "validator":
        tier = sys.argv[2] if len(sys.argv) > 2 else "quick"
        res = Result(PID, tier, 1)
        val, rows = run_validator(res, tier, orch.load_known(), only=sys.argv[3] if len(sys.argv) > 3 else None)
        for d in rows:
            if d.get("result") != "erased" or not d.get("calls_chk"):
                print(d)
        print(json.dumps({k: {kk: vv for kk, vv in v.items() if kk != "build"} for k, v in val["configs"].items()}, indent=1))
        for sig, rep in res.violations:
            print("VIOLATION", sig)
        for k, e in res.known_hit.items():
            print("KNOWN", k, e["count"], sorted(e["sigs"]))

#!/usr/bin/env python3
"""Independent oracle for the floating-point conversions of C printf
(C11 7.21.6.1: f F e E g G a A), written from the standard with exact rational
arithmetic (fractions.Fraction).  Python's own float formatting is used only
inside _selftest() as a cross-check, never to produce an expected text.

value arguments: a fractions.Fraction (exact value of the double / long double
passed; Fraction(0) is +0) or one of the strings 'inf' '-inf' 'nan' '-nan' '-0'.

Public API: check_float, expected_float, frac_of_double_bits, frac_of_x87_bits.
"""
import re
from fractions import Fraction

_SPECIALS = ('inf', '-inf', 'nan', '-nan', '-0')
_HEXD = '0123456789abcdef'

def _norm(value):
    """value -> (kind, neg, mag); kind in 'fin','inf','nan'; mag Fraction >= 0 or None."""
    if isinstance(value, str):
        if value not in _SPECIALS:
            raise ValueError('bad special value %r' % (value,))
        if value == '-0':
            return 'fin', True, Fraction(0)
        return value.lstrip('-'), value[0] == '-', None
    f = Fraction(value)
    return 'fin', f < 0, abs(f)

def _rhe(q):
    """round-half-even of a non-negative Fraction to an int."""
    fl, r = divmod(q.numerator, q.denominator)
    if 2 * r > q.denominator or (2 * r == q.denominator and fl & 1):
        fl += 1
    return fl

def _scale(q, base, k):
    """q * base**k exactly (k may be negative)."""
    return q * base ** k if k >= 0 else Fraction(q) / base ** (-k)

def _floor_log(q, base):
    """floor(log_base(q)) for a Fraction q > 0, exactly."""
    bits = q.numerator.bit_length() - q.denominator.bit_length()
    e = bits if base == 2 else int(bits * 0.30103)
    while _scale(q, base, -e) >= base:
        e += 1
    while _scale(q, base, -e) < 1:
        e -= 1
    return e

def _sig_round(mag, P):
    """round mag to P significant decimal digits -> (N, X): N has exactly P digits
    and the rounded value is N * 10**(X-P+1); zero gives (0, 0)."""
    if mag == 0:
        return 0, 0
    X = _floor_log(mag, 10)
    N = _rhe(_scale(mag, 10, P - 1 - X))
    if N >= 10 ** P:
        N, X = 10 ** (P - 1), X + 1
    return N, X

def _f_body(mag, p, alt):
    s = str(_rhe(_scale(mag, 10, p))).rjust(p + 1, '0')
    ip, fr = (s[:-p], s[-p:]) if p else (s, '')
    return ip + ('.' if (p or alt) else '') + fr

def _e_parts(mag, p, alt):
    N, X = _sig_round(mag, p + 1)
    s = str(N).rjust(p + 1, '0')
    mant = s[0] + ('.' if (p or alt) else '') + s[1:]
    return mant, 'e' + ('-' if X < 0 else '+') + str(abs(X)).rjust(2, '0')

def _g_P(prec):
    return 6 if prec is None else (prec or 1)

def _g_body(mag, prec, alt):
    P = _g_P(prec)
    X = _sig_round(mag, P)[1]
    if -4 <= X < P:
        mant, ex = _f_body(mag, P - 1 - X, alt), ''
    else:
        mant, ex = _e_parts(mag, P - 1, alt)
    if not alt and '.' in mant:
        mant = mant.rstrip('0').rstrip('.')
    return mant + ex

def _a_body(mag, prec, alt):
    """hex-float body after the 0x prefix; normalised 1.hhh (glibc double style);
    values that are subnormal doubles are rendered 0.hhhp-1022 as glibc does."""
    if mag == 0:
        lead, nd, N, e = 0, (prec or 0), 0, 0
    else:
        if mag.denominator & (mag.denominator - 1):
            raise ValueError('a/A needs a dyadic rational')
        e = _floor_log(mag, 2)
        sub = e < -1022 and _scale(mag, 2, 1074).denominator == 1
        if sub:
            e = -1022
        m = _scale(mag, 2, -e)
        nd = prec
        if prec is None:
            nd = 0
            while (m * 16 ** nd).denominator != 1:
                nd += 1
        N = _rhe(m * 16 ** nd)
        if not sub and N >= 2 * 16 ** nd:
            N, e = 16 ** nd, e + 1
        lead = N >> (4 * nd)
    fr = ''.join(_HEXD[(N >> (4 * i)) & 15] for i in reversed(range(nd)))
    return (_HEXD[lead] + ('.' if (nd or alt) else '') + fr
            + 'p' + ('-' if e < 0 else '+') + str(abs(e)))

def _want_sign(neg, flags):
    return '-' if neg else '+' if '+' in flags else ' ' if ' ' in flags else ''


def expected_float(conv, flags, width, prec, value):
    """the correctly rounded C rendering as str (round-half-even on exact ties,
    as glibc), computed with Fraction arithmetic only."""
    kind, neg, mag = _norm(value)
    lc, alt, prefix = conv.lower(), '#' in flags, ''
    if lc not in 'fega' or len(conv) != 1:
        raise ValueError('bad conversion %r' % (conv,))
    sign = _want_sign(neg, flags)
    if kind != 'fin':
        body = kind
    elif lc == 'f':
        body = _f_body(mag, 6 if prec is None else prec, alt)
    elif lc == 'e':
        body = ''.join(_e_parts(mag, 6 if prec is None else prec, alt))
    elif lc == 'g':
        body = _g_body(mag, prec, alt)
    else:
        prefix, body = '0x', _a_body(mag, prec, alt)
    if conv.isupper():
        prefix, body = prefix.upper(), body.upper()
    pad = max(0, width - len(sign) - len(prefix) - len(body))
    if '-' in flags:
        return sign + prefix + body + ' ' * pad
    if '0' in flags and kind == 'fin':
        return sign + prefix + '0' * pad + body
    return ' ' * pad + sign + prefix + body


def frac_of_double_bits(bits):
    """64-bit IEEE pattern -> Fraction or 'inf','-inf','nan','-nan','-0'."""
    neg, e, m = (bits >> 63) & 1, (bits >> 52) & 0x7ff, bits & ((1 << 52) - 1)
    if e == 0x7ff:
        return ('-' if neg else '') + ('nan' if m else 'inf')
    q = _scale(Fraction(m), 2, -1074) if e == 0 else _scale(Fraction((1 << 52) | m), 2, e - 1075)
    if q == 0:
        return '-0' if neg else Fraction(0)
    return -q if neg else q


def frac_of_x87_bits(bits):
    """80-bit x87 extended pattern (sign:1, exp:15, explicit integer bit + 63
    fraction bits) -> same.  exp=0x7fff with integer bit set and zero fraction is
    inf, anything else with exp=0x7fff is nan; other patterns are taken literally
    (pseudo-denormals and unnormals get the value of their bits)."""
    neg, e, m = (bits >> 79) & 1, (bits >> 64) & 0x7fff, bits & ((1 << 64) - 1)
    if e == 0x7fff:
        return ('-' if neg else '') + ('inf' if m == 1 << 63 else 'nan')
    q = _scale(Fraction(m), 2, (e or 1) - 16383 - 63)
    if q == 0:
        return '-0' if neg else Fraction(0)
    return -q if neg else q


_RE_DEC = re.compile(r'^([-+]?)(0*)(\d+)(?:(\.)(\d*))?(?:([eE])([-+]?)(\d+))?$')
_RE_HEX = re.compile(r'^([-+]?)(0[xX])(0*)([0-9a-fA-F]+)(?:(\.)([0-9a-fA-F]*))?'
                     r'(?:([pP])([-+]?)(\d+))?$')
_RE_INF = re.compile(r'^([-+]?)(0*)(inf(?:inity)?|nan(?:\([0-9A-Za-z_]*\))?)$', re.I)


def check_float(conv, flags, width, prec, value, text):
    """judge the text an engine printed for ONE directive (bytes or str); returns a
    list of failure tags, at most one per kind (empty list = acceptable):
      layout:exp-for-f   f/F output carries an exponent
      layout:no-exp      e/E lacks the exponent, or it has no sign / fewer than 2 digits / padded
                         digits / wrong letter case (digits also judged for g/G in e-style)
      layout:precision   f/F/e/E (and a/A with a precision): digits after the point != prec
                         (default 6); g/G: more than P significant digits, trailing zeros kept
                         without '#', or removed with '#'
      layout:g-style     g/G used the wrong style (f-style iff P > X >= -4, X from the exact value
                         rounded to P digits; the engine's own X is also accepted when its digits
                         are within one unit)
      layout:point       point present with no digits after it and no '#', or absent when required
      layout:sign        '-' for negatives (also -0, -inf), else '+' flag, else ' ' flag, else none
      layout:width       shorter than width, padded on the wrong side, or padded beyond width
      layout:zero-pad    '0' flag (no '-') must pad finite values with zeros after the sign/0x;
                         zeros anywhere else (inf/nan, no '0' flag, '-' flag) are wrong
      layout:case        letter case does not match conv
      layout:infnan      inf/nan argument not printed as [sign]inf|infinity|nan|nan(chars)
      layout:garbage     not a number of the expected shape (returned alone)
      value:off          |printed - value| > one unit of the last printed digit (for g/G the unit
                         of the P-th significant digit); also finite value printed as inf/nan
      value:not-nearest  within one unit but not correctly rounded (ties: either neighbour)
      a:wrong            a/A: not exact (no precision) / not within one unit of the last hex digit
                         (precision given) / not [sign]0xh[.hhh]p[+-]d"""
    if isinstance(text, (bytes, bytearray)):
        text = bytes(text).decode('latin-1')
    kind, neg, mag = _norm(value)
    lc, upper, alt = conv.lower(), conv.isupper(), '#' in flags
    tags = []

    def tag(t):
        if t not in tags:
            tags.append(t)

    body = text.lstrip(' ')
    core = body.rstrip(' ')
    L, R = len(text) - len(body), len(body) - len(core)
    if not core:
        return ['layout:garbage']
    m_inf = _RE_INF.match(core)
    m = (_RE_HEX if lc == 'a' else _RE_DEC).match(core)
    if kind == 'fin':
        if m_inf:
            return ['value:off']
        if not m:
            return ['layout:garbage']
    else:
        if not m_inf:
            return ['layout:infnan']
        m = m_inf
    # sign (for nan a '-' is always tolerated, and so is its absence)
    ok_signs = {_want_sign(neg, flags)}
    if kind == 'nan':
        ok_signs = {'-', _want_sign(False, flags)}
    got = m.group(1)
    if not got and L and ' ' in ok_signs:
        got, L = ' ', L - 1
    if got not in ok_signs:
        tag('layout:sign')
    # padding
    Z = len(m.group(3 if (lc == 'a' and kind == 'fin') else 2))
    if '0' in flags and '-' not in flags and kind == 'fin':
        if L or R:
            tag('layout:zero-pad')
    elif Z:
        tag('layout:zero-pad')
    if (L if '-' in flags else R):
        tag('layout:width')
    if len(text) != max(width, len(text) - L - R - Z):
        tag('layout:width')
    if kind != 'fin':
        word = m.group(3).split('(')[0]
        if word.lower()[:3] != kind:
            tag('layout:infnan')
        if word != (word.upper() if upper else word.lower()):
            tag('layout:case')
        return tags
    if lc == 'a':
        _check_hex(m, upper, alt, prec, mag, tag)
    else:
        bad = _check_dec(m, lc, upper, alt, prec, mag, tag)
        if bad:
            return bad
    return tags

def _judge(diff, unit, tag, off='value:off'):
    if diff > unit:
        tag(off)
    elif 2 * diff > unit:
        tag('value:not-nearest')

def _check_hex(m, upper, alt, prec, mag, tag):
    x, ip, pt, fr, pl, ps, pd = (m.group(i) for i in (2, 4, 5, 6, 7, 8, 9))
    fr = fr or ''
    letters = x + ip + fr + (pl or '')
    if letters != (letters.upper() if upper else letters.lower()):
        tag('layout:case')
    if len(ip) != 1 or not pl or not ps:
        tag('a:wrong')
    nd, exp = len(fr), int((ps or '') + pd) if pl else 0
    unit = _scale(Fraction(1, 16 ** nd), 2, exp)
    diff = abs(Fraction(int(ip + fr, 16)) * unit - mag)
    need = alt or nd > 0 if prec is None else alt or prec > 0
    if bool(pt) != bool(need):
        tag('layout:point')
    if prec is None:
        if diff:
            tag('a:wrong')
    else:
        if nd != prec:
            tag('layout:precision')
        _judge(diff, unit, tag, 'a:wrong')

def _check_dec(m, lc, upper, alt, prec, mag, tag):
    ip, pt, fr, el, es, ed = (m.group(i) for i in (3, 4, 5, 6, 7, 8))
    fr = fr or ''
    nd, exp = len(fr), int((es or '') + ed) if el else 0
    printed = _scale(Fraction(int(ip + fr)), 10, exp - nd)
    diff = abs(printed - mag)
    ue = exp - nd                       # decimal exponent of the unit of the last digit
    case_bad = bool(el) and el != ('E' if upper else 'e')
    if case_bad:
        tag('layout:case')
    exp_bad = bool(el) and (not es or len(ed) < 2 or (len(ed) > 2 and ed[0] == '0'))
    if el and lc != 'f':                # e-style mantissa: d.ddd, d nonzero unless value is 0
        if len(ip) != 1:
            return ['layout:garbage']
        if ip == '0' and mag != 0:
            tag('value:off')
    if lc in 'fe':
        p = 6 if prec is None else prec
        if lc == 'f' and el:
            tag('layout:exp-for-f')
        if lc == 'e' and (not el or exp_bad or case_bad):
            tag('layout:no-exp')
        if nd != p:
            tag('layout:precision')
        if bool(pt) != bool(alt or p > 0):
            tag('layout:point')
    else:
        P = _g_P(prec)
        Xe = _sig_round(mag, P)[1]
        Xp = _floor_log(printed, 10) if printed else None
        ue = min(ue, (Xe if Xp is None else Xp) - (P - 1))
        style = 'e' if el else 'f'
        cands = [Xe]
        if Xp is not None and diff <= _scale(Fraction(1), 10, ue):
            cands.append(Xp)            # the engine's own (within-one-unit) rounding
        good = [X for X in cands if ('f' if -4 <= X < P else 'e') == style]
        if not good:
            tag('layout:g-style')
        else:
            allowed = {P - 1} if el else {P - 1 - X for X in good}
            if alt:
                if nd not in allowed:
                    tag('layout:precision')
                if not pt:
                    tag('layout:point')
            else:
                if nd > max(allowed) or fr.endswith('0'):
                    tag('layout:precision')
                if pt and not nd:
                    tag('layout:point')
        if exp_bad:
            tag('layout:no-exp')
    _judge(diff, _scale(Fraction(1), 10, ue), tag)
    return None

def _selftest():
    import random
    import struct
    import time
    t0 = time.time()
    rnd = random.Random(20260929)
    inf, nan = float('inf'), float('nan')

    def val_of(v):
        return frac_of_double_bits(struct.unpack('<Q', struct.pack('<d', v))[0])

    fixed = [0.0, -0.0, 5e-324, -5e-324, 2.2250738585072014e-308, 2.225073858507201e-308,
             1e9 - 1, 1e9, 1e9 + 1, 999999999.9999, 1e10, 1e300, 1.7976931348623157e308,
             0.5, 1.5, 2.5, 3.5, 0.125, 0.375, 1e-5, 9.9999995e-5, 9.9999994e-5, 0.0001,
             123456789.0, inf, -inf, nan, 999999.5, 999999.4, 99999.95, 0.00001234565,
             9.5, 9.95, 0.95, 0.05, 1e15, 1e16, 1e17, 1e21, 1e22, 1e23, 123456.5, 1234565.0,
             0.1, 0.2, 0.3, 1.0 / 3, 2.0 / 3, 1e-4, 1e-7, 4.35, 0.045, 8.5e-5, 2.675]
    fixed += [10.0 ** k for k in range(-30, 31)] + [-(10.0 ** k) for k in range(-6, 8)]
    fixed += [float(10 ** k - 1) for k in range(1, 16)] + [10.0 ** k - 0.5 for k in range(1, 8)]

    def rand_value():
        r = rnd.random()
        if r < 0.35:
            return rnd.choice(fixed)
        if r < 0.50:                    # exact binary ties k / 2**j
            return rnd.choice((1, -1)) * rnd.randrange(1, 4000) / 2.0 ** rnd.randrange(1, 12)
        if r < 0.65:                    # short decimals
            return rnd.choice((1, -1)) * rnd.randrange(1, 10 ** rnd.randrange(1, 9)) \
                * 10.0 ** rnd.randrange(-12, 13)
        if r < 0.80:
            return rnd.uniform(-1, 1) * 10.0 ** rnd.randrange(-8, 12)
        while True:                     # arbitrary bit patterns (finite)
            v = struct.unpack('<d', struct.pack('<Q', rnd.getrandbits(64)))[0]
            if v == v and abs(v) != inf:
                return v

    def rand_spec():
        flags = ''.join(c for c in '-+ #0' if rnd.random() < 0.3)
        width = rnd.choice((0, 0, rnd.randrange(1, 14), rnd.randrange(14, 40)))
        prec = rnd.choice((None, None, 0, 1, 2, rnd.randrange(0, 9), rnd.randrange(0, 20),
                           rnd.randrange(0, 45)))
        return flags, width, prec

    n = 0
    for i in range(24000):
        v = fixed[i] if i < len(fixed) else rand_value()
        flags, width, prec = rand_spec()
        conv = rnd.choice('fFeEgG')
        val = val_of(v)
        got = expected_float(conv, flags, width, prec, val)
        pyflags = flags if isinstance(val, Fraction) or val == '-0' else flags.replace('0', '')
        spec = '%' + pyflags + (str(width) if width else '') \
            + ('' if prec is None else '.' + str(prec)) + conv
        ref = spec % v                  # C pads inf/nan with spaces; Python would use zeros
        assert got == ref, (spec, v, got, ref)
        tags = check_float(conv, flags, width, prec, val, got if i & 1 else got.encode('ascii'))
        assert tags == [], (spec, v, got, tags)
        n += 1
    # a/A against float.hex (13 hex digits always; C without precision prints the minimal exact form)
    na = 0
    for i in range(6000):
        v = fixed[i] if i < len(fixed) else rand_value()
        val = val_of(v)
        if isinstance(val, Fraction) or val == '-0':
            h = v.hex()
            if v != 0:                  # float.hex(0.0) is the short '0x0.0p+0'
                assert expected_float('a', '', 0, 13, val) == h, (v, h)
                assert expected_float('A', '', 0, 13, val) == h.upper(), (v, h)
            mant, ex = h.split('p')
            mant = mant.rstrip('0').rstrip('.') if '.' in mant else mant
            assert expected_float('a', '', 0, None, val) == mant + 'p' + ex, (v, h)
            assert check_float('a', '', 0, None, val, h) == [], (v, h)
        flags, width, prec = rand_spec()
        prec = None if prec is None else prec % 18
        conv = rnd.choice('aA')
        got = expected_float(conv, flags, width, prec, val)
        tags = check_float(conv, flags, width, prec, val, got)
        assert tags == [], (conv, flags, width, prec, v, got, tags)
        assert len(got) >= width
        na += 1
    # bit-pattern decoders
    for bits, want in ((0x3ff0000000000000, 1), (0x8000000000000000, '-0'), (0, Fraction(0)),
                       (1, Fraction(1, 2 ** 1074)), (0xfff0000000000000, '-inf'),
                       (0x7ff8000000000000, 'nan'), (0xfff8000000000000, '-nan')):
        assert frac_of_double_bits(bits) == want, hex(bits)
    for bits, want in ((0x3fff8000000000000000, 1), (0xbfffc000000000000000, Fraction(-3, 2)),
                       (0x7fff8000000000000000, 'inf'), (0xffff8000000000000000, '-inf'),
                       (0x7fffc000000000000000, 'nan'), (0x80000000000000000000, '-0'),
                       (1, Fraction(1, 2 ** 16445)), (0x00018000000000000000, Fraction(1, 2 ** 16382)),
                       (0x4000c90fdaa22168c235, Fraction(0xc90fdaa22168c235, 2 ** 62))):
        assert frac_of_x87_bits(bits) == want, hex(bits)
    for args, want in ((('a', '', 0, None, Fraction(1)), '0x1p+0'),
                       (('a', '', 0, 0, Fraction(3, 2)), '0x1p+1'),      # tie -> even, renormalised
                       (('a', '', 0, 1, Fraction(0x1f8, 256)), '0x1.0p+1'),
                       (('A', '#', 0, None, Fraction(-1, 2)), '-0X1.P-1'),
                       (('f', '', 0, 0, Fraction(5, 2)), '2'), (('e', '+', 0, 2, '-0'), '-0.00e+00'),
                       (('G', '0', 8, None, '-inf'), '    -INF')):
        assert expected_float(*args) == want, (args, expected_float(*args))
    # deliberately wrong (or right) texts: (args, must contain, must not contain)
    F = Fraction
    cases = [
        (('f', '', 0, None, F(10 ** 10), '1.000000e+10'), ['layout:exp-for-f'], ['value:off']),
        (('f', '', 0, 2, F(1, 4), '0.27'), ['value:off'], []),
        (('f', '', 0, 2, F(1, 4), '0.26'), ['value:not-nearest'], ['value:off']),
        (('f', '', 0, 2, F(1, 8), '0.13'), [], ['value:off', 'value:not-nearest']),
        (('e', '', 0, None, F(1), '1.000000e+0'), ['layout:no-exp'], ['value:off']),
        (('e', '', 0, None, F(1), '1.000000E+00'), ['layout:no-exp', 'layout:case'], []),
        (('e', '', 0, 2, F(5), '0.50e+01'), ['value:off'], []),
        (('e', '', 0, 2, F(10), '10.00e+00'), ['layout:garbage'], []),
        (('g', '', 0, None, F(100000), '1e+05'), ['layout:g-style'], []),
        (('g', '', 0, None, F(9999997, 10), '1000000'), ['layout:g-style'], []),
        (('g', '', 0, None, F(9999997, 10), '999999'), ['value:not-nearest'],
         ['layout:g-style', 'value:off']),
        (('g', '', 0, None, F(1, 2), '0.500000'), ['layout:precision'], []),
        (('g', '#', 0, None, F(1, 2), '0.5'), ['layout:precision'], []),
        (('g', '', 0, 3, F(12345), '1.2345e+04'), ['layout:precision'], []),
        (('g', '', 0, None, F(3, 2), '1'), ['value:off'], []),
        (('g', '', 0, None, F(2), '2.'), ['layout:point'], []),
        (('f', '0', 8, 1, F(-3, 2), '    -1.5'), ['layout:zero-pad'], ['layout:width']),
        (('f', '', 8, 1, F(-3, 2), '-00001.5'), ['layout:zero-pad'], []),
        (('f', '0', 8, None, 'inf', '00000inf'), ['layout:zero-pad'], []),
        (('f', '-', 6, 0, F(2), '     2'), ['layout:width'], []),
        (('f', '', 6, 0, F(2), '2'), ['layout:width'], []),
        (('f', '', 0, 0, F(2), '  2'), ['layout:width'], []),
        (('f', '#', 0, 0, F(2), '2'), ['layout:point'], []),
        (('f', '', 0, 3, F(2), '2.00'), ['layout:precision'], []),
        (('f', '', 0, 1, F(-2), '2.0'), ['layout:sign'], ['value:off']),
        (('f', '+', 0, 1, F(2), '2.0'), ['layout:sign'], []),
        (('f', '', 0, 1, '-0', '0.0'), ['layout:sign'], []),
        (('F', '', 0, None, 'inf', 'inf'), ['layout:case'], []),
        (('f', '', 0, None, 'nan', '-nan'), [], ['layout:sign', 'layout:infnan']),
        (('f', '', 0, None, '-inf', '-1.#INF00'), ['layout:infnan'], []),
        (('f', '', 0, None, F(1), 'hello'), ['layout:garbage'], []),
        (('a', '', 0, None, F(1), '0x8p-3'), [], ['a:wrong']),
        (('a', '', 0, None, F(1), '0x1.8p+0'), ['a:wrong'], []),
        (('a', '', 0, None, F(1), '1p+0'), ['layout:garbage'], []),
        (('a', '', 0, 1, F(0x11, 16), '0x1.2p+0'), ['value:not-nearest'], ['a:wrong']),
        (('a', '', 0, 1, F(0x11, 16), '0x1.3p+0'), ['a:wrong'], []),
        (('a', '', 0, 2, F(1), '0x1.0p+0'), ['layout:precision'], []),
        (('A', '', 0, None, F(10), '0x1.4p+3'), ['layout:case'], ['a:wrong']),
        (('a', '0', 10, None, F(1), '0x00001p+0'), [], ['layout:zero-pad', 'layout:width']),
    ]
    for args, must, mustnot in cases:
        tags = check_float(*args)
        assert len(tags) == len(set(tags))
        for t in must:
            assert t in tags, (args, tags, 'missing', t)
        for t in mustnot:
            assert t not in tags, (args, tags, 'unexpected', t)
        if 'layout:garbage' in must:
            assert tags == ['layout:garbage'], (args, tags)
    print('fmt_float_oracle selftest: %d f/e/g combos equal to Python %%-formatting and accepted, '
          '%d a/A combos (float.hex cross-check), %d wrong-text cases, bit decoders ok; %.1f s'
          % (n, na, len(cases), time.time() - t0))


if __name__ == '__main__':
    _selftest()

/* C13 auxiliary (NOT part of ./check C13): replay of lean/SafeC/Props/C13Micro.lean `micro_returns_prev_witness` on the C.
   build: gcc -O1 -I/repo/include -I/repo -o hreg_race harness/hreg_race.c <libsafec.a of the current tree> -lpthread
   two threads register distinct handler values process-wide; with an atomic exchange every registered value
   except the last one is returned exactly once as "previous". Count values returned twice / never. */
#include <stdio.h>
#include <stdlib.h>
#include <stdint.h>
#include <pthread.h>
#include "safe_str_lib.h"
#define N 2000000
static uintptr_t *ret[2];
static pthread_barrier_t bar;
static void *worker(void *arg) {
    long t = (long)arg;
    pthread_barrier_wait(&bar);
    for (long i = 0; i < N; i++) {
        uintptr_t v = 16 + ((uintptr_t)(2 * i + t) << 4);       /* never invoked */
        ret[t][i] = (uintptr_t)set_str_constraint_handler_s((constraint_handler_t)v);
    }
    return NULL;
}
int main(void) {
    pthread_t th[2];
    ret[0] = calloc(N, sizeof(uintptr_t)); ret[1] = calloc(N, sizeof(uintptr_t));
    pthread_barrier_init(&bar, NULL, 2);
    for (long t = 0; t < 2; t++) pthread_create(&th[t], NULL, worker, (void *)t);
    for (int t = 0; t < 2; t++) pthread_join(th[t], NULL);
    unsigned char *seen = calloc(2 * N + 1, 1);
    long dup = 0, nulls = 0;
    for (int t = 0; t < 2; t++) for (long i = 0; i < N; i++) {
        uintptr_t r = ret[t][i];
        if (r == 0) { nulls++; continue; }
        uintptr_t idx = (r - 16) >> 4;
        if (seen[idx]++) dup++;
    }
    long never = 0;
    for (long k = 0; k < 2 * N; k++) if (!seen[k]) never++;
    printf("registrations=%d returned-NULL=%ld returned-twice=%ld never-returned=%ld (atomic exchange: 1, 0, 1)\n", 2 * N, nulls, dup, never);
    return 0;
}

/* hprintf.c - C11: what do the eight engine-based printf_s entry points produce, and what does C's printf produce
 * for the same format and the same arguments?
 *
 * stdin : id=<n> fn=<entry point> dmax=<D> fmt=<hex bytes> args=<a,a,...|->
 *           fn   : sprintf_s snprintf_s vsprintf_s vsnprintf_s   (dest of exactly dmax bytes, flush against a PROT_NONE page)
 *                  fprintf_s vfprintf_s                          (stream on a memfd)
 *                  printf_s vprintf_s                            (fd 1 redirected to a memfd for the duration of the call)
 *           args : typed variadic arguments, in order
 *                  i:<dec>   int / unsigned int / char / wint_t slot (the low 32 bits are what the callee may look at)
 *                  l:<dec>   long, long long, size_t, intmax_t, ptrdiff_t and their unsigned twins (64-bit slot; <dec> signed or unsigned)
 *                  s:<hex>   char * to a NUL-terminated copy of the bytes (s:- empty string, s:null a null pointer)
 *                  w:<hex>   wchar_t * (8 hex digits per element; w:- empty, w:null)
 *                  S:<hex> / W:<hex>   the same bytes / elements WITHOUT a terminator, the last one flush against a PROT_NONE page
 *                            (an array that exactly fills its object: only a precision bounds what may be read; one per call;
 *                            a fault there is reported as fo=arg)
 *                  d:<hex16> double given by its IEEE bit pattern
 *                  D:<hex20> long double given by its x87 80-bit pattern
 *                  p:<hex>   void *
 * stdout: id=<n> ret=<r> hn=<handler calls> hc=<last handler code> sig=<0|signal> fo=<fault offset rel. dest or -> under=<0|1>
 *              out=<hex of the characters produced>   buffer variants: dest[0..strlen) when ret >= 0, stream variants: the bytes captured
 *              cells=<hex of all dmax bytes of dest after the call>          (buffer variants only)
 *              ref=<hex of what glibc vsnprintf produced> refret=<its return value>
 * The arguments reach the callee through one generic call (gcall): six general-purpose words, eight doubles and a by-value
 * block that the x86-64 SysV ABI places exactly where a variadic callee's overflow area begins - so every typed argument list
 * is passed the way a C caller would pass it, to the real variadic entry points (_sprintf_s_chk, _snprintf_s_chk, fprintf_s,
 * printf_s) as well as to the va_list ones (through local variadic trampolines).
 */
#define _GNU_SOURCE
#include <errno.h>
#include <fcntl.h>
#include <locale.h>
#include <setjmp.h>
#include <signal.h>
#include <stdarg.h>
#include <stdint.h>
#include <stdio.h>
#include <stdlib.h>
#include <string.h>
#include <sys/mman.h>
#include <unistd.h>
#include <wchar.h>

#include "safe_lib.h"
#include "safe_str_lib.h"

#define PAGE 4096
#define ARENA_PAGES 4          /* dmax <= 3 pages; one page of canary in front */
#define MAXARGS 16
#define REFSZ (1 << 16)
#define STK 320

typedef struct { unsigned char b[STK]; } __attribute__((aligned(16))) Stk;
typedef int (*vfn)(long, ...);
typedef struct { int kind; long g; double d; unsigned char ld[16]; } Arg;   /* kind: 0 gp, 1 double, 2 long double */

static int hcount, hcode;
static void on_constraint(const char *msg, void *p, errno_t e) { (void)msg; (void)p; hcount++; hcode = (int)e; }

static sigjmp_buf jb;
static volatile int in_call;
static volatile uintptr_t fault_addr;
static void on_segv(int sig, siginfo_t *si, void *uc) {
    (void)uc;
    if (!in_call) _exit(99);
    fault_addr = (uintptr_t)si->si_addr;
    siglongjmp(jb, sig);
}

static int gcall(void *f, int nfixed, const long *fixed, const Arg *a, int n) {
    long g[6] = {0, 0, 0, 0, 0, 0};
    double x[8] = {0, 0, 0, 0, 0, 0, 0, 0};
    Stk s;
    int ng = 0, nx = 0;
    size_t so = 0;
    memset(&s, 0, sizeof s);
    for (int i = 0; i < nfixed; i++) g[ng++] = fixed[i];
    for (int i = 0; i < n; i++) {
        if (a[i].kind == 0) {
            if (ng < 6) g[ng++] = a[i].g;
            else { memcpy(s.b + so, &a[i].g, 8); so += 8; }
        } else if (a[i].kind == 1) {
            if (nx < 8) x[nx++] = a[i].d;
            else { memcpy(s.b + so, &a[i].d, 8); so += 8; }
        } else {
            so = (so + 15) & ~(size_t)15;
            memcpy(s.b + so, a[i].ld, 16); so += 16;
        }
        if (so + 16 > STK) break;
    }
    return ((vfn)f)(g[0], g[1], g[2], g[3], g[4], g[5], x[0], x[1], x[2], x[3], x[4], x[5], x[6], x[7], s);
}

/* variadic trampolines for the va_list entry points and the reference */
static int t_vsnprintf_s(char *dest, rsize_t dmax, size_t bos, const char *fmt, ...) {
    va_list ap; va_start(ap, fmt); int r = _vsnprintf_s_chk(dest, dmax, bos, fmt, ap); va_end(ap); return r;
}
static int t_vsprintf_s(char *dest, rsize_t dmax, size_t bos, const char *fmt, ...) {
    va_list ap; va_start(ap, fmt); int r = _vsprintf_s_chk(dest, dmax, bos, fmt, ap); va_end(ap); return r;
}
static int t_vfprintf_s(FILE *f, const char *fmt, ...) {
    va_list ap; va_start(ap, fmt); int r = vfprintf_s(f, fmt, ap); va_end(ap); return r;
}
static int t_vprintf_s(const char *fmt, ...) {
    va_list ap; va_start(ap, fmt); int r = vprintf_s(fmt, ap); va_end(ap); return r;
}
static int t_ref(char *buf, size_t n, const char *fmt, ...) {
    va_list ap; va_start(ap, fmt); int r = vsnprintf(buf, n, fmt, ap); va_end(ap); return r;
}

static int hexv(int c) { return c >= '0' && c <= '9' ? c - '0' : c >= 'a' && c <= 'f' ? c - 'a' + 10 : c >= 'A' && c <= 'F' ? c - 'A' + 10 : -1; }
static long unhex(const char *h, unsigned char *out, size_t cap) {
    size_t n = 0;
    if (!strcmp(h, "-")) { out[0] = 0; return 0; }
    for (; h[0] && h[1]; h += 2) {
        int a = hexv(h[0]), b = hexv(h[1]);
        if (a < 0 || b < 0 || n + 1 >= cap) return -1;
        out[n++] = (unsigned char)(a * 16 + b);
    }
    if (h[0]) return -1;
    out[n] = 0;
    return (long)n;
}
static void puthex(FILE *o, const char *k, const unsigned char *p, size_t n) {
    fprintf(o, " %s=", k);
    if (!n) fputc('-', o);
    for (size_t i = 0; i < n; i++) fprintf(o, "%02x", p[i]);
}

static unsigned char *arena;      /* ARENA_PAGES writable pages followed by one PROT_NONE page */
static char pool[1 << 17];        /* storage of string / wide string arguments */
static size_t pool_used;
static unsigned char *argarena;   /* 2 writable pages followed by one PROT_NONE page: the flush (S:/W:) argument */
static void *palloc(size_t n) { pool_used = (pool_used + 15) & ~(size_t)15; void *p = pool + pool_used; pool_used += n; return pool_used <= sizeof pool ? p : NULL; }

static int parse_args(char *spec, Arg *a) {
    int n = 0;
    char *save = NULL;
    if (!spec || !strcmp(spec, "-")) return 0;
    for (char *t = strtok_r(spec, ",", &save); t && n < MAXARGS; t = strtok_r(NULL, ",", &save)) {
        memset(&a[n], 0, sizeof a[n]);
        if (t[1] != ':') return -1;
        const char *v = t + 2;
        switch (t[0]) {
        case 'i': case 'l':
            a[n].kind = 0;
            a[n].g = v[0] == '-' ? (long)strtoll(v, NULL, 10) : (long)strtoull(v, NULL, 10);
            if (t[0] == 'i') a[n].g = (long)(int)a[n].g;     /* an int argument: sign-extended in its slot, as gcc passes it */
            break;
        case 'p': a[n].kind = 0; a[n].g = (long)strtoull(v, NULL, 16); break;
        case 's':
            a[n].kind = 0;
            if (!strcmp(v, "null")) a[n].g = 0;
            else {
                size_t cap = strlen(v) / 2 + 2;
                unsigned char *p = palloc(cap);
                if (!p || unhex(v, p, cap) < 0) return -1;
                a[n].g = (long)p;
            }
            break;
        case 'w':
            a[n].kind = 0;
            if (!strcmp(v, "null")) a[n].g = 0;
            else {
                size_t cnt = !strcmp(v, "-") ? 0 : strlen(v) / 8;
                wchar_t *p = palloc((cnt + 1) * sizeof(wchar_t));
                if (!p) return -1;
                for (size_t i = 0; i < cnt; i++) { char tmp[9]; memcpy(tmp, v + 8 * i, 8); tmp[8] = 0; p[i] = (wchar_t)strtoul(tmp, NULL, 16); }
                p[cnt] = 0;
                a[n].g = (long)p;
            }
            break;
        case 'S': {
            size_t cnt = !strcmp(v, "-") ? 0 : strlen(v) / 2;
            unsigned char *p = argarena + 2 * PAGE - cnt;
            if (cnt > PAGE) return -1;
            for (size_t i = 0; i < cnt; i++) p[i] = (unsigned char)(hexv(v[2 * i]) * 16 + hexv(v[2 * i + 1]));
            a[n].kind = 0; a[n].g = (long)p;
            break;
        }
        case 'W': {
            size_t cnt = !strcmp(v, "-") ? 0 : strlen(v) / 8;
            if (cnt * sizeof(wchar_t) > PAGE) return -1;
            wchar_t *p = (wchar_t *)(argarena + 2 * PAGE) - cnt;
            for (size_t i = 0; i < cnt; i++) { char tmp[9]; memcpy(tmp, v + 8 * i, 8); tmp[8] = 0; p[i] = (wchar_t)strtoul(tmp, NULL, 16); }
            a[n].kind = 0; a[n].g = (long)p;
            break;
        }
        case 'd': { uint64_t b = strtoull(v, NULL, 16); a[n].kind = 1; memcpy(&a[n].d, &b, 8); break; }
        case 'D': {
            if (strlen(v) != 20) return -1;
            a[n].kind = 2;
            for (int i = 0; i < 10; i++) a[n].ld[9 - i] = (unsigned char)(hexv(v[2 * i]) * 16 + hexv(v[2 * i + 1]));
            break;
        }
        default: return -1;
        }
        n++;
    }
    return n;
}

int main(int argc, char **argv) {
    static char line[1 << 17];
    static unsigned char fmt[8192];
    static char ref[REFSZ];
    static unsigned char cap[REFSZ];
    FILE *ops = fdopen(dup(0), "r");
    FILE *res = fdopen(dup(1), "w");
    int capfd = memfd_create("c11cap", 0), devnull = open("/dev/null", O_WRONLY);
    if (argc > 1) setlocale(LC_ALL, argv[1]);
    arena = mmap(NULL, (ARENA_PAGES + 1) * PAGE, PROT_READ | PROT_WRITE, MAP_PRIVATE | MAP_ANONYMOUS, -1, 0);
    argarena = mmap(NULL, 3 * PAGE, PROT_READ | PROT_WRITE, MAP_PRIVATE | MAP_ANONYMOUS, -1, 0);
    if (argarena == MAP_FAILED || mprotect(argarena + 2 * PAGE, PAGE, PROT_NONE)) { fprintf(stderr, "hprintf: setup failed\n"); return 2; }
    if (!ops || !res || capfd < 0 || devnull < 0 || arena == MAP_FAILED || mprotect(arena + ARENA_PAGES * PAGE, PAGE, PROT_NONE)) {
        fprintf(stderr, "hprintf: setup failed\n"); return 2;
    }
    dup2(devnull, 1);
    set_str_constraint_handler_s(on_constraint);
    struct sigaction sa; memset(&sa, 0, sizeof sa); sa.sa_sigaction = on_segv; sa.sa_flags = SA_SIGINFO | SA_NODEFER;
    sigaction(SIGSEGV, &sa, NULL); sigaction(SIGBUS, &sa, NULL);
    while (fgets(line, sizeof line, ops)) {
        char *id = NULL, *fn = NULL, *hf = NULL, *as = NULL, *dm = NULL, *save = NULL;
        int noref = 0;              /* noref=1: do not ask glibc (fields of 2^31 characters take it seconds) */
        int dirt = 0;               /* dirt=1: dest holds an old short string followed by garbage instead of uniform 0xAA */
        size_t L = strlen(line);
        while (L && (line[L - 1] == '\n' || line[L - 1] == '\r')) line[--L] = 0;
        for (char *tok = strtok_r(line, " ", &save); tok; tok = strtok_r(NULL, " ", &save)) {
            if (!strncmp(tok, "id=", 3)) id = tok + 3;
            else if (!strncmp(tok, "fn=", 3)) fn = tok + 3;
            else if (!strncmp(tok, "fmt=", 4)) hf = tok + 4;
            else if (!strncmp(tok, "args=", 5)) as = tok + 5;
            else if (!strncmp(tok, "dmax=", 5)) dm = tok + 5;
            else if (!strcmp(tok, "noref=1")) noref = 1;
            else if (!strcmp(tok, "dirt=1")) dirt = 1;
        }
        if (!id || !fn || !hf) continue;
        Arg a[MAXARGS];
        pool_used = 0;
        long nf = unhex(hf, fmt, sizeof fmt);
        int na = parse_args(as, a);
        size_t dmax = dm ? (size_t)strtoul(dm, NULL, 10) : 0;
        if (nf < 0 || na < 0 || dmax > (ARENA_PAGES - 1) * PAGE) { fprintf(res, "id=%s err=badop\n", id); fflush(res); continue; }
        int isbuf = !strcmp(fn, "sprintf_s") || !strcmp(fn, "snprintf_s") || !strcmp(fn, "vsprintf_s") || !strcmp(fn, "vsnprintf_s");
        int isfile = !strcmp(fn, "fprintf_s") || !strcmp(fn, "vfprintf_s");
        int isout = !strcmp(fn, "printf_s") || !strcmp(fn, "vprintf_s");
        if (!isbuf && !isfile && !isout) { fprintf(res, "id=%s err=nofn\n", id); fflush(res); continue; }
        /* the reference first: plain glibc on the same arguments */
        long fx[4];
        fx[0] = (long)ref; fx[1] = REFSZ; fx[2] = (long)fmt;
        errno = 0;
        int refret = -2;            /* -2: glibc itself faulted on this format (e.g. %n through an integer argument) */
        in_call = 1;
        if (noref) refret = -3;
        else if (sigsetjmp(jb, 1) == 0) refret = gcall((void *)t_ref, 3, fx, a, na);
        in_call = 0;
        size_t reflen = refret < 0 ? 0 : (size_t)refret < REFSZ ? (size_t)refret : REFSZ - 1;
        /* the call */
        unsigned char *dest = arena + ARENA_PAGES * PAGE - dmax;
        unsigned char *lo = arena;                     /* everything in front of dest is canary */
        memset(arena, 0xC7, ARENA_PAGES * PAGE);
        memset(dest, 0xAA, dmax);
        if (dirt) { for (size_t i = 0; i < dmax; i++) dest[i] = (char)(i == 1 ? 0 : 0x41 + (i % 53)); }
        FILE *stream = NULL;
        if (isfile || isout) { if (ftruncate(capfd, 0)) {} lseek(capfd, 0, SEEK_SET); }
        if (isfile) stream = fdopen(dup(capfd), "w");
        if (isout) { fflush(stdout); dup2(capfd, 1); }
        hcount = 0; hcode = 0; fault_addr = 0;
        int ret = -9999, sig;
        errno = 0;
        in_call = 1;
        if ((sig = sigsetjmp(jb, 1)) == 0) {
            if (!strcmp(fn, "sprintf_s")) { fx[0] = (long)dest; fx[1] = (long)dmax; fx[2] = (long)BOS_UNKNOWN; fx[3] = (long)fmt; ret = gcall((void *)_sprintf_s_chk, 4, fx, a, na); }
            else if (!strcmp(fn, "snprintf_s")) { fx[0] = (long)dest; fx[1] = (long)dmax; fx[2] = (long)BOS_UNKNOWN; fx[3] = (long)fmt; ret = gcall((void *)_snprintf_s_chk, 4, fx, a, na); }
            else if (!strcmp(fn, "vsprintf_s")) { fx[0] = (long)dest; fx[1] = (long)dmax; fx[2] = (long)BOS_UNKNOWN; fx[3] = (long)fmt; ret = gcall((void *)t_vsprintf_s, 4, fx, a, na); }
            else if (!strcmp(fn, "vsnprintf_s")) { fx[0] = (long)dest; fx[1] = (long)dmax; fx[2] = (long)BOS_UNKNOWN; fx[3] = (long)fmt; ret = gcall((void *)t_vsnprintf_s, 4, fx, a, na); }
            else if (!strcmp(fn, "fprintf_s")) { fx[0] = (long)stream; fx[1] = (long)fmt; ret = gcall((void *)fprintf_s, 2, fx, a, na); }
            else if (!strcmp(fn, "vfprintf_s")) { fx[0] = (long)stream; fx[1] = (long)fmt; ret = gcall((void *)t_vfprintf_s, 2, fx, a, na); }
            else if (!strcmp(fn, "printf_s")) { fx[0] = (long)fmt; ret = gcall((void *)printf_s, 1, fx, a, na); }
            else { fx[0] = (long)fmt; ret = gcall((void *)t_vprintf_s, 1, fx, a, na); }
        }
        in_call = 0;
        if (isout) { fflush(stdout); dup2(devnull, 1); }
        if (stream) fclose(stream);
        int under = 0;
        for (unsigned char *p = lo; p < dest; p++) if (*p != 0xC7) { under = 1; break; }
        fprintf(res, "id=%s ret=%d hn=%d hc=%d sig=%d", id, ret, hcount, hcode, sig);
        if (sig && fault_addr >= (uintptr_t)arena && fault_addr < (uintptr_t)arena + (ARENA_PAGES + 1) * PAGE) fprintf(res, " fo=%ld", (long)(fault_addr - (uintptr_t)dest));
        else if (sig && fault_addr >= (uintptr_t)argarena && fault_addr < (uintptr_t)argarena + 3 * PAGE) fprintf(res, " fo=arg");
        else fprintf(res, " fo=%s", sig ? "far" : "-");
        fprintf(res, " under=%d", under);
        if (isbuf) {
            size_t n = 0;
            if (!sig && ret >= 0) while (n < dmax && dest[n]) n++;
            puthex(res, "out", dest, n);
            puthex(res, "cells", dest, dmax);
        } else {
            ssize_t n = pread(capfd, cap, sizeof cap, 0);
            puthex(res, "out", cap, n < 0 ? 0 : (size_t)n);
        }
        puthex(res, "ref", (unsigned char *)ref, reflen);
        fprintf(res, " refret=%d\n", refret);
        fflush(res);
    }
    return 0;
}

/* hstat.c - C12: "for every single call, the library's own static storage is bit-identical before and after".
 *
 * Linked against libsafec_v.so built from the current tree (-z now, so lazy binding does not dirty the
 * GOT).  Finds the library's writable PT_LOAD segments with dl_iterate_phdr, snapshots them around
 * each call of a table of representative calls (every family, and every path known to use scratch
 * storage), and prints the changed byte ranges as offsets from the library's load address; the
 * orchestrator maps them to symbols with `nm -S`.
 * Second mode (`hstat stress <threads> <iters>`): N threads run qsort_s / asctime_s / ctime_s /
 * sprintf_s("%Lf") / swprintf_s on thread-private data and compare with the single-threaded
 * expectation computed beforehand.
 */
#define _GNU_SOURCE
#include <link.h>
#include <locale.h>
#include <pthread.h>
#include <stdio.h>
#include <stdlib.h>
#include <string.h>
#include <time.h>
#include <wchar.h>
#include <unistd.h>
#include "safe_lib.h"
#include "safe_str_lib.h"
#include "safe_mem_lib.h"

typedef struct { uintptr_t lo, hi; unsigned char *snap; } Seg;
static Seg segs[8];
static int nsegs;
static uintptr_t libbase;

static int cb(struct dl_phdr_info *info, size_t size, void *data) {
    (void)size; (void)data;
    if (!info->dlpi_name || !strstr(info->dlpi_name, "libsafec_v")) return 0;
    libbase = info->dlpi_addr;
    for (int i = 0; i < info->dlpi_phnum; i++) {
        const ElfW(Phdr) *ph = &info->dlpi_phdr[i];
        if (ph->p_type == PT_LOAD && (ph->p_flags & PF_W) && nsegs < 8) {
            segs[nsegs].lo = info->dlpi_addr + ph->p_vaddr;
            segs[nsegs].hi = segs[nsegs].lo + ph->p_memsz;
            segs[nsegs].snap = malloc(ph->p_memsz);
            nsegs++;
        }
    }
    return 0;
}
static void snap(void) { for (int i = 0; i < nsegs; i++) memcpy(segs[i].snap, (void *)segs[i].lo, segs[i].hi - segs[i].lo); }
static void diff(const char *name) {
    printf("call=%s changed=", name);
    int first = 1;
    for (int i = 0; i < nsegs; i++) {
        size_t n = segs[i].hi - segs[i].lo;
        unsigned char *cur = (unsigned char *)segs[i].lo;
        for (size_t k = 0; k < n;) {
            if (cur[k] != segs[i].snap[k]) {
                size_t j = k;
                while (j < n && cur[j] != segs[i].snap[j]) j++;
                printf("%s%lx:%zu", first ? "" : ",", (unsigned long)(segs[i].lo + k - libbase), j - k);
                first = 0;
                k = j;
            } else k++;
        }
    }
    printf("\n");
}

static int cmp_int(const void *a, const void *b, void *ctx) { (void)ctx; int x = *(const int *)a, y = *(const int *)b; return (x > y) - (x < y); }
static void hnd(const char *m, void *p, errno_t e) { (void)m; (void)p; (void)e; }

#define CALL(name, stmt) do { snap(); stmt; diff(name); } while (0)

static void run_calls(void) {
    char d[600], s[64] = "hello world";
    wchar_t wd[600], ws[64] = L"hello world";
    int arr[64];
    int ind; size_t sz; rsize_t cnt; char *pp; errno_t err;
    struct tm tmv; time_t t = 86400 * 365;
    for (int i = 0; i < 64; i++) arr[i] = (i * 37) % 64;
    memset(&tmv, 0, sizeof tmv); tmv.tm_mday = 1; tmv.tm_year = 100;
    set_str_constraint_handler_s(hnd); set_mem_constraint_handler_s(hnd);

    CALL("strcpy_s", strcpy_s(d, 64, s));
    CALL("strcpy_s:nospc", strcpy_s(d, 4, s));
    CALL("strncpy_s", strncpy_s(d, 64, s, 5));
    CALL("strcat_s", (d[0] = 'a', d[1] = 0, strcat_s(d, 64, s)));
    CALL("strncat_s", (d[0] = 'a', d[1] = 0, strncat_s(d, 64, s, 3)));
    CALL("stpcpy_s", stpcpy_s(d, 64, s, &err));
    CALL("strnlen_s", strnlen_s(s, 64));
    CALL("strtok_s", (strcpy(d, "a,b,c"), sz = 6, strtok_s(d, &sz, ",", &pp)));
    CALL("strcmp_s", strcmp_s(s, 64, "hellp", &ind));
    CALL("strstr_s", strstr_s(s, 64, "wor", 3, &pp));
    CALL("strspn_s", strspn_s(s, 64, "hel", 3, &cnt));
    CALL("strtolowercase_s", (strcpy(d, "ABC"), strtolowercase_s(d, 64)));
    CALL("strremovews_s", (strcpy(d, "  a b  "), strremovews_s(d, 64)));
    CALL("strerror_s", strerror_s(d, 64, ESNOSPC));
    CALL("memcpy_s", memcpy_s(d, 64, s, 12));
    CALL("memmove_s", memmove_s(d + 1, 63, d, 12));
    CALL("memset_s", memset_s(d, 64, 'x', 20));
    CALL("memzero_s", memzero_s(d, 64));
    CALL("memcmp_s", memcmp_s(d, 64, s, 12, &ind));
    CALL("memccpy_s", memccpy_s(d, 64, s, 'w', 12));
    CALL("timingsafe_memcmp", timingsafe_memcmp(d, s, 12));
    CALL("wcscpy_s", wcscpy_s(wd, 64, ws));
    CALL("wcsncat_s", (wd[0] = 0, wcsncat_s(wd, 64, ws, 4)));
    CALL("wmemcpy_s", wmemcpy_s(wd, 64, ws, 12));
    CALL("wcstok_s", (wcscpy(wd, L"a,b"), sz = 4, wcstok_s(wd, &sz, L",", (wchar_t **)&pp)));
    CALL("mbstowcs_s", mbstowcs_s(&sz, wd, 64, "abc", 3));
    CALL("wcstombs_s", wcstombs_s(&sz, d, 64, L"abc", 3));
    CALL("wcrtomb_s", (memset(&tmv, 0, 0), wcrtomb_s(&sz, d, 64, L'a', NULL)));
    CALL("wcsfc_s", wcsfc_s(wd, 64, L"ABC", &cnt));
    CALL("wcsnorm_s", wcsnorm_s(wd, 64, L"A\x030a", WCSNORM_NFC, &cnt));
    CALL("wcsicmp_s", wcsicmp_s(L"ABC", 4, L"abc", 4, &ind));
    CALL("towfc_s", towfc_s(wd, 4, 0xdf));
    CALL("sprintf_s:int", sprintf_s(d, 64, "%d %s %x", 42, "ab", 255));
    CALL("sprintf_s:float", sprintf_s(d, 64, "%f %e %g", 1.5, 2.5e10, 0.001));
    CALL("sprintf_s:big", sprintf_s(d, 64, "%f", 1e12));
    CALL("sprintf_s:Lf", sprintf_s(d, 64, "%Lf", (long double)1.5));
    CALL("sprintf_s:La", sprintf_s(d, 64, "%La", (long double)1.5));
    CALL("sprintf_s:a", sprintf_s(d, 64, "%a", 1.5));
    CALL("sprintf_s:ls", sprintf_s(d, 64, "%ls", L"wide"));
    CALL("snprintf_s", snprintf_s(d, 8, "%s", "abcdefghijkl"));
    CALL("swprintf_s", swprintf_s(wd, 64, L"%d %ls", 7, L"w"));
    CALL("swprintf_s:nospc", swprintf_s(wd, 4, L"%d %ls", 123456, L"wwww"));
    CALL("snwprintf_s:nospc", snwprintf_s(wd, 4, L"%d %ls", 123456, L"wwww"));
    CALL("sscanf_s", sscanf_s("12 ab", "%d %s", &ind, d, 8));
    CALL("qsort_s:64", qsort_s(arr, 64, sizeof(int), cmp_int, NULL));
    CALL("qsort_s:2", (arr[0] = 2, arr[1] = 1, qsort_s(arr, 2, sizeof(int), cmp_int, NULL)));
    CALL("bsearch_s", (ind = 5, bsearch_s(&ind, arr, 64, sizeof(int), cmp_int, NULL)));
    CALL("asctime_s:26", asctime_s(d, 26, &tmv));
    CALL("asctime_s:120", asctime_s(d, 120, &tmv));
    CALL("asctime_s:200", asctime_s(d, 200, &tmv));
    CALL("ctime_s:26", ctime_s(d, 26, &t));
    CALL("ctime_s:200", ctime_s(d, 200, &t));
    CALL("gmtime_s", gmtime_s(&t, &tmv));
    CALL("localtime_s", localtime_s(&t, &tmv));
    CALL("getenv_s", getenv_s(&sz, d, 64, "PATH"));
    { FILE *f = NULL; CALL("tmpfile_s", tmpfile_s(&f)); if (f) fclose(f); }
    CALL("strcpy_s:violation", strcpy_s(NULL, 4, s));
    CALL("memcpy_s:violation", memcpy_s(NULL, 4, s, 2));
    /* registration: the only state the property allows */
    CALL("set_str_constraint_handler_s", set_str_constraint_handler_s(ignore_handler_s));
    CALL("set_mem_constraint_handler_s", set_mem_constraint_handler_s(ignore_handler_s));
    CALL("thrd_set_str_constraint_handler_s", thrd_set_str_constraint_handler_s(hnd));
}

/* ---------------------------------------------------------------- stress */
typedef struct { int id, iters, bad; char what[64]; } Job;
static void *stress(void *arg) {
    Job *j = (Job *)arg;
    int n = 48 + j->id;
    int *a = malloc(n * sizeof(int)), *e = malloc(n * sizeof(int));
    struct { char pad[300]; } *big = malloc(9 * sizeof *big);
    char d[128], x[128];
    wchar_t wd[64];
    struct tm tmv; memset(&tmv, 0, sizeof tmv); tmv.tm_mday = 1 + j->id % 20; tmv.tm_year = 90 + j->id;
    char want_time[64];
    asctime_r(&tmv, want_time);
    for (int it = 0; it < j->iters && !j->bad; it++) {
        for (int i = 0; i < n; i++) a[i] = (i * 7919 + it * 31 + j->id) % 1000;
        memcpy(e, a, n * sizeof(int));
        qsort(e, n, sizeof(int), (int (*)(const void *, const void *))cmp_int);
        qsort_s(a, n, sizeof(int), cmp_int, NULL);
        if (memcmp(a, e, n * sizeof(int))) { j->bad = 1; snprintf(j->what, sizeof j->what, "qsort_s iter=%d", it); break; }
        /* wide elements exercise the 256-byte chunking of the rotation scratch */
        for (int i = 0; i < 9; i++) { memset(&big[i], 0, 300); big[i].pad[0] = (char)((i * 5 + it) % 9); big[i].pad[299] = big[i].pad[0]; }
        qsort_s(big, 9, 300, (int (*)(const void *, const void *, void *))cmp_int, NULL);
        for (int i = 0; i < 9; i++) if (big[i].pad[0] != big[i].pad[299]) { j->bad = 1; snprintf(j->what, sizeof j->what, "qsort_s(300) iter=%d", it); }
        if (asctime_s(d, 26, &tmv) == 0 && strcmp(d, want_time)) { j->bad = 1; snprintf(j->what, sizeof j->what, "asctime_s iter=%d", it); }
        long double v = 1.0L + j->id + it % 7;
        snprintf(x, sizeof x, "%Lf", v);
        if (sprintf_s(d, 64, "%Lf", v) > 0 && strcmp(d, x)) { j->bad = 1; snprintf(j->what, sizeof j->what, "sprintf_s %%Lf iter=%d", it); }
        swprintf_s(wd, 4, L"%d", 100000 + j->id);
    }
    free(a); free(e); free(big);
    return NULL;
}

int main(int argc, char **argv) {
    setlocale(LC_ALL, "C");
    dl_iterate_phdr(cb, NULL);
    if (argc > 1 && !strcmp(argv[1], "stress")) {
        int nt = argc > 2 ? atoi(argv[2]) : 8, iters = argc > 3 ? atoi(argv[3]) : 2000;
        pthread_t th[64]; Job jobs[64];
        if (nt > 64) nt = 64;
        for (int i = 0; i < nt; i++) { jobs[i].id = i; jobs[i].iters = iters; jobs[i].bad = 0; jobs[i].what[0] = 0; pthread_create(&th[i], NULL, stress, &jobs[i]); }
        int bad = 0;
        for (int i = 0; i < nt; i++) { pthread_join(th[i], NULL); if (jobs[i].bad) { printf("stress-fail thread=%d %s\n", i, jobs[i].what); bad++; } }
        printf("stress threads=%d iters=%d bad=%d\n", nt, iters, bad);
        return 0;
    }
    printf("segments=%d base=%lx\n", nsegs, (unsigned long)libbase);
    if (!nsegs) { printf("error=no-writable-segment-found\n"); return 3; }
    run_calls();
    return 0;
}

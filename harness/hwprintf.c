/* hwprintf.c - the four wide buffer printf_s entry points under guard pages (stage of C01/C03/C04/C05/C08, tools/fmtstage.py)
 *
 * stdin : id=<n> fn=<swprintf_s|snwprintf_s|vswprintf_s|vsnwprintf_s> dmax=<D> fmt=<lit|d|ls|s|lc|mix|bad> len=<L>
 *           the format and its arguments are built so that the complete text has L wide characters:
 *             lit  L"xxx…"                 d    L"%*d" (width L, value 7; L >= 1)      ls  L"%ls" with an L-character wide string
 *             s    L"%s" with an L-byte narrow string          lc   L"x…%lc" (L-1 literals + one wide character)
 *             mix  L"%ls%d" (L-1 characters + one digit)        bad  L"a…%s" with L literals and an INVALID multibyte argument
 *         dest has exactly D wchar_t cells, its end flush against a PROT_NONE page, a canary page in front; every cell is
 *         pre-filled with 0x5151.
 * stdout: id=<n> ret=<r> hn=<handler calls> hc=<last code> sig=<0|signal> fo=<fault offset in cells rel. dest|-> where=<dest+dmax|dest-|wild>
 *              under=<0|1> cells=<8 hex digits per cell>
 */
#define _GNU_SOURCE
#include <errno.h>
#include <locale.h>
#include <setjmp.h>
#include <signal.h>
#include <stdarg.h>
#include <stdint.h>
#include <stdio.h>
#include <stdlib.h>
#include <string.h>
#include <sys/mman.h>
#include <unistd.h>
#include <wchar.h>

#include "safe_lib.h"
#include "safe_str_lib.h"

#define PAGE 4096
#define PAGES 4

static int hcount, hcode;
static void on_constraint(const char *msg, void *p, errno_t e) { (void)msg; (void)p; hcount++; hcode = (int)e; }

static sigjmp_buf jb;
static volatile int in_call;
static volatile uintptr_t fault_addr;
static void on_segv(int sig, siginfo_t *si, void *uc) {
    (void)uc;
    if (!in_call) _exit(97);
    fault_addr = (uintptr_t)si->si_addr;
    siglongjmp(jb, sig);
}

static int tv_sw(wchar_t *d, rsize_t n, const wchar_t *f, ...) {
    va_list ap; va_start(ap, f); int r = vswprintf_s(d, n, f, ap); va_end(ap); return r;
}
static int tv_snw(wchar_t *d, rsize_t n, const wchar_t *f, ...) {
    va_list ap; va_start(ap, f); int r = vsnwprintf_s(d, n, f, ap); va_end(ap); return r;
}

#define CALL(...)                                                         \
    (k == 0 ? swprintf_s(__VA_ARGS__) : k == 1 ? snwprintf_s(__VA_ARGS__) \
     : k == 2 ? tv_sw(__VA_ARGS__) : tv_snw(__VA_ARGS__))

int main(void) {
    static char line[4096];
    setlocale(LC_ALL, "C");
    uint8_t *win = mmap(NULL, (PAGES + 2) * PAGE, PROT_NONE, MAP_PRIVATE | MAP_ANONYMOUS, -1, 0);
    if (win == MAP_FAILED) return 98;
    mprotect(win, (PAGES + 1) * PAGE, PROT_READ | PROT_WRITE);   /* page 0: canary, pages 1..PAGES: dest, last: PROT_NONE */
    uint8_t *end = win + (PAGES + 1) * PAGE;
    struct sigaction sa; memset(&sa, 0, sizeof sa);
    static uint8_t alt[1 << 16];
    stack_t ss = { .ss_sp = alt, .ss_size = sizeof alt };
    sigaltstack(&ss, NULL);
    sa.sa_sigaction = on_segv; sa.sa_flags = SA_SIGINFO | SA_ONSTACK | SA_NODEFER;
    sigaction(SIGSEGV, &sa, NULL); sigaction(SIGBUS, &sa, NULL);
    set_str_constraint_handler_s(on_constraint);
    set_mem_constraint_handler_s(on_constraint);
    static wchar_t wfmt[2048], warg[2048];
    static char narg[2048];
    while (fgets(line, sizeof line, stdin)) {
        char id[32] = "?", fn[32] = "", fmt[16] = "";
        unsigned long dmax = 0, L = 0;
        for (char *t = strtok(line, " \n"); t; t = strtok(NULL, " \n")) {
            if (!strncmp(t, "id=", 3)) snprintf(id, sizeof id, "%s", t + 3);
            else if (!strncmp(t, "fn=", 3)) snprintf(fn, sizeof fn, "%s", t + 3);
            else if (!strncmp(t, "fmt=", 4)) snprintf(fmt, sizeof fmt, "%s", t + 4);
            else if (!strncmp(t, "dmax=", 5)) dmax = strtoul(t + 5, NULL, 10);
            else if (!strncmp(t, "len=", 4)) L = strtoul(t + 4, NULL, 10);
        }
        int k = !strcmp(fn, "swprintf_s") ? 0 : !strcmp(fn, "snwprintf_s") ? 1 : !strcmp(fn, "vswprintf_s") ? 2 : !strcmp(fn, "vsnwprintf_s") ? 3 : -1;
        if (k < 0 || dmax == 0 || dmax * sizeof(wchar_t) > PAGES * PAGE || L > 2000) { printf("id=%s err=badop\n", id); continue; }
        wchar_t *dest = (wchar_t *)end - dmax;
        for (uint8_t *p = win; p < end; p++) *p = 0x51;
        hcount = 0; hcode = 0;
        int ret = 0, sig;
        if ((sig = sigsetjmp(jb, 1)) == 0) {
            in_call = 1;
            if (!strcmp(fmt, "lit")) {
                for (unsigned long i = 0; i < L; i++) wfmt[i] = L'x';
                wfmt[L] = 0;
                ret = CALL(dest, dmax, wfmt);
            } else if (!strcmp(fmt, "d")) {
                ret = CALL(dest, dmax, L"%*d", (int)(L ? L : 1), 7);
            } else if (!strcmp(fmt, "ls")) {
                for (unsigned long i = 0; i < L; i++) warg[i] = L'a' + (wchar_t)(i % 26);
                warg[L] = 0;
                ret = CALL(dest, dmax, L"%ls", warg);
            } else if (!strcmp(fmt, "s")) {
                for (unsigned long i = 0; i < L; i++) narg[i] = 'a' + (char)(i % 26);
                narg[L] = 0;
                ret = CALL(dest, dmax, L"%s", narg);
            } else if (!strcmp(fmt, "lc")) {
                unsigned long n = L ? L - 1 : 0;
                for (unsigned long i = 0; i < n; i++) wfmt[i] = L'x';
                wfmt[n] = L'%'; wfmt[n + 1] = L'l'; wfmt[n + 2] = L'c'; wfmt[n + 3] = 0;
                ret = CALL(dest, dmax, wfmt, (wint_t)L'Z');
            } else if (!strcmp(fmt, "mix")) {
                unsigned long n = L ? L - 1 : 0;
                for (unsigned long i = 0; i < n; i++) warg[i] = L'a' + (wchar_t)(i % 26);
                warg[n] = 0;
                ret = CALL(dest, dmax, L"%ls%d", warg, 7);
            } else if (!strcmp(fmt, "bad")) {
                for (unsigned long i = 0; i < L; i++) wfmt[i] = L'a';
                wfmt[L] = L'%'; wfmt[L + 1] = L's'; wfmt[L + 2] = 0;
                ret = CALL(dest, dmax, wfmt, "x\xff\xfe");
            } else { in_call = 0; printf("id=%s err=badfmt\n", id); continue; }
            in_call = 0;
            printf("id=%s ret=%d hn=%d hc=%d sig=0 fo=- where=-", id, ret, hcount, hcode);
        } else {
            in_call = 0;
            long off = ((long)fault_addr - (long)(uintptr_t)dest) / (long)sizeof(wchar_t);
            const char *where = (fault_addr >= (uintptr_t)end && fault_addr < (uintptr_t)end + PAGE) ? "dest+dmax"
                              : (fault_addr < (uintptr_t)dest && fault_addr >= (uintptr_t)win - PAGE) ? "dest-" : "wild";
            printf("id=%s hn=%d hc=%d sig=%d fo=%ld where=%s", id, hcount, hcode, sig, off, where);
        }
        int under = 0;
        for (uint8_t *p = win; p < (uint8_t *)dest; p++) if (*p != 0x51) { under = 1; break; }
        printf(" under=%d cells=", under);
        for (unsigned long i = 0; i < dmax && i < 600; i++) printf("%08x", (unsigned)dest[i]);
        printf("\n");
        fflush(stdout);
    }
    return 0;
}

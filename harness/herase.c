/* herase.c - C18 assumption validator: client programs in which the erased buffer is DEAD after the erase call.
 *
 * NOT a proof: it validates, on real builds of the current tree, the one assumption the Lean models make about the
 * compiler - that the stores of a successful erase call are performed even though the program never reads the buffer again.
 *
 * For every erase entry point (called through the PUBLIC macros of safe_mem_lib.h / safe_str_lib.h) and four storage kinds
 *   stack           automatic object whose address escaped to another translation unit BEFORE the secret was written;
 *                   read back through that stale address right after the frame was popped (inline, no call in between)
 *   stack-noescape  automatic object whose address goes nowhere but into the erase call; the popped stack area is scanned
 *                   for the secret's byte pattern
 *   heap            malloc / fill / use / erase / free; the interposed free() (herase_spy.c) inspects the block
 *   static          object with static storage duration that is never read again; inspected through /proc/self/mem at the
 *                   address the orchestrator took from the symbol table (HERASE_SYMS) - the program never forms that pointer
 * the object is  [16 guard bytes][ T buf[N] ][16 guard bytes];  buf[OFF .. N) is erased.  Expected afterwards: guards and
 * buf[0 .. OFF) unchanged, every erased element = fill value.  One line per victim on stdout.
 */
#define _GNU_SOURCE
#include <fcntl.h>
#include <stddef.h>
#include <stdint.h>
#include <stdio.h>
#include <stdlib.h>
#include <string.h>
#include <unistd.h>

#include "safe_mem_lib.h"
#include "safe_str_lib.h"

#define G 16
#define SNAPMAX 2048
#define SCAN_BYTES 16384

extern void *volatile g_spy;
extern void spy_escape(void *p);
extern volatile unsigned long g_sink;
extern volatile int g_rc;
extern unsigned char g_heap_snap[SNAPMAX];
extern volatile size_t g_heap_snap_len;
extern void *volatile g_heap_ptr;

#define PRE(i) ((unsigned char)(0xB0 ^ ((i) & 15)))
#define POST(i) ((unsigned char)(0x8F ^ (((i) * 3) & 15)))
#define SECRET(j) ((unsigned char)(0x21 + ((j) % 37)))

#define E_memset_s_0(p, cnt) memset_s((p), (cnt), 0, (cnt))
#define E_memset_s_ff(p, cnt) memset_s((p), (cnt), 0xFF, (cnt))
#define E_memzero_s(p, cnt) memzero_s((p), (cnt))
#define E_memset16_s(p, cnt) memset16_s((p), (cnt) * 2, 0xA55A, (cnt))
#define E_memset32_s(p, cnt) memset32_s((p), (cnt) * 4, 0xA55AC99CU, (cnt))
#define E_memzero16_s(p, cnt) memzero16_s((p), (cnt))
#define E_memzero32_s(p, cnt) memzero32_s((p), (cnt))
#define E_strzero_s(p, cnt) strzero_s((char *)(p), (cnt))

/*        id            function      T        N   OFF  erase          fill value   string? slot */
#define VICTIMS(X)                                                                          \
    X(memset_s_0a,   "memset_s",    uint8_t, 163, 0, E_memset_s_0,  0x00UL,       0, 0)        \
    X(memset_s_0b,   "memset_s",    uint8_t,  67, 3, E_memset_s_0,  0x00UL,       0, 1)        \
    X(memset_s_ff,   "memset_s",    uint8_t, 131, 1, E_memset_s_ff, 0xFFUL,       0, 2)        \
    X(memzero_s_a,   "memzero_s",   uint8_t, 163, 0, E_memzero_s,   0x00UL,       0, 0)        \
    X(memzero_s_b,   "memzero_s",   uint8_t,  45, 5, E_memzero_s,   0x00UL,       0, 1)        \
    X(memset16_s_a,  "memset16_s",  uint16_t, 83, 0, E_memset16_s,  0xA55AUL,     0, 0)        \
    X(memset16_s_b,  "memset16_s",  uint16_t, 35, 1, E_memset16_s,  0xA55AUL,     0, 2)        \
    X(memset32_s_a,  "memset32_s",  uint32_t, 41, 0, E_memset32_s,  0xA55AC99CUL, 0, 0)        \
    X(memset32_s_b,  "memset32_s",  uint32_t, 19, 1, E_memset32_s,  0xA55AC99CUL, 0, 2)        \
    X(memzero16_s_a, "memzero16_s", uint16_t, 83, 0, E_memzero16_s, 0x00UL,       0, 1)        \
    X(memzero16_s_b, "memzero16_s", uint16_t, 35, 1, E_memzero16_s, 0x00UL,       0, 3)        \
    X(memzero32_s_a, "memzero32_s", uint32_t, 41, 0, E_memzero32_s, 0x00UL,       0, 1)        \
    X(memzero32_s_b, "memzero32_s", uint32_t, 19, 1, E_memzero32_s, 0x00UL,       0, 3)        \
    X(strzero_s_a,   "strzero_s",   uint8_t, 163, 0, E_strzero_s,   0x00UL,       1, 0)        \
    X(strzero_s_b,   "strzero_s",   uint8_t,  41, 2, E_strzero_s,   0x00UL,       1, 1)

static inline __attribute__((always_inline)) void fill(void *obj, size_t total, size_t bufoff, size_t buflen, int isstr) {
    volatile unsigned char *p = (volatile unsigned char *)obj;
    for (size_t i = 0; i < total; i++) {
        if (i < bufoff)
            p[i] = PRE(i);
        else if (i < bufoff + buflen)
            p[i] = SECRET(i - bufoff);
        else
            p[i] = POST(i - bufoff - buflen);
    }
    if (isstr)
        p[bufoff + buflen - 3] = 0; /* a terminated secret string with two dirty bytes behind the terminator */
}

static inline __attribute__((always_inline)) void use(void *obj, size_t total) {
    volatile unsigned char *p = (volatile unsigned char *)obj;
    unsigned long s = 0;
    for (size_t i = 0; i < total; i++)
        s = s * 31 + p[i];
    g_sink += s;
}

#define NOINL __attribute__((noinline, noclone, unused))

/* -DSEL_STORAGE=1..4 (stack, stack-noescape, heap, static) and -DSEL_SLOT=0..3 compile only that storage kind and only the
 * victims of that slot: within a slot every erase function AND every set primitive (mem_prim_set16 is shared by memset16_s
 * and memzero16_s, mem_prim_set32 by the 32-bit pair) has exactly ONE call site in the whole program, which is what lets a
 * link-time optimiser inline the library code into the client (the interesting case).  Default: everything. */
#ifndef SEL_STORAGE
#define SEL_STORAGE 0
#endif
#ifndef SEL_SLOT
#define SEL_SLOT (-1)
#endif
#define ST_OK(k) (SEL_STORAGE == 0 || SEL_STORAGE == (k))
#define SLOT_OK(j) (SEL_SLOT < 0 || SEL_SLOT == (j))

#define DEFINE(ID, FN, T, N, OFF, E, FILLV, ISSTR, SLOT)                                                   \
    typedef struct { unsigned char pre[G]; T buf[N]; unsigned char post[G]; } obj_##ID;              \
    NOINL static void vs_##ID(void) {                                                                \
        obj_##ID o;                                                                                  \
        spy_escape(&o);                                                                              \
        fill(&o, sizeof o, offsetof(obj_##ID, buf), sizeof o.buf, ISSTR);                            \
        use(&o, sizeof o);                                                                           \
        g_rc = E((o.buf + (OFF)), ((N) - (OFF)));                                                    \
    }                                                                                                \
    NOINL static void vn_##ID(void) {                                                                \
        obj_##ID o;                                                                                  \
        fill(&o, sizeof o, offsetof(obj_##ID, buf), sizeof o.buf, ISSTR);                            \
        use(&o, sizeof o);                                                                           \
        g_rc = E((o.buf + (OFF)), ((N) - (OFF)));                                                    \
    }                                                                                                \
    NOINL static void vh_##ID(void) {                                                                \
        obj_##ID *o = (obj_##ID *)malloc(sizeof *o);                                                 \
        fill(o, sizeof *o, offsetof(obj_##ID, buf), sizeof o->buf, ISSTR);                           \
        use(o, sizeof *o);                                                                           \
        g_rc = E((o->buf + (OFF)), ((N) - (OFF)));                                                   \
        free(o);                                                                                     \
    }                                                                                                \
    static obj_##ID vt_##ID##_obj;                                                                   \
    NOINL static void vt_##ID(void) {                                                                \
        fill(&vt_##ID##_obj, sizeof vt_##ID##_obj, offsetof(obj_##ID, buf), sizeof vt_##ID##_obj.buf, ISSTR); \
        use(&vt_##ID##_obj, sizeof vt_##ID##_obj);                                                   \
        g_rc = E((vt_##ID##_obj.buf + (OFF)), ((N) - (OFF)));                                        \
    }

VICTIMS(DEFINE)

/* ---------------------------------------------------------------- reporting */
static unsigned char snapbuf[SNAPMAX];

static void emit(const char *s) {
    size_t n = strlen(s);
    while (n) {
        ssize_t k = write(1, s, n);
        if (k <= 0)
            break;
        s += k;
        n -= (size_t)k;
    }
}

static void report(const char *id, const char *fn, const char *storage, unsigned w, unsigned n, unsigned off,
                   unsigned long fillv, const unsigned char *snap, size_t total, int rc, unsigned long addr) {
    char line[512];
    size_t bufoff = G, buflen = (size_t)n * w;
    const char *res = "erased";
    long bad = -1;
    unsigned got = 0, want = 0;
    /* how much of the secret is left, and is any of it outside the 8-byte-aligned interior of the erased range
       (the bytes mem_prim_set writes one at a time) */
    unsigned leaked = 0, edge = 0;
    {
        unsigned long lo = addr + bufoff + (size_t)off * w, hi = addr + bufoff + buflen;
        unsigned long ilo = (lo + 7) & ~7UL, ihi = hi & ~7UL;
        for (size_t j = (size_t)off * w; j < buflen; j++) {
            unsigned long a = addr + bufoff + j;
            if (snap[bufoff + j] == SECRET(j) && SECRET(j) != (unsigned char)(fillv >> (8 * (j % w)))) {
                leaked++;
                if (a < ilo || a >= ihi)
                    edge++;
            }
        }
    }
    for (size_t i = 0; i < total; i++) {
        unsigned char e;
        int outside = 1;
        size_t j = 0;
        if (i < bufoff)
            e = PRE(i);
        else if (i < bufoff + buflen) {
            j = i - bufoff;
            if (j < (size_t)off * w)
                e = SECRET(j);
            else {
                e = (unsigned char)(fillv >> (8 * (j % w)));
                outside = 0;
            }
        } else
            e = POST(i - bufoff - buflen);
        if (snap[i] != e) {
            bad = (long)i - (long)bufoff;
            got = snap[i];
            want = e;
            res = outside ? "changed-outside" : snap[i] == SECRET(j) ? "secret-left" : "wrong-value";
            break;
        }
    }
    snprintf(line, sizeof line, "victim=%s fn=%s storage=%s w=%u n=%u off=%u rc=%d result=%s at=%ld got=%02x want=%02x leaked=%u edge=%u\n",
             id, fn, storage, w, n, off, rc, rc != 0 ? "call-failed" : res, bad, got, want, leaked, edge);
    emit(line);
}

static void report_scan(const char *id, const char *fn, unsigned w, unsigned n, unsigned off, long at, unsigned long cnt, int rc) {
    char line[512];
    snprintf(line, sizeof line, "victim=%s fn=%s storage=stack-noescape w=%u n=%u off=%u rc=%d result=%s at=%ld got=00 want=00 leaked=%lu edge=-1\n",
             id, fn, w, n, off, rc, rc != 0 ? "call-failed" : at < 0 ? "erased" : "secret-left", at, cnt);
    emit(line);
}

static NOINL void touch_stack(void) {
    volatile unsigned char pad[SCAN_BYTES + 4096];
    for (size_t i = 0; i < sizeof pad; i++)
        pad[i] = 0;
}

static unsigned long symaddr(const char *name) {
    const char *s = getenv("HERASE_SYMS");
    size_t L = strlen(name);
    while (s && *s) {
        if (!strncmp(s, name, L) && s[L] == '=')
            return strtoul(s + L + 1, 0, 16);
        s = strchr(s, ',');
        if (s)
            s++;
    }
    return 0;
}

static int peek(unsigned long addr, unsigned char *out, size_t len) {
    static int fd = -1;
    if (!addr)
        return 0;
    if (fd < 0)
        fd = open("/proc/self/mem", O_RDONLY);
    if (fd < 0)
        return 0;
    return pread(fd, out, len, (off_t)addr) == (ssize_t)len;
}

static const char *only;
static int wanted(const char *id) { return !only || strstr(id, only) != 0; }

/* ascending run of >= 8 secret bytes anywhere in the popped stack area */
#define SCAN(at, cnt)                                                                                             \
    do {                                                                                                     \
        volatile unsigned char *b_ = (volatile unsigned char *)__builtin_frame_address(0) - SCAN_BYTES;     \
        size_t run_ = 0;                                                                                     \
        unsigned char prev_ = 0;                                                                             \
        (at) = -1;                                                                                           \
        (cnt) = 0;                                                                                           \
        for (size_t i_ = 0; i_ < SCAN_BYTES; i_++) {                                                         \
            unsigned char c_ = b_[i_];                                                                       \
            int in_ = c_ >= 0x21 && c_ <= 0x45;                                                              \
            if (in_ && run_ > 0 && (c_ == prev_ + 1 || (prev_ == 0x45 && c_ == 0x21)))                       \
                run_++;                                                                                      \
            else                                                                                             \
                run_ = in_ ? 1 : 0;                                                                          \
            prev_ = c_;                                                                                      \
            if (run_ >= 8 && (at) < 0)                                                                       \
                (at) = (long)i_;                                                                             \
            if (run_ == 8)                                                                                   \
                (cnt) += 8;                                                                                  \
            else if (run_ > 8)                                                                               \
                (cnt) += 1;                                                                                  \
        }                                                                                                    \
    } while (0)

#define RUN(ID, FN, T, N, OFF, E, FILLV, ISSTR, SLOT)                                                        \
    if (SLOT_OK(SLOT) && wanted(#ID)) {                                                                      \
        long at_;                                                                                            \
        unsigned long cnt_;                                                                                  \
        if (ST_OK(1)) {                                                                                      \
            vs_##ID();                                                                                       \
            {                                                                                                \
                volatile unsigned char *q_ = (volatile unsigned char *)g_spy;                                \
                for (size_t i_ = 0; i_ < sizeof(obj_##ID); i_++)                                             \
                    snapbuf[i_] = q_[i_];                                                                    \
            }                                                                                                \
            report("vs_" #ID, FN, "stack", sizeof(T), N, OFF, FILLV, snapbuf, sizeof(obj_##ID), g_rc, (unsigned long)g_spy);       \
        }                                                                                                    \
        if (ST_OK(2)) {                                                                                      \
            touch_stack();                                                                                   \
            vn_##ID();                                                                                       \
            SCAN(at_, cnt_);                                                                                       \
            report_scan("vn_" #ID, FN, sizeof(T), N, OFF, at_, cnt_, g_rc);                                        \
        }                                                                                                    \
        if (ST_OK(3)) {                                                                                      \
            g_heap_snap_len = 0;                                                                             \
            vh_##ID();                                                                                       \
            if (g_heap_snap_len == sizeof(obj_##ID))                                                         \
                report("vh_" #ID, FN, "heap", sizeof(T), N, OFF, FILLV, g_heap_snap, sizeof(obj_##ID), g_rc, (unsigned long)g_heap_ptr); \
            else                                                                                             \
                emit("victim=vh_" #ID " fn=" FN " storage=heap result=no-snapshot\n");                       \
        }                                                                                                    \
        if (ST_OK(4)) {                                                                                      \
            vt_##ID();                                                                                       \
            if (peek(symaddr("vt_" #ID "_obj"), snapbuf, sizeof(obj_##ID)))                                  \
                report("vt_" #ID, FN, "static", sizeof(T), N, OFF, FILLV, snapbuf, sizeof(obj_##ID), g_rc,   \
                       symaddr("vt_" #ID "_obj"));                                                           \
            else                                                                                             \
                emit("victim=vt_" #ID " fn=" FN " storage=static result=no-symbol\n");                       \
        }                                                                                                    \
    }

int main(int argc, char **argv) {
    only = argc > 1 ? argv[1] : 0;
    touch_stack();
    VICTIMS(RUN)
    emit("done=1\n");
    return 0;
}

/* shims.h - entry points of the generic harness that need a little set-up around the library call.
 * The extra trailing arguments are the regions the Lean model reads INSTEAD of process state the C
 * reads (environment, libc's message table); each shim checks that the two agree, so that the
 * comparison of model and implementation is about the same text. */
#include <fcntl.h>
extern errno_t _getenv_s_chk(size_t *restrict len, char *restrict dest, rsize_t dmax,
                             const char *restrict name, const size_t destbos);
extern errno_t _strerror_s_chk(char *dest, rsize_t dmax, errno_t errnum, const size_t destbos);

static void shim_die(const char *what) {
    fprintf(stderr, "SHIM-MISMATCH %s\n", what);
    fflush(stderr);
    _exit(95);
}

/* value: the environment value the model is told about (NULL: the variable is unset) */
static errno_t shim_getenv_s(size_t *len, char *dest, rsize_t dmax, const char *name, size_t destbos,
                             const char *value) {
    if (name) {
        if (value) setenv(name, value, 1);
        else unsetenv(name);
    }
    return _getenv_s_chk(len, dest, dmax, name, destbos);
}
static errno_t shim_getenv_s_nl(char *dest, rsize_t dmax, const char *name, size_t destbos, const char *value) {
    return shim_getenv_s(NULL, dest, dmax, name, destbos, value);
}

/* msg: the text the model copies from; must be the library's own text for errnum */
static void shim_check_msg(long errnum, const char *msg) {
    static char big[512];
    size_t n = strerrorlen_s((errno_t)errnum);
    if (!msg || n >= sizeof big) shim_die("strerror message missing or too long");
    if (_strerror_s_chk(big, sizeof big, (errno_t)errnum, (size_t)-1) != 0) shim_die("strerror_s failed on a 512-byte buffer");
    if (strcmp(big, msg) != 0 || strlen(msg) != n) shim_die("strerror message differs from the library's");
}
static errno_t shim_strerror_s(char *dest, rsize_t dmax, long errnum, size_t destbos, const char *msg,
                               const char *dots) {
    shim_check_msg(errnum, msg);
    if (!dots || strcmp(dots, "...") != 0) shim_die("dots literal");
    return _strerror_s_chk(dest, dmax, (errno_t)errnum, destbos);
}
static size_t shim_strerrorlen_s(long errnum, const char *msg) {
    shim_check_msg(errnum, msg);
    return strerrorlen_s((errno_t)errnum);
}

/* asctime_s / ctime_s: `text` is libc's rendering the model copies from; checked against asctime_r / ctime_r when the library's
   own range checks would let the call get that far (tm->tm_year within 0..8099 etc. is the library's business, not the shim's:
   the comparison is only made when libc itself accepts the value). */
extern errno_t _asctime_s_chk(char *dest, rsize_t dmax, const struct tm *tm, const size_t destbos);
extern errno_t _ctime_s_chk(char *dest, rsize_t dmax, const time_t *timer, const size_t destbos);
static errno_t shim_asctime_s(char *dest, rsize_t dmax, const struct tm *tm, size_t destbos, const char *text, long check) {
    if (check && tm && text) {
        char tmp[128];
        const char *r = asctime_r(tm, tmp);
        if (!r || strcmp(r, text) != 0) shim_die("asctime text differs from libc's");
    }
    return _asctime_s_chk(dest, dmax, tm, destbos);
}
static errno_t shim_ctime_s_tz(char *dest, rsize_t dmax, const time_t *timer, size_t destbos, const char *text, long check);
/* check = 2: the call (and libc's reference rendering) run with TZ=XXX-14 (14 hours east of UTC, a POSIX TZ string) */
static errno_t shim_ctime_s(char *dest, rsize_t dmax, const time_t *timer, size_t destbos, const char *text, long check) {
    if (check == 2 || check == 3) {     /* 3: libc is expected to return NULL after formatting the 25 characters at `text` */
        setenv("TZ", "XXX-14", 1); tzset();
        if (check == 3 && timer) {
            char tmp[128]; memset(tmp, 0, sizeof tmp);
            if (ctime_r(timer, tmp) != NULL || !text || strncmp(tmp, text, 25) != 0 || strlen(text) != 25) {
                fprintf(stderr, "timer=%ld libc=[%s] given=[%s]\n", (long)*timer, tmp, text ? text : "(null)");
                shim_die("ctime_r was expected to fail after formatting the given text");
            }
        }
        errno_t r = shim_ctime_s_tz(dest, dmax, timer, destbos, text, check == 2 ? 1 : 0);
        unsetenv("TZ"); tzset();
        return r;
    }
    return shim_ctime_s_tz(dest, dmax, timer, destbos, text, check);
}
static errno_t shim_ctime_s_tz(char *dest, rsize_t dmax, const time_t *timer, size_t destbos, const char *text, long check) {
    if (check && timer) {   /* text == NULL: libc is expected to return NULL */
        char tmp[128];
        const char *r = ctime_r(timer, tmp);
        if ((r == NULL) != (text == NULL) || (r && strcmp(r, text) != 0)) {
            fprintf(stderr, "timer=%ld libc=[%s] given=[%s]\n", (long)*timer, r ? r : "(null)", text ? text : "(null)");
            shim_die("ctime text differs from libc's");
        }
    }
    return _ctime_s_chk(dest, dmax, timer, destbos);
}

/* gets_s: `inp`/`inplen` is what stdin holds for this call (the model reads it from the region instead).  The harness reads its
   op lines from its own FILE (hx.c keeps it in `ops`), so stdin can be swapped for a pipe holding the bytes.
   returns 0 when gets_s returned dest, errno when it returned NULL (-1: NULL with errno 0, i.e. end of file) */
extern char *_gets_s_chk(char *restrict dest, rsize_t dmax, const size_t destbos);
static FILE *shim_saved_stdin;
static FILE *shim_pipe_file;
static void shim_restore_stdin(void) {
    if (shim_saved_stdin) { stdin = shim_saved_stdin; shim_saved_stdin = NULL; }
    if (shim_pipe_file) { fclose(shim_pipe_file); shim_pipe_file = NULL; }
}
static errno_t shim_gets_s(char *dest, rsize_t dmax, size_t destbos, const char *inp, size_t inplen) {
    int fds[2];
    shim_restore_stdin();
    if (inplen > 60000) shim_die("gets_s input too long for a pipe");
    if (!inp) {             /* a stream whose first read fails (EISDIR): the read-error path */
        fds[0] = open("/", O_RDONLY);
        if (fds[0] < 0) shim_die("open /");
    } else {
        if (pipe(fds)) shim_die("pipe");
        if (inplen && write(fds[1], inp, inplen) != (ssize_t)inplen) shim_die("write");
        close(fds[1]);
    }
    shim_pipe_file = fdopen(fds[0], "r");
    if (!shim_pipe_file) shim_die("fdopen");
    shim_saved_stdin = stdin;
    stdin = shim_pipe_file;
    errno = 0;
    char *r = _gets_s_chk(dest, dmax, destbos);
    int e = errno;
    shim_restore_stdin();
    if (r && r != dest) shim_die("gets_s returned a foreign pointer");
    return r ? 0 : (e ? e : -1);
}

/* gmtime_s / localtime_s: `res` is libc's struct tm for *timer (the model copies it); compared with gmtime_r / localtime_r when
   `check` is set.  tm_zone is an address inside libc: cleared in dest after the call (the model stores 0 there).
   returns 0 when the call returned dest, errno when it returned NULL (-1: NULL with errno 0) */
static errno_t shim_tm_s(int local, const time_t *timer, struct tm *dest, const struct tm *res, long check) {
    if (check && timer && res) {
        struct tm t; memset(&t, 0, sizeof t);
        struct tm *r = local ? localtime_r(timer, &t) : gmtime_r(timer, &t);
        if (!r) shim_die("libc could not convert the time");
        t.tm_zone = NULL;
        if (t.tm_sec != res->tm_sec || t.tm_min != res->tm_min || t.tm_hour != res->tm_hour || t.tm_mday != res->tm_mday ||
            t.tm_mon != res->tm_mon || t.tm_year != res->tm_year || t.tm_wday != res->tm_wday || t.tm_yday != res->tm_yday ||
            t.tm_isdst != res->tm_isdst || t.tm_gmtoff != res->tm_gmtoff) {
            fprintf(stderr, "timer=%ld libc=%d-%d-%d %d:%d:%d wday=%d yday=%d given=%d-%d-%d %d:%d:%d wday=%d yday=%d\n", (long)*timer,
                    t.tm_year, t.tm_mon, t.tm_mday, t.tm_hour, t.tm_min, t.tm_sec, t.tm_wday, t.tm_yday,
                    res->tm_year, res->tm_mon, res->tm_mday, res->tm_hour, res->tm_min, res->tm_sec, res->tm_wday, res->tm_yday);
            shim_die("struct tm differs from libc's");
        }
    }
    errno = 0;
    struct tm *r = local ? localtime_s(timer, dest) : gmtime_s(timer, dest);
    int e = errno;
    if (r && r != dest) shim_die("gmtime_s/localtime_s returned a foreign pointer");
    if (r) dest->tm_zone = NULL;
    return r ? 0 : (e ? e : -1);
}
static errno_t shim_gmtime_s(const time_t *timer, struct tm *dest, const struct tm *res, long check) { return shim_tm_s(0, timer, dest, res, check); }
static errno_t shim_localtime_s(const time_t *timer, struct tm *dest, const struct tm *res, long check) { return shim_tm_s(1, timer, dest, res, check); }

/* hx.c - generic correspondence harness.
 *
 * Reads op lines on stdin, places the declared regions at fixed addresses flush against
 * PROT_NONE pages, calls the real safeclib entry point (library objects compiled from the
 * current /repo tree), and prints one observation line per op.
 *
 * Layout (must match lean/SafeC/Driver.lean and tools/layout.py):
 *   region k lives in the window  WBASE + k*WSTRIDE :
 *     page 0       PROT_NONE
 *     pages 1..4   read/write
 *     page 5       PROT_NONE
 *   flush 'r': cell 0 at WBASE + k*WSTRIDE + 5*PAGE - n*w   (ends at the guard page)
 *   flush 'l': cell 0 at WBASE + k*WSTRIDE + PAGE           (starts right after a guard page)
 *   every mapped byte outside the region holds canary(addr).
 */
#define _GNU_SOURCE
#include <errno.h>
#include <locale.h>
#include <setjmp.h>
#include <signal.h>
#include <stdint.h>
#include <stdio.h>
#include <stdlib.h>
#include <string.h>
#include <sys/mman.h>
#include <ucontext.h>
#include <unistd.h>
#include <wchar.h>
#include <time.h>

#include "safe_lib.h"
#include "safe_str_lib.h"
#include "safe_mem_lib.h"

#define PAGE 4096UL
#define WBASE 0x200000000UL
#define WSTRIDE 0x100000UL
#define NREG 8
#define MAPPED_PAGES 4
#define MAXARGS 12

typedef struct {
    int used;
    int w;           /* element width in bytes */
    size_t n;        /* cells */
    char flush;      /* 'r' or 'l' */
    uint8_t *base;   /* address of cell 0 */
    uint8_t *win;    /* window start */
} Region;

typedef struct {
    char kind;       /* 'p' pointer, 'n' number, 'o' out slot */
    void *p;
    unsigned long n;
    long o;          /* out slot storage */
    int ok;          /* out slot: in-out initial value given */
} Arg;

typedef struct {
    Arg a[MAXARGS];
    int nargs;
    long ret;
    int retkind;     /* 'e','n','p','t','i' */
} Call;

static Region R[NREG];
static sigjmp_buf jb;
static volatile int in_call;
static volatile unsigned long fault_addr;
static volatile int fault_write;
static volatile int fault_sig;

#define MAXEV 64
static int ev_kind[MAXEV], ev_code[MAXEV], nev;

static inline uint8_t canary(uintptr_t x) {
    uint8_t c = (uint8_t)(((x ^ (x >> 8)) * 0x9E + 0x55) & 0xFF);
    return c ? c : 0xA5;
}

static void h_str(const char *msg, void *ptr, errno_t err) {
    (void)msg; (void)ptr;
    if (nev < MAXEV) { ev_kind[nev] = 'S'; ev_code[nev] = err; }
    nev++;
}
static void h_mem(const char *msg, void *ptr, errno_t err) {
    (void)msg; (void)ptr;
    if (nev < MAXEV) { ev_kind[nev] = 'M'; ev_code[nev] = err; }
    nev++;
}

static void on_fault(int sig, siginfo_t *si, void *uc_) {
    ucontext_t *uc = (ucontext_t *)uc_;
    if (!in_call) {
        /* a fault outside a library call is a harness bug */
        const char m[] = "HARNESS-FAULT outside call\n";
        if (write(2, m, sizeof m - 1)) {}
        _exit(97);
    }
    fault_addr = (unsigned long)si->si_addr;
    fault_write = (int)((uc->uc_mcontext.gregs[REG_ERR] >> 1) & 1);
    fault_sig = sig;
    siglongjmp(jb, 1);
}

static void setup_windows(void) {
    for (int k = 0; k < NREG; k++) {
        uint8_t *win = (uint8_t *)(WBASE + k * WSTRIDE);
        void *m = mmap(win, (MAPPED_PAGES + 2) * PAGE, PROT_NONE,
                       MAP_PRIVATE | MAP_ANONYMOUS | MAP_FIXED_NOREPLACE, -1, 0);
        if (m != (void *)win) { perror("mmap"); exit(98); }
        if (mprotect(win + PAGE, MAPPED_PAGES * PAGE, PROT_READ | PROT_WRITE)) { perror("mprotect"); exit(98); }
        R[k].win = win;
        for (size_t i = 0; i < MAPPED_PAGES * PAGE; i++) win[PAGE + i] = canary((uintptr_t)(win + PAGE + i));
    }
}

static int hexval(int c) {
    if (c >= '0' && c <= '9') return c - '0';
    if (c >= 'a' && c <= 'f') return c - 'a' + 10;
    if (c >= 'A' && c <= 'F') return c - 'A' + 10;
    return -1;
}

/* place region: cells given most-significant-digit first, 2*w hex digits per cell */
static int place_region(int k, int w, size_t n, char flush, const char *hex) {
    Region *r = &R[k];
    if (n * w > MAPPED_PAGES * PAGE) return -1;
    r->used = 1; r->w = w; r->n = n; r->flush = flush;
    r->base = flush == 'r' ? r->win + (MAPPED_PAGES + 1) * PAGE - n * w : r->win + PAGE;
    for (size_t i = 0; i < n; i++) {
        unsigned long v = 0;
        for (int d = 0; d < 2 * w; d++) {
            int h = hexval(*hex++);
            if (h < 0) return -1;
            v = (v << 4) | (unsigned)h;
        }
        memcpy(r->base + i * w, &v, w); /* little endian */
    }
    return 0;
}

/* restore canaries over whatever the last op used; returns nothing */
static void scrub(void) {
    for (int k = 0; k < NREG; k++) {
        if (!R[k].used) continue;
        uint8_t *p = R[k].win + PAGE;
        for (size_t i = 0; i < MAPPED_PAGES * PAGE; i++) p[i] = canary((uintptr_t)(p + i));
        R[k].used = 0;
    }
}

/* check mapped bytes outside the used regions (and the whole window of unused ones that were
   dirtied) against the canary; print first difference */
static void check_canary(FILE *out) {
    for (int k = 0; k < NREG; k++) {
        if (!R[k].used) continue;
        uint8_t *p = R[k].win + PAGE;
        uint8_t *lo = R[k].base, *hi = R[k].base + R[k].n * R[k].w;
        for (size_t i = 0; i < MAPPED_PAGES * PAGE; i++) {
            uint8_t *q = p + i;
            if (q >= lo && q < hi) continue;
            if (*q != canary((uintptr_t)q)) {
                long off = (long)(q - R[k].base);
                /* floor division for negative offsets */
                long cell = off >= 0 ? off / R[k].w : -((-off + R[k].w - 1) / R[k].w);
                fprintf(out, " can=bad:R%d%+ld", k, cell);
                return;
            }
        }
    }
    fprintf(out, " can=ok");
}

static void print_ptr(FILE *out, const void *p) {
    if (!p) { fprintf(out, "null"); return; }
    uintptr_t x = (uintptr_t)p;
    for (int k = 0; k < NREG; k++) {
        uintptr_t w0 = (uintptr_t)R[k].win;
        if (R[k].used && x >= w0 && x < w0 + (MAPPED_PAGES + 2) * PAGE) {
            long off = (long)(x - (uintptr_t)R[k].base);
            if (off % R[k].w == 0) { fprintf(out, "R%d%+ld", k, off / R[k].w); return; }
        }
    }
    fprintf(out, "raw:%lx", (unsigned long)x);
}

static int parse_ptr(const char *s, void **out) {
    if (!strcmp(s, "null")) { *out = NULL; return 0; }
    if (s[0] == 'R') {
        char *e;
        long k = strtol(s + 1, &e, 10);
        if (k < 0 || k >= NREG || !R[k].used) return -1;
        long off = strtol(e, &e, 10);
        *out = R[k].base + off * R[k].w;
        return 0;
    }
    if (!strncmp(s, "raw:", 4)) { *out = (void *)strtoul(s + 4, NULL, 16); return 0; }
    return -1;
}

/* ------------------------------------------------------------------ dispatch */
#define P(i) (c->a[i].p)
#define N(i) (c->a[i].n)
#define I(i) ((int)c->a[i].n)
#define O(i) (&c->a[i].o)
typedef void (*callfn)(Call *);
typedef struct { const char *name; callfn fn; int retkind; const char *argk; } Entry;
#include "shims.h"
#include "dispatch.inc"

static const Entry *find_entry(const char *name) {
    for (size_t i = 0; i < sizeof entries / sizeof entries[0]; i++)
        if (!strcmp(entries[i].name, name)) return &entries[i];
    return NULL;
}

static void print_image(FILE *out) {
    int first = 1;
    fprintf(out, " img=");
    for (int k = 0; k < NREG; k++) {
        if (!R[k].used) continue;
        if (!first) fputc(';', out);
        first = 0;
        fprintf(out, "R%d:", k);
        for (size_t i = 0; i < R[k].n; i++) {
            unsigned long v = 0;
            memcpy(&v, R[k].base + i * R[k].w, R[k].w);
            fprintf(out, "%0*lx", 2 * R[k].w, v);
        }
    }
}

int main(int argc, char **argv) {
    static char line[1 << 20];
    const char *loc = argc > 1 ? argv[1] : "C";
    if (!setlocale(LC_ALL, loc)) { fprintf(stderr, "setlocale %s failed\n", loc); return 96; }
    setup_windows();

    /* alternate stack so that stack-protector / deep faults are still caught */
    static uint8_t altstack[1 << 16];
    stack_t ss = { .ss_sp = altstack, .ss_size = sizeof altstack, .ss_flags = 0 };
    sigaltstack(&ss, NULL);
    struct sigaction sa;
    memset(&sa, 0, sizeof sa);
    sa.sa_sigaction = on_fault;
    sa.sa_flags = SA_SIGINFO | SA_ONSTACK | SA_NODEFER;
    sigaction(SIGSEGV, &sa, NULL);
    sigaction(SIGBUS, &sa, NULL);

    set_str_constraint_handler_s(h_str);
    set_mem_constraint_handler_s(h_mem);

    FILE *out = stdout;
    setvbuf(out, NULL, _IOFBF, 1 << 20);

    FILE *ops = stdin;   /* a shim may swap `stdin` for the duration of a call (gets_s) */
    while (fgets(line, sizeof line, ops)) {
        char *id = NULL, *fn = NULL, *args = NULL;
        char *save = NULL;
        scrub();
        size_t L = strlen(line);
        while (L && (line[L - 1] == '\n' || line[L - 1] == '\r')) line[--L] = 0;
        if (!L) continue;
        int bad = 0;
        for (char *tok = strtok_r(line, " ", &save); tok; tok = strtok_r(NULL, " ", &save)) {
            char *eq = strchr(tok, '=');
            if (!eq) continue;
            *eq = 0;
            char *val = eq + 1;
            if (!strcmp(tok, "id")) id = val;
            else if (!strcmp(tok, "fn")) fn = val;
            else if (!strcmp(tok, "a")) args = val;
            else if (tok[0] == 'R' && tok[1] >= '0' && tok[1] <= '9') {
                int k = atoi(tok + 1);
                int w; unsigned long n; char fl;
                int used = 0;
                if (sscanf(val, "%d:%lu:%c:%n", &w, &n, &fl, &used) < 3 || k >= NREG) { bad = 1; continue; }
                if (place_region(k, w, n, fl, val + used)) bad = 1;
            }
        }
        if (!id) id = (char *)"?";
        const Entry *e = fn ? find_entry(fn) : NULL;
        if (bad || !e) { fprintf(out, "id=%s err=badop\n", id); continue; }
        Call c;
        memset(&c, 0, sizeof c);
        c.retkind = e->retkind;
        /* parse args per the entry's kind string */
        {
            char *s2 = NULL;
            int i = 0;
            for (char *t = args ? strtok_r(args, ",", &s2) : NULL; t && i < MAXARGS; t = strtok_r(NULL, ",", &s2), i++) {
                char k = e->argk[i];
                if (!k) { bad = 1; break; }
                c.a[i].kind = k;
                if (k == 'p') { if (parse_ptr(t, &c.a[i].p)) bad = 1; }
                else if (k == 'n' || k == 'i') {
                    if (!strcmp(t, "unk")) c.a[i].n = (unsigned long)-1;
                    else if (t[0] == '-') c.a[i].n = (unsigned long)strtol(t, NULL, 10);
                    else c.a[i].n = strtoul(t, NULL, 10);
                } else { /* out slots: 'I' int, 'N' size, 'Q' pointer, optionally with initial value */
                    c.a[i].o = (k == 'Q') ? 0x5a5a5a5a5a5a5a5aL : (k == 'I' ? 0x5a5a5a5a : 0x5a5a5a5a5a5a5a5aL);
                    if (strcmp(t, "_")) {
                        if (k == 'Q') { void *pp; if (parse_ptr(t, &pp)) bad = 1; c.a[i].o = (long)pp; }
                        else c.a[i].o = strtol(t, NULL, 10);
                        c.a[i].ok = 1;
                    }
                }
            }
            c.nargs = i;
            if ((int)strlen(e->argk) != i) bad = 1;
        }
        if (bad) { fprintf(out, "id=%s err=badargs\n", id); continue; }

        nev = 0;
        errno = 0;
        fprintf(out, "id=%s", id);
        if (sigsetjmp(jb, 1) == 0) {
            in_call = 1;
            e->fn(&c);
            in_call = 0;
            switch (c.retkind) {
            case 'p': fprintf(out, " ret="); print_ptr(out, (void *)c.ret); break;
            case 'n': fprintf(out, " ret=%lu", (unsigned long)c.ret); break;
            case 't': fprintf(out, " ret=%d", (int)(c.ret & 0xff) ? 1 : 0); break;
            default: fprintf(out, " ret=%d", (int)c.ret); break;
            }
        } else {
            in_call = 0;
            shim_restore_stdin();
            fprintf(out, " fault=%c:", fault_write ? 'w' : 'r');
            print_ptr(out, (void *)fault_addr);
        }
        fprintf(out, " o=");
        for (int i = 0; i < c.nargs; i++) {
            if (i) fputc(',', out);
            char k = c.a[i].kind;
            if (k == 'I') {
                int v = (int)c.a[i].o;
                if (v == 0x5a5a5a5a && !c.a[i].ok) fprintf(out, "_"); else fprintf(out, "%d", v);
            } else if (k == 'N') {
                if (c.a[i].o == 0x5a5a5a5a5a5a5a5aL && !c.a[i].ok) fprintf(out, "_"); else fprintf(out, "%lu", (unsigned long)c.a[i].o);
            } else if (k == 'Q') {
                if (c.a[i].o == 0x5a5a5a5a5a5a5a5aL && !c.a[i].ok) fprintf(out, "_"); else print_ptr(out, (void *)c.a[i].o);
            } else fputc('-', out);
        }
        fprintf(out, " ev=");
        for (int i = 0; i < nev && i < MAXEV; i++) fprintf(out, "%s%c:%d", i ? "," : "", ev_kind[i], ev_code[i]);
        if (nev > MAXEV) fprintf(out, ",more");
        print_image(out);
        check_canary(out);
        fputc('\n', out);
    }
    fflush(out);
    return 0;
}

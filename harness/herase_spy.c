/* herase_spy.c - the observer of the C18 assumption validator.
 *
 * Always compiled on its own (never with -flto), so that for the client it is "another translation unit":
 *   - spy_escape() receives the address of a buffer before the secret is written into it;
 *   - free() (interposed, together with a bump-pointer malloc) copies the content of every block that is being freed
 *     into g_heap_snap before releasing it - what an attacker / the next owner of the block would see;
 *   - g_sink / g_rc are sinks that keep the "use" of the secret and the return codes alive.
 */
#include <stddef.h>
#include <stdint.h>
#include <string.h>

#define SNAPMAX 2048

void *volatile g_spy;
volatile unsigned long g_sink;
volatile int g_rc;
unsigned char g_heap_snap[SNAPMAX];
volatile size_t g_heap_snap_len;
void *volatile g_heap_ptr;

void spy_escape(void *p) { g_spy = p; }

static unsigned char arena[1 << 22] __attribute__((aligned(64)));
static size_t top;

void *malloc(size_t n) {
    size_t need = (n + 16 + 63) & ~(size_t)63;
    if (top + need > sizeof arena)
        return 0;
    unsigned char *b = arena + top;
    top += need;
    *(size_t *)b = n;
    return b + 16;
}

void free(void *p) {
    if (!p)
        return;
    size_t n = *(size_t *)((unsigned char *)p - 16);
    if (n <= SNAPMAX) {
        volatile unsigned char *q = (volatile unsigned char *)p;
        for (size_t i = 0; i < n; i++)
            g_heap_snap[i] = q[i];
        g_heap_snap_len = n;
        g_heap_ptr = p;
    }
}

void *calloc(size_t a, size_t b) {
    void *p = malloc(a * b);
    if (p)
        memset(p, 0, a * b);
    return p;
}

void *realloc(void *p, size_t n) {
    void *q = malloc(n);
    if (p && q) {
        size_t o = *(size_t *)((unsigned char *)p - 16);
        memcpy(q, p, o < n ? o : n);
    }
    return q;
}

/* hpntz.c - C16: function-level replay of the static helper pntz() of src/misc/qsort_s.c.
 *
 * The translation unit is #included (as harness/hnormdump.c does with the normalization sources), so the pntz/ntz that
 * run here are what the compiler makes of the CURRENT tree's source, built with the library's own flags (tools/p16.py
 * passes buildlib's cflags: -O0 -DHAVE_CONFIG_H ...).  This ties the kernel-checked witness `pntz {1,1} = 0`
 * (Props/C16 qsort_safe_witness; finding qsort_s-pntz-gap-64) to the code: the whole-call witness needs an array of
 * leo(65)+1 = 55 555 780 070 576 elements and cannot be built.
 *
 * One op per input line:  id=<n> pntz=1 lo=<p[0], decimal> hi=<p[1], decimal>   ->   id=<n> r=<pntz(p)>
 * First output line: id=info ntz=<builtin|table> wordbits=<8*sizeof(size_t)>
 */
#include "misc/qsort_s.c"
#include <stdio.h>
#include <stdlib.h>
#include <string.h>

static const char *tok(const char *line, const char *key, char *buf, size_t n) {
    size_t kl = strlen(key);
    const char *p = line;
    while (*p) {
        while (*p == ' ')
            p++;
        if (!strncmp(p, key, kl) && p[kl] == '=') {
            size_t i = 0;
            p += kl + 1;
            while (*p && *p != ' ' && *p != '\n' && i + 1 < n)
                buf[i++] = *p++;
            buf[i] = 0;
            return buf;
        }
        while (*p && *p != ' ')
            p++;
    }
    return NULL;
}

int main(void) {
    char line[512], a[64], b[64], id[64];
#ifdef HAVE___BUILTIN_CTZ
    printf("id=info ntz=builtin wordbits=%d\n", (int)(8 * sizeof(size_t)));
#else
    printf("id=info ntz=table wordbits=%d\n", (int)(8 * sizeof(size_t)));
#endif
    while (fgets(line, sizeof line, stdin)) {
        size_t p[2];
        if (!tok(line, "id", id, sizeof id) || !tok(line, "lo", a, sizeof a) || !tok(line, "hi", b, sizeof b))
            continue;
        p[0] = (size_t)strtoull(a, NULL, 10);
        p[1] = (size_t)strtoull(b, NULL, 10);
        printf("id=%s r=%d\n", id, pntz(p));
    }
    return 0;
}

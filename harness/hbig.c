/* hbig.c - C18: erase calls on objects of 2^32 + 2 elements whose size the caller knows (destbos given).
 *
 * The object is a PROT_NONE reservation of 17 GB in which only the first page and the pages holding element n-1 (for the
 * three element widths) are accessible: a library that writes n mod 2^32 = 2 elements (the pinned tree) touches one page; a
 * library that really walks all n elements faults on the second page, which is reported as ret=walks (it cannot be checked
 * to the end here, and it is not the defect this probe looks for).  memzero_s is left out (explicit_bzero: libc).
 * One line per probe:  probe=<fn> fn=<fn> ret=<code|walks> c0 c1 c2 clast want   (cells 0,1,2 and n-1 after the call)
 */
#define _GNU_SOURCE
#include <setjmp.h>
#include <signal.h>
#include <stdint.h>
#include <stdio.h>
#include <string.h>
#include <sys/mman.h>

#include "safe_mem_lib.h"

static sigjmp_buf jb;
static void on_segv(int sig) { (void)sig; siglongjmp(jb, 1); }
static void h_ignore(const char *msg, void *ptr, errno_t err) { (void)msg; (void)ptr; (void)err; }

#define PROBE(NAME, T, FMT, CALL, SEED, WANT)                                                              \
    do {                                                                                                   \
        T *x = (T *)p;                                                                                     \
        x[0] = x[1] = x[2] = (T)SEED; x[n - 1] = (T)SEED;                                                  \
        if (sigsetjmp(jb, 1) == 0) {                                                                       \
            int rc = CALL;                                                                                 \
            printf("probe=" NAME " fn=" NAME " ret=%d c0=" FMT " c1=" FMT " c2=" FMT " clast=" FMT " want=" WANT "\n", rc, \
                   x[0], x[1], x[2], x[n - 1]);                                                            \
        } else                                                                                             \
            printf("probe=" NAME " fn=" NAME " ret=walks c0=" FMT " c1=" FMT " c2=" FMT " clast=" FMT " want=" WANT "\n", \
                   x[0], x[1], x[2], x[n - 1]);                                                            \
    } while (0)

int main(void) {
    size_t n = (1UL << 32) + 2;
    size_t sz = n * 4 + 8192;
    unsigned char *p = mmap(0, sz, PROT_NONE, MAP_PRIVATE | MAP_ANONYMOUS | MAP_NORESERVE, -1, 0);
    if (p == MAP_FAILED) { perror("mmap"); return 3; }
    mprotect(p, 4096, PROT_READ | PROT_WRITE);
    for (int w = 1; w <= 4; w *= 2) {
        size_t off = ((n - 1) * w) & ~(size_t)4095;
        mprotect(p + off, 8192, PROT_READ | PROT_WRITE);
    }
    struct sigaction sa;
    memset(&sa, 0, sizeof sa);
    sa.sa_handler = on_segv;
    sigaction(SIGSEGV, &sa, 0);
    set_mem_constraint_handler_s(h_ignore);

    PROBE("memset_s", uint8_t, "%02x", _memset_s_chk(p, n, 0xA7, n, n), 0x55, "a7");
    PROBE("memset16_s", uint16_t, "%04x", _memset16_s_chk((uint16_t *)p, 2 * n, 0xA7A7, n, 2 * n), 0x5555, "a7a7");
    PROBE("memset32_s", uint32_t, "%08x", _memset32_s_chk((uint32_t *)p, 4 * n, 0xA7A7A7A7, n, 4 * n), 0x55555555, "a7a7a7a7");
    PROBE("memzero16_s", uint16_t, "%04x", _memzero16_s_chk((uint16_t *)p, n, 2 * n), 0x5555, "0000");
    PROBE("memzero32_s", uint32_t, "%08x", _memzero32_s_chk((uint32_t *)p, n, 4 * n), 0x55555555, "00000000");
    return 0;
}

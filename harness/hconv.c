/* hconv.c -- C15 harness: the six multibyte/wide converters against plain glibc.
 *
 * stdin : one op per line, key=value tokens
 *    id=<n> conv=<mbstowcs_s|mbsrtowcs_s|wcstombs_s|wcsrtombs_s|wcrtomb_s|wctomb_s|L_*> loc=<C|U>
 *    dest=<-|z|hex,hex,..>   initial PHYSICAL cells of dest ("-" = NULL pointer); the object ends at a PROT_NONE page
 *    dmax=<n> len=<n> src=<-|z|hex,..> (cells before the terminator) wc=<hex> bos=<-|bytes> ps=<z|pending bytes>
 *    rvn=1 (retvalp NULL) spn=1 (srcp NULL) psn=1 (ps NULL) alias=1 (source pointer == dest) errno=<n>
 * stdout: one observation per op
 *    id=<n> ret=<errno_t> rv=<ns|value> dest=<cells|-> fault=<0|1> fa=<guard|null|other|-> src=<-1|offset in cells>
 *       st=<count>:<value hex> ev=<handler codes> can=<ok|bad> errno=<n>
 *       lr=<libc return with n=len on a private buffer> lout=<cells it stored> lsrc= lst=      (reference 1)
 *       cr= cout= csrc= cst=   the same with n = min(len, dmax)                                     (reference 2)
 *       qr=<libc return with a NULL destination>                                                    (reference 3)
 * L_* ops run the plain libc function only (validation of the Lean models of glibc).
 */
#define _GNU_SOURCE
#include <stdio.h>
#include <stdlib.h>
#include <string.h>
#include <stdint.h>
#include <signal.h>
#include <setjmp.h>
#include <unistd.h>
#include <wchar.h>
#include <locale.h>
#include <errno.h>
#include <limits.h>
#include <sys/mman.h>
#include "safe_lib.h"
#include "safe_str_lib.h"

extern errno_t _mbstowcs_s_chk(size_t *, wchar_t *, rsize_t, const char *, rsize_t, size_t);
extern errno_t _mbsrtowcs_s_chk(size_t *, wchar_t *, rsize_t, const char **, rsize_t, mbstate_t *, size_t);
extern errno_t _wcstombs_s_chk(size_t *, char *, rsize_t, const wchar_t *, rsize_t, size_t);
extern errno_t _wcsrtombs_s_chk(size_t *, char *, rsize_t, const wchar_t **, rsize_t, mbstate_t *, size_t);
extern errno_t _wcrtomb_s_chk(size_t *, char *, rsize_t, wchar_t, mbstate_t *, size_t);
extern errno_t _wctomb_s_chk(int *, char *, rsize_t, wchar_t, size_t);

#define MAXC 4400
#define ARENA (16 * 4096)
#define CANARY 256
#define SENT 0x5A5A5A5A5A5A5A5AULL
static unsigned char *arena, *guard;
static sigjmp_buf jb;
static volatile int in_call;
static volatile uintptr_t fault_addr;
static int evn, evc[16];

static void on_segv(int sig, siginfo_t *si, void *u) {
    (void)sig; (void)u;
    if (!in_call) _exit(97);
    fault_addr = (uintptr_t)si->si_addr;
    siglongjmp(jb, 1);
}
static void handler(const char *msg, void *ptr, errno_t err) {
    (void)msg; (void)ptr;
    if (evn < 16) evc[evn] = err;
    evn++;
}
static char *tok(char *line, const char *key, char *buf, size_t n) {
    size_t kl = strlen(key);
    char *p = line;
    while ((p = strstr(p, key)) != NULL) {
        if ((p == line || p[-1] == ' ') && p[kl] == '=') {
            p += kl + 1;
            size_t i = 0;
            while (p[i] && p[i] != ' ' && p[i] != '\n' && i + 1 < n) { buf[i] = p[i]; i++; }
            buf[i] = 0;
            return buf;
        }
        p += kl;
    }
    return NULL;
}
/* returns -1 for "-" (NULL), else the number of cells */
static long cells(char *line, const char *key, uint32_t *out, long max) {
    static char buf[MAXC * 9 + 16];
    if (!tok(line, key, buf, sizeof buf) || !strcmp(buf, "-")) return -1;
    if (!strcmp(buf, "z")) return 0;
    long n = 0;
    char *p = buf;
    while (*p && n < max) {
        out[n++] = (uint32_t)strtoul(p, &p, 16);
        if (*p == ',') p++;
    }
    return n;
}
static unsigned long num(char *line, const char *key, unsigned long dflt) {
    char b[64];
    if (!tok(line, key, b, sizeof b) || !strcmp(b, "-")) return dflt;
    return strtoul(b, NULL, 10);
}
static void pcells8(const char *k, const unsigned char *p, long n) {
    printf(" %s=", k);
    if (n <= 0) { printf("z"); return; }
    for (long i = 0; i < n; i++) printf(i ? ",%x" : "%x", p[i]);
}
static void pcells32(const char *k, const uint32_t *p, long n) {
    printf(" %s=", k);
    if (n <= 0) { printf("z"); return; }
    for (long i = 0; i < n; i++) printf(i ? ",%x" : "%x", p[i]);
}
static void pstate(const char *k, const mbstate_t *ps) { printf(" %s=%d:%x", k, ps->__count, (unsigned)ps->__value.__wch); }
static void mkstate(mbstate_t *ps, const uint32_t *pend, long n) {
    memset(ps, 0, sizeof *ps);
    if (n > 0) {
        char b[8];
        wchar_t w;
        for (long i = 0; i < n && i < 8; i++) b[i] = (char)pend[i];
        mbrtowc(&w, b, (size_t)n, ps);
    }
}

static uint32_t dcells[MAXC], scells[MAXC], pcellsbuf[16];
static char srcb[MAXC + 8];
static wchar_t srcw[MAXC + 8];
/* private buffers for the reference runs, two fill patterns to see which cells were stored */
static uint32_t refw[2][MAXC + 8];
static unsigned char refb[2][MAXC + 8];

/* plain libc into private buffers; prints <p>r <p>out <p>src <p>st */
static void ref_mb2wc(const char *pfx, int restart, size_t n, const uint32_t *pend, long npend) {
    size_t r[2];
    long so[2];
    mbstate_t st[2];
    char k[16];
    if (n > MAXC) { printf(" %sr=skip", pfx); return; }
    for (int v = 0; v < 2; v++) {
        for (size_t i = 0; i < n + 2; i++) refw[v][i] = v ? 0xA5A5A5A5u : 0x5A5A5A5Au;
        const char *p = srcb;
        mkstate(&st[v], pend, npend);
        errno = 0;
        r[v] = restart ? mbsrtowcs((wchar_t *)refw[v], &p, n, &st[v]) : mbstowcs((wchar_t *)refw[v], srcb, n);
        so[v] = restart ? (p ? (long)(p - srcb) : -1) : 0;
    }
    long w = 0;
    while ((size_t)w < n + 1 && refw[0][w] == refw[1][w]) w++;
    snprintf(k, sizeof k, "%sr", pfx); printf(" %s=%lu", k, (unsigned long)r[0]);
    snprintf(k, sizeof k, "%sout", pfx); pcells32(k, refw[0], w);
    printf(" %ssrc=%ld", pfx, so[0]);
    snprintf(k, sizeof k, "%sst", pfx); pstate(k, &st[0]);
}
static void ref_wc2mb(const char *pfx, int restart, size_t n) {
    size_t r[2];
    long so[2];
    mbstate_t st[2];
    char k[16];
    if (n > MAXC) { printf(" %sr=skip", pfx); return; }
    for (int v = 0; v < 2; v++) {
        memset(refb[v], v ? 0xA5 : 0x5A, n + 2);
        const wchar_t *p = srcw;
        memset(&st[v], 0, sizeof st[v]);
        errno = 0;
        r[v] = restart ? wcsrtombs((char *)refb[v], &p, n, &st[v]) : wcstombs((char *)refb[v], srcw, n);
        so[v] = restart ? (p ? (long)(p - srcw) : -1) : 0;
    }
    long w = 0;
    while ((size_t)w < n + 1 && refb[0][w] == refb[1][w]) w++;
    snprintf(k, sizeof k, "%sr", pfx); printf(" %s=%lu", k, (unsigned long)r[0]);
    snprintf(k, sizeof k, "%sout", pfx); pcells8(k, refb[0], w);
    printf(" %ssrc=%ld", pfx, so[0]);
    snprintf(k, sizeof k, "%sst", pfx); pstate(k, &st[0]);
}

int main(int argc, char **argv) {
    static char line[MAXC * 20 + 512];
    char fn[64], b[64], curloc[8] = "";
    arena = mmap(NULL, ARENA + 4096, PROT_READ | PROT_WRITE, MAP_PRIVATE | MAP_ANONYMOUS, -1, 0);
    if (arena == MAP_FAILED) return 2;
    guard = arena + ARENA;
    mprotect(guard, 4096, PROT_NONE);
    struct sigaction sa;
    memset(&sa, 0, sizeof sa);
    sa.sa_sigaction = on_segv;
    sa.sa_flags = SA_SIGINFO | SA_NODEFER;
    sigaction(SIGSEGV, &sa, NULL);
    sigaction(SIGBUS, &sa, NULL);
    set_str_constraint_handler_s(handler);
    set_mem_constraint_handler_s(handler);
    setvbuf(stdout, NULL, _IOFBF, 1 << 16);

    /* prime=C | prime=U: before the first op every entry point is called once, successfully, in that locale.  Whatever a
       function remembers from its first call (a cached MB_CUR_MAX, a lazily built table) is then remembered from THAT locale;
       the runner compares the observations of a primed and an unprimed process line by line. */
    if (argc > 1 && !strncmp(argv[1], "prime=", 6)) {
        static char pb[16]; static wchar_t pw[16];
        size_t rv; int rvi; const char *sp = "a"; const wchar_t *wp = L"a"; mbstate_t ps;
        if (!setlocale(LC_ALL, argv[1][6] == 'U' ? "C.UTF-8" : "C")) return 3;
        memset(&ps, 0, sizeof ps);
        _mbstowcs_s_chk(&rv, pw, 8, "a", 1, (size_t)-1);
        _mbsrtowcs_s_chk(&rv, pw, 8, &sp, 1, &ps, (size_t)-1);
        _wcstombs_s_chk(&rv, pb, 8, L"a", 1, (size_t)-1);
        _wcsrtombs_s_chk(&rv, pb, 8, &wp, 1, &ps, (size_t)-1);
        _wcrtomb_s_chk(&rv, pb, 8, L'a', &ps, (size_t)-1);
        _wctomb_s_chk(&rvi, pb, 8, L'a', (size_t)-1);
    }

    while (fgets(line, sizeof line, stdin)) {
        if (!tok(line, "conv", fn, sizeof fn)) continue;
        unsigned long id = num(line, "id", 0);
        tok(line, "loc", b, sizeof b);
        if (strcmp(b, curloc)) {
            if (!setlocale(LC_ALL, b[0] == 'U' ? "C.UTF-8" : "C")) { printf("id=%lu err=nolocale\n", id); continue; }
            strcpy(curloc, b);
        }
        int wide_dest = !strcmp(fn, "mbstowcs_s") || !strcmp(fn, "mbsrtowcs_s");
        int mbsrc = wide_dest || !strcmp(fn, "L_mbsrtowcs") || !strcmp(fn, "L_mbstowcs") || !strcmp(fn, "L_dec");
        long cap = cells(line, "dest", dcells, MAXC);
        long ns = cells(line, "src", scells, MAXC);
        long npend = cells(line, "ps", pcellsbuf, 8);
        if (npend < 0) npend = 0;
        size_t dmax = num(line, "dmax", 0), len = num(line, "len", 0), bos = num(line, "bos", (size_t)-1);
        unsigned long wc = 0;
        if (tok(line, "wc", b, sizeof b)) wc = strtoul(b, NULL, 16);
        int rvn = num(line, "rvn", 0), spn = num(line, "spn", 0), psn = num(line, "psn", 0), alias = num(line, "alias", 0);
        int errno0 = (int)num(line, "errno", 0);
        for (long i = 0; i < (ns < 0 ? 0 : ns); i++) { srcb[i] = (char)scells[i]; srcw[i] = (wchar_t)scells[i]; }
        srcb[ns < 0 ? 0 : ns] = 0; srcw[ns < 0 ? 0 : ns] = 0;

        /* ---- plain libc ops: validation of the Lean models of glibc */
        if (fn[0] == 'L') {
            printf("id=%lu", id);
            if (!strcmp(fn, "L_dec")) {
                mbstate_t st; memset(&st, 0, sizeof st);
                wchar_t w = 0x5a5a;
                errno = 0;
                size_t r = mbrtowc(&w, srcb, (size_t)ns, &st);
                if (r == (size_t)-1 || r == (size_t)-2) printf(" r=%ld wc=-", (long)r); else printf(" r=%lu wc=%x", (unsigned long)r, (unsigned)w);
            } else if (!strcmp(fn, "L_wcrtomb") || !strcmp(fn, "L_wctomb")) {
                unsigned char o[2][16];
                long r[2]; int e = 0;
                for (int v = 0; v < 2; v++) {
                    memset(o[v], v ? 0xA5 : 0x5A, 16);
                    mbstate_t st; memset(&st, 0, sizeof st);
                    errno = 0;
                    if (fn[4] == 'r') r[v] = (long)wcrtomb(cap < 0 ? NULL : (char *)o[v], (wchar_t)wc, &st);
                    else r[v] = wctomb(cap < 0 ? NULL : (char *)o[v], (wchar_t)wc);
                    e = errno == EILSEQ;
                }
                long w = 0; while (w < 16 && o[0][w] == o[1][w]) w++;
                if (fn[4] == 'r') printf(" r=%lu", (unsigned long)r[0]); else printf(" r=%ld", r[0]);
                pcells8("out", o[0], w); printf(" e=%d", e);
            } else {
                int restart = !strcmp(fn, "L_mbsrtowcs") || !strcmp(fn, "L_wcsrtombs");
                if (cap < 0) {
                    mbstate_t st; mkstate(&st, pcellsbuf, mbsrc ? npend : 0);
                    errno = 0; size_t r; long so = 0;
                    if (mbsrc) { const char *p = srcb; r = restart ? mbsrtowcs(NULL, &p, len, &st) : mbstowcs(NULL, srcb, len); so = p ? p - srcb : -1; }
                    else { const wchar_t *p = srcw; r = restart ? wcsrtombs(NULL, &p, len, &st) : wcstombs(NULL, srcw, len); so = p ? p - srcw : -1; }
                    printf(" r=%lu out=z src=%ld", (unsigned long)r, so); pstate("st", &st); printf(" e=%d", errno == EILSEQ);
                } else {
                    if (mbsrc) ref_mb2wc("", restart, len, pcellsbuf, npend); else ref_wc2mb("", restart, len);
                    printf(" e=%d", errno == EILSEQ);
                }
            }
            printf("\n");
            continue;
        }

        /* ---- the wrappers */
        size_t esz = wide_dest ? 4 : 1;
        unsigned char *dest = NULL;
        if (cap >= 0) {
            dest = guard - (size_t)cap * esz;
            memset(dest - CANARY, 0xC3, CANARY);
            for (long i = 0; i < cap; i++) {
                if (wide_dest) ((uint32_t *)dest)[i] = dcells[i]; else dest[i] = (unsigned char)dcells[i];
            }
        }
        size_t rv = SENT;
        int rvi = 0x5A5A5A5A;
        mbstate_t ps;
        mkstate(&ps, pcellsbuf, npend);
        const char *sp = ns < 0 ? NULL : srcb;
        const wchar_t *wp = ns < 0 ? NULL : srcw;
        if (alias && dest) { sp = (const char *)dest; wp = (const wchar_t *)dest; }
        const char *sp0 = sp; const wchar_t *wp0 = wp;
        errno_t ret = 0;
        evn = 0;
        fault_addr = 0;
        int faulted = 0;
        if (sigsetjmp(jb, 1) == 0) {
            in_call = 1;
            errno = errno0;
            if (!strcmp(fn, "mbstowcs_s")) ret = _mbstowcs_s_chk(rvn ? NULL : &rv, (wchar_t *)dest, dmax, sp, len, bos);
            else if (!strcmp(fn, "mbsrtowcs_s")) ret = _mbsrtowcs_s_chk(rvn ? NULL : &rv, (wchar_t *)dest, dmax, spn ? NULL : &sp, len, psn ? NULL : &ps, bos);
            else if (!strcmp(fn, "wcstombs_s")) ret = _wcstombs_s_chk(rvn ? NULL : &rv, (char *)dest, dmax, wp, len, bos);
            else if (!strcmp(fn, "wcsrtombs_s")) ret = _wcsrtombs_s_chk(rvn ? NULL : &rv, (char *)dest, dmax, spn ? NULL : &wp, len, psn ? NULL : &ps, bos);
            else if (!strcmp(fn, "wcrtomb_s")) ret = _wcrtomb_s_chk(rvn ? NULL : &rv, (char *)dest, dmax, (wchar_t)wc, psn ? NULL : &ps, bos);
            else if (!strcmp(fn, "wctomb_s")) ret = _wctomb_s_chk(rvn ? NULL : &rvi, (char *)dest, dmax, (wchar_t)wc, bos);
            else { in_call = 0; printf("id=%lu err=nofn\n", id); continue; }
        } else {
            faulted = 1;
        }
        int errno1 = errno;
        in_call = 0;
        printf("id=%lu ret=%d", id, faulted ? -1 : (int)ret);
        if (!strcmp(fn, "wctomb_s")) { if (rvi == 0x5A5A5A5A) printf(" rv=ns"); else printf(" rv=%lu", (unsigned long)(size_t)(long)rvi); }
        else { if (rv == SENT) printf(" rv=ns"); else printf(" rv=%lu", (unsigned long)rv); }
        if (cap < 0) printf(" dest=-"); else if (wide_dest) pcells32("dest", (uint32_t *)dest, cap); else pcells8("dest", dest, cap);
        const char *fa = "-";
        if (faulted) fa = (fault_addr >= (uintptr_t)guard && fault_addr < (uintptr_t)guard + 4096) ? "guard" : fault_addr < 65536 ? "null" : "other";
        printf(" fault=%d fa=%s", faulted, fa);
        long so = 0;
        if (!strcmp(fn, "mbsrtowcs_s")) so = sp ? (long)(sp - sp0) : -1;
        if (!strcmp(fn, "wcsrtombs_s")) so = wp ? (long)(wp - wp0) : -1;
        if (spn || ns < 0) so = ns < 0 && !spn && (!strcmp(fn, "mbsrtowcs_s") || !strcmp(fn, "wcsrtombs_s")) ? -1 : 0;
        printf(" src=%ld", so);
        pstate("st", &ps);
        printf(" ev=");
        for (int i = 0; i < evn && i < 16; i++) printf(i ? ",%d" : "%d", evc[i]);
        int can = 1;
        if (dest) for (int i = 1; i <= CANARY; i++) if (dest[-i] != 0xC3) can = 0;
        printf(" can=%s errno=%d", can ? "ok" : "bad", errno1);
        /* ---- references: plain libc on private copies */
        if (ns >= 0 && !alias && strcmp(fn, "wcrtomb_s") && strcmp(fn, "wctomb_s")) {
            int restart = !strcmp(fn, "mbsrtowcs_s") || !strcmp(fn, "wcsrtombs_s");
            size_t nclamp = len < dmax ? len : dmax;
            if (wide_dest) {
                ref_mb2wc("l", restart, len, pcellsbuf, npend);
                ref_mb2wc("c", restart, nclamp, pcellsbuf, npend);
                mbstate_t st; mkstate(&st, pcellsbuf, restart ? npend : 0);
                const char *p = srcb; errno = 0;
                size_t q = restart ? mbsrtowcs(NULL, &p, 0, &st) : mbstowcs(NULL, srcb, 0);
                printf(" qr=%lu", (unsigned long)q);
            } else {
                ref_wc2mb("l", restart, len);
                ref_wc2mb("c", restart, nclamp);
                mbstate_t st; memset(&st, 0, sizeof st);
                const wchar_t *p = srcw; errno = 0;
                size_t q = restart ? wcsrtombs(NULL, &p, 0, &st) : wcstombs(NULL, srcw, 0);
                printf(" qr=%lu", (unsigned long)q);
            }
        } else if (!strcmp(fn, "wcrtomb_s") || !strcmp(fn, "wctomb_s")) {
            unsigned char o[2][16]; long r[2];
            for (int v = 0; v < 2; v++) {
                memset(o[v], v ? 0xA5 : 0x5A, 16);
                mbstate_t st; memset(&st, 0, sizeof st);
                errno = 0;
                if (fn[2] == 'r') r[v] = (long)wcrtomb(cap < 0 ? NULL : (char *)o[v], (wchar_t)wc, &st);
                else r[v] = wctomb(cap < 0 ? NULL : (char *)o[v], (wchar_t)wc);
            }
            long w = 0; while (w < 16 && o[0][w] == o[1][w]) w++;
            printf(" lr=%lu", (unsigned long)(size_t)r[0]); pcells8("lout", o[0], w);
        }
        printf("\n");
    }
    fflush(stdout);
    return 0;
}

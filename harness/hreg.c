/* hreg.c - C13: executes registration histories with real threads, one fresh process per history.
 *
 * stdin : id=<n> ops=<op>,<op>,...
 *   S<t><k><h>  set_{str|mem}_constraint_handler_s(h) called by thread t   (k = s|m, h = -|1|2|3; - is NULL)
 *   T<t><k><h>  thrd_set_...(h) called by thread t
 *   V<t><k>     a violating call of kind k on thread t
 *   P<p>:<c>    thread p creates thread c
 * stdout: id=<n> out=<o>,<o>,...   p<h> previous handler returned (- NULL, 0 ignore_handler_s, 1..3), r<h> handler that ran, n nothing
 * Threads are serialised with semaphores in history order, so every history is one interleaving.
 */
#define _GNU_SOURCE
#include <pthread.h>
#include <semaphore.h>
#include <stdio.h>
#include <stdlib.h>
#include <string.h>
#include <sys/wait.h>
#include <unistd.h>
#include "safe_lib.h"
#include "safe_str_lib.h"
#include "safe_mem_lib.h"

#define MAXT 8
static _Thread_local int ran;
static void h1(const char *m, void *p, errno_t e) { (void)m; (void)p; (void)e; ran = 1; }
static void h2(const char *m, void *p, errno_t e) { (void)m; (void)p; (void)e; ran = 2; }
static void h3(const char *m, void *p, errno_t e) { (void)m; (void)p; (void)e; ran = 3; }
static constraint_handler_t hs[4] = { NULL, h1, h2, h3 };

typedef struct { pthread_t th; sem_t go, done; char op[16]; char res[8]; int alive; int quit; } Thr;
static Thr T[MAXT];

static char hid(constraint_handler_t h) {
    if (h == NULL) return '-';
    if (h == ignore_handler_s) return '0';
    for (int i = 1; i < 4; i++) if (h == hs[i]) return (char)('0' + i);
    return '?';
}

static void *worker(void *arg);

static void exec_op(const char *op, char *res) {
    int k = 0;
    constraint_handler_t h, prev;
    switch (op[0]) {
    case 'S': case 'T':
        k = op[2];
        h = op[3] == '-' ? NULL : hs[op[3] - '0'];
        if (op[0] == 'S') prev = k == 's' ? set_str_constraint_handler_s(h) : set_mem_constraint_handler_s(h);
        else prev = k == 's' ? thrd_set_str_constraint_handler_s(h) : thrd_set_mem_constraint_handler_s(h);
        res[0] = 'p'; res[1] = hid(prev); res[2] = 0;
        break;
    case 'V':
        ran = 0;
        if (op[2] == 's') _strcpy_s_chk(NULL, 0, NULL, (size_t)-1);
        else _memcpy_s_chk(NULL, 1, NULL, 1, (size_t)-1, (size_t)-1);
        res[0] = 'r'; res[1] = (char)('0' + ran); res[2] = 0;
        break;
    case 'P': {
        int c = op[3] - '0';
        sem_init(&T[c].go, 0, 0); sem_init(&T[c].done, 0, 0);
        T[c].alive = 1; T[c].quit = 0;
        pthread_create(&T[c].th, NULL, worker, &T[c]);
        res[0] = 'n'; res[1] = 0;
        break;
    }
    default: res[0] = '?'; res[1] = 0;
    }
}

static void *worker(void *arg) {
    Thr *t = (Thr *)arg;
    for (;;) {
        sem_wait(&t->go);
        if (t->quit) break;
        exec_op(t->op, t->res);
        sem_post(&t->done);
    }
    return NULL;
}

static void run_history(const char *id, char *ops) {
    /* thread 0 is created by the controlling (main) thread, which takes no other part */
    memset(T, 0, sizeof T);
    sem_init(&T[0].go, 0, 0); sem_init(&T[0].done, 0, 0);
    T[0].alive = 1;
    pthread_create(&T[0].th, NULL, worker, &T[0]);
    printf("id=%s out=", id);
    int first = 1;
    char *save = NULL;
    for (char *op = strtok_r(ops, ",", &save); op; op = strtok_r(NULL, ",", &save)) {
        int t = op[1] - '0';
        if (t < 0 || t >= MAXT || !T[t].alive) { printf("%sx", first ? "" : ","); first = 0; continue; }
        strncpy(T[t].op, op, sizeof T[t].op - 1);
        sem_post(&T[t].go);
        sem_wait(&T[t].done);
        printf("%s%s", first ? "" : ",", T[t].res);
        first = 0;
    }
    printf("\n");
    fflush(stdout);
}

int main(void) {
    static char line[1 << 16];
    while (fgets(line, sizeof line, stdin)) {
        char *id = NULL, *ops = NULL, *save = NULL;
        size_t L = strlen(line);
        while (L && (line[L - 1] == '\n' || line[L - 1] == '\r')) line[--L] = 0;
        for (char *tok = strtok_r(line, " ", &save); tok; tok = strtok_r(NULL, " ", &save)) {
            if (!strncmp(tok, "id=", 3)) id = tok + 3;
            else if (!strncmp(tok, "ops=", 4)) ops = tok + 4;
        }
        if (!id || !ops) continue;
        fflush(stdout);
        pid_t pid = fork();
        if (pid == 0) { run_history(id, ops); _exit(0); }
        int st;
        waitpid(pid, &st, 0);
        if (!WIFEXITED(st) || WEXITSTATUS(st)) { printf("id=%s crash=%d\n", id, st); fflush(stdout); }
    }
    return 0;
}

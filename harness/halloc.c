/* halloc.c -- C20 harness: fail the k-th allocation request made by the library.
 *
 * Linked with  -Wl,--wrap=malloc,--wrap=calloc,--wrap=realloc,--wrap=free  against the objects built
 * from the current tree, so that exactly the allocation calls written in the library's own sources go
 * through the wrappers below (libc-internal allocations -- stdio buffers, qsort scratch, vfwprintf work
 * areas -- are not the library's and are left alone).  The wrappers act only while a library call is
 * in flight (`armed`); the harness's own allocations use __real_*.
 *
 * stdin : one op per line   id=<n> fn=<entry point> fail=<i,j,..|-> ...parameters...
 * stdout: one observation per op
 *    id=<n> sig=<0|signal> fa=<null|low|other|-> ret=<int> hn=<handler calls> hc=<last handler code>
 *       d0=<dest[0]==0> dall=<all dmax cells 0> out=<live blocks at return> bad=<invalid frees>
 *       n=<allocation requests> seq=<events> sites=<return addresses of the requests> sz=<sizes>
 * events: M<i>+ / M<i>-  malloc request number i succeeded / was failed
 *         R<i>:<b>+ / R<i>:<b>-  realloc request i of block b (n = NULL) ...; on success block b dies, block i lives
 *         F<b> free of block b; Fn free(NULL); F? free of a pointer that is not a live block
 * Every op runs in a forked child; the record lives in a MAP_SHARED page so that it survives a crash.
 */
#define _GNU_SOURCE
#include <stdio.h>
#include <stdlib.h>
#include <string.h>
#include <stdarg.h>
#include <stdint.h>
#include <signal.h>
#include <unistd.h>
#include <wchar.h>
#include <errno.h>
#include <fcntl.h>
#include <sys/mman.h>
#include <sys/wait.h>
#include "safe_lib.h"
#include "safe_str_lib.h"

extern void *__real_malloc(size_t);
extern void *__real_calloc(size_t, size_t);
extern void *__real_realloc(void *, size_t);
extern void __real_free(void *);

#define MAXEV 256
#define MAXLIVE 64
#define MAXFAIL 16
typedef struct {
    int done, sig, fa;
    long ret;
    int hn, hc;
    int d0, dall;
    int out, bad, nreq, nev;
    char ev[MAXEV][24];
    unsigned long site[MAXEV];
    unsigned long sz[MAXEV];
    unsigned long lenp;
    int result;
} Rec;
static Rec *R;

static volatile int armed;
static int nfail, failat[MAXFAIL];
static struct { void *p; int id; } live[MAXLIVE];
static int nlive;

static int must_fail(int idx) {
    for (int i = 0; i < nfail; i++)
        if (failat[i] == idx)
            return 1;
    return 0;
}
static void evf(const char *fmt, ...) {
    if (R->nev >= MAXEV)
        return;
    va_list ap;
    va_start(ap, fmt);
    vsnprintf(R->ev[R->nev], sizeof R->ev[0], fmt, ap);
    va_end(ap);
    R->nev++;
}
static int find_live(void *p) {
    for (int i = 0; i < nlive; i++)
        if (live[i].p == p)
            return i;
    return -1;
}
static void add_live(void *p, int id) {
    if (nlive < MAXLIVE) {
        live[nlive].p = p;
        live[nlive].id = id;
        nlive++;
    }
    R->out = nlive;
}
static void del_live(int i) {
    live[i] = live[--nlive];
    R->out = nlive;
}

void *__wrap_malloc(size_t n) {
    if (!armed)
        return __real_malloc(n);
    armed = 0;
    int idx = R->nreq++;
    void *p = NULL;
    if (idx < MAXEV) {
        R->site[idx] = (unsigned long)__builtin_return_address(0);
        R->sz[idx] = n;
    }
    if (must_fail(idx)) {
        evf("M%d-", idx);
        errno = ENOMEM;
    } else {
        p = __real_malloc(n ? n : 1);
        memset(p, 0xA5, n); /* fresh memory is not zero */
        add_live(p, idx);
        evf("M%d+", idx);
    }
    armed = 1;
    return p;
}
void *__wrap_calloc(size_t a, size_t b) {
    if (!armed)
        return __real_calloc(a, b);
    armed = 0;
    int idx = R->nreq++;
    void *p = NULL;
    if (idx < MAXEV) {
        R->site[idx] = (unsigned long)__builtin_return_address(0);
        R->sz[idx] = a * b;
    }
    if (must_fail(idx)) {
        evf("M%d-", idx);
        errno = ENOMEM;
    } else {
        p = __real_calloc(a ? a : 1, b ? b : 1);
        add_live(p, idx);
        evf("M%d+", idx);
    }
    armed = 1;
    return p;
}
void *__wrap_realloc(void *old, size_t n) {
    if (!armed)
        return __real_realloc(old, n);
    armed = 0;
    int idx = R->nreq++;
    void *p = NULL;
    char ob[12] = "n";
    int li = -1;
    if (idx < MAXEV) {
        R->site[idx] = (unsigned long)__builtin_return_address(0);
        R->sz[idx] = n;
    }
    if (old) {
        li = find_live(old);
        if (li < 0) {
            strcpy(ob, "?");
            R->bad++;
        } else
            snprintf(ob, sizeof ob, "%d", live[li].id);
    }
    if (must_fail(idx)) {
        evf("R%d:%s-", idx, ob);
        errno = ENOMEM;
    } else {
        if (old && li < 0) {
            p = __real_malloc(n ? n : 1); /* do not hand an unknown pointer to libc */
        } else {
            p = __real_realloc(old, n ? n : 1);
            if (li >= 0)
                del_live(li);
        }
        add_live(p, idx);
        evf("R%d:%s+", idx, ob);
    }
    armed = 1;
    return p;
}
void __wrap_free(void *p) {
    if (!armed) {
        __real_free(p);
        return;
    }
    armed = 0;
    if (!p)
        evf("Fn");
    else {
        int li = find_live(p);
        if (li < 0) {
            evf("F?");
            R->bad++;
        } else {
            evf("F%d", live[li].id);
            del_live(li);
            __real_free(p);
        }
    }
    armed = 1;
}

/* ------------------------------------------------------------------ handlers, signals */
static void handler(const char *restrict msg, void *restrict ptr, errno_t error) {
    int a = armed;
    armed = 0;
    (void)msg;
    (void)ptr;
    R->hn++;
    R->hc = error;
    armed = a;
}
static void on_sig(int sig, siginfo_t *si, void *uc) {
    (void)uc;
    armed = 0;
    R->sig = sig;
    uintptr_t a = (uintptr_t)si->si_addr;
    R->fa = (sig == SIGSEGV || sig == SIGBUS) ? (a < 4096 ? 1 : a < 0x10000 ? 2 : 3) : 0;
    _exit(100);
}

/* ------------------------------------------------------------------ parsing */
static char *tok(char *line, const char *key) { /* value of key= in line (points into a static copy) */
    static char buf[8][70000];
    static int rot;
    size_t kl = strlen(key);
    char *p = line;
    while (*p) {
        while (*p == ' ')
            p++;
        if (!strncmp(p, key, kl) && p[kl] == '=') {
            char *v = p + kl + 1, *e = v;
            while (*e && *e != ' ' && *e != '\n')
                e++;
            char *b = buf[rot++ & 7];
            size_t n = (size_t)(e - v);
            if (n >= sizeof buf[0])
                n = sizeof buf[0] - 1;
            memcpy(b, v, n);
            b[n] = 0;
            return b;
        }
        while (*p && *p != ' ')
            p++;
    }
    return NULL;
}
static int hexv(char c) { return c <= '9' ? c - '0' : (c | 32) - 'a' + 10; }
static char *hex_bytes(const char *h) { /* "-" = empty; result NUL terminated */
    size_t n = (!h || !strcmp(h, "-")) ? 0 : strlen(h) / 2;
    char *b = __real_malloc(n + 1);
    for (size_t i = 0; i < n; i++)
        b[i] = (char)(hexv(h[2 * i]) * 16 + hexv(h[2 * i + 1]));
    b[n] = 0;
    return b;
}
static wchar_t *hex_wide(const char *h, size_t *np, size_t room) { /* 8 hex digits per cell; 0 terminated; `room` canary cells behind */
    size_t n = (!h || !strcmp(h, "-")) ? 0 : strlen(h) / 8;
    wchar_t *b = __real_malloc((n + 1 + room) * sizeof(wchar_t));
    for (size_t i = 0; i < n; i++) {
        uint32_t v = 0;
        for (int j = 0; j < 8; j++)
            v = v * 16 + (uint32_t)hexv(h[8 * i + j]);
        b[i] = (wchar_t)v;
    }
    b[n] = 0;
    for (size_t i = 0; i < room; i++)
        b[n + 1 + i] = 0x5A5A;
    if (np)
        *np = n;
    return b;
}

/* ------------------------------------------------------------------ variadic plumbing */
typedef struct { char t; void *p; int i; long double L; double d; } Arg;
enum { F_SPRINTF, F_SNPRINTF, F_VSPRINTF, F_VSNPRINTF, F_PRINTF, F_FPRINTF, F_VFPRINTF,
       F_SWPRINTF, F_SNWPRINTF, F_VSWPRINTF, F_VSNWPRINTF };
static FILE *devnull;
#define BOSU ((size_t)-1)

static long callv(int fn, void *dest, size_t dmax, const void *fmt, ...) {
    va_list ap;
    long r = -9999;
    va_start(ap, fmt);
    switch (fn) {
    case F_VSPRINTF: r = _vsprintf_s_chk((char *)dest, dmax, BOSU, (const char *)fmt, ap); break;
    case F_VSNPRINTF: r = _vsnprintf_s_chk((char *)dest, dmax, BOSU, (const char *)fmt, ap); break;
    case F_VFPRINTF: r = vfprintf_s(devnull, (const char *)fmt, ap); break;
    case F_VSWPRINTF: r = _vswprintf_s_chk((wchar_t *)dest, dmax, BOSU, (const wchar_t *)fmt, ap); break;
    case F_VSNWPRINTF: r = _vsnwprintf_s_chk((wchar_t *)dest, dmax, BOSU, (const wchar_t *)fmt, ap); break;
    }
    va_end(ap);
    return r;
}
#define CALL(x, y, z)                                                                                          \
    (fn == F_SPRINTF    ? (long)_sprintf_s_chk((char *)dest, dmax, BOSU, (const char *)fmt, x, y, z)           \
     : fn == F_SNPRINTF ? (long)_snprintf_s_chk((char *)dest, dmax, BOSU, (const char *)fmt, x, y, z)          \
     : fn == F_PRINTF   ? (long)printf_s((const char *)fmt, x, y, z)                                           \
     : fn == F_FPRINTF  ? (long)fprintf_s(devnull, (const char *)fmt, x, y, z)                                 \
     : fn == F_SWPRINTF ? (long)_swprintf_s_chk((wchar_t *)dest, dmax, BOSU, (const wchar_t *)fmt, x, y, z)    \
     : fn == F_SNWPRINTF ? (long)_snwprintf_s_chk((wchar_t *)dest, dmax, BOSU, (const wchar_t *)fmt, x, y, z)  \
                        : callv(fn, dest, dmax, fmt, x, y, z))
#define D3(x, y)                                                                                               \
    switch (a[2].t) {                                                                                          \
    case 'P': armed = 1; r = CALL(x, y, a[2].p); armed = 0; break;                                             \
    case 'L': armed = 1; r = CALL(x, y, a[2].L); armed = 0; break;                                             \
    case 'D': armed = 1; r = CALL(x, y, a[2].d); armed = 0; break;                                             \
    default: armed = 1; r = CALL(x, y, a[2].i); armed = 0; break;                                              \
    }
#define D2(x)                                                                                                  \
    switch (a[1].t) {                                                                                          \
    case 'P': D3(x, a[1].p) break;                                                                             \
    case 'L': D3(x, a[1].L) break;                                                                             \
    case 'D': D3(x, a[1].d) break;                                                                             \
    default: D3(x, a[1].i) break;                                                                              \
    }
static long call_fmt(int fn, void *dest, size_t dmax, const void *fmt, Arg *a) {
    long r = -9999;
    switch (a[0].t) {
    case 'P': D2(a[0].p) break;
    case 'L': D2(a[0].L) break;
    case 'D': D2(a[0].d) break;
    default: D2(a[0].i) break;
    }
    return r;
}

static int parse_arg(const char *s, Arg *a) {
    /* w:<hex8..> wide string | s:<hex..> narrow string | p:n NULL | i:<int> | L:<long double> | D:<double> */
    memset(a, 0, sizeof *a);
    a->t = 'I';
    if (!s)
        return 0;
    if (s[0] == 'w' && s[1] == ':') { a->t = 'P'; a->p = hex_wide(s + 2, NULL, 0); }
    else if (s[0] == 's' && s[1] == ':') { a->t = 'P'; a->p = hex_bytes(s + 2); }
    else if (s[0] == 'p' && s[1] == ':') { a->t = 'P'; a->p = NULL; }
    else if (s[0] == 'i' && s[1] == ':') { a->t = 'I'; a->i = atoi(s + 2); }
    else if (s[0] == 'L' && s[1] == ':') { a->t = 'L'; a->L = strtold(s + 2, NULL); }
    else if (s[0] == 'D' && s[1] == ':') { a->t = 'D'; a->d = strtod(s + 2, NULL); }
    else return -1;
    return 0;
}

/* ------------------------------------------------------------------ one op, in the child */
#define PHYS 9000 /* physical cells behind every dest, whatever dmax says */
static const struct { const char *name; int id; int wide; int hasdest; } FMTFN[] = {
    {"sprintf_s", F_SPRINTF, 0, 1},   {"snprintf_s", F_SNPRINTF, 0, 1},   {"vsprintf_s", F_VSPRINTF, 0, 1},
    {"vsnprintf_s", F_VSNPRINTF, 0, 1}, {"printf_s", F_PRINTF, 0, 0},     {"fprintf_s", F_FPRINTF, 0, 0},
    {"vfprintf_s", F_VFPRINTF, 0, 0}, {"swprintf_s", F_SWPRINTF, 1, 1},   {"snwprintf_s", F_SNWPRINTF, 1, 1},
    {"vswprintf_s", F_VSWPRINTF, 1, 1}, {"vsnwprintf_s", F_VSNWPRINTF, 1, 1}, {NULL, 0, 0, 0}};

static void dest_state_c(const char *d, size_t dmax) {
    R->d0 = d[0] == 0;
    R->dall = 1;
    for (size_t i = 0; i < dmax && i < PHYS; i++)
        if (d[i]) { R->dall = 0; break; }
}
static void dest_state_w(const wchar_t *d, size_t dmax) {
    R->d0 = d[0] == 0;
    R->dall = 1;
    for (size_t i = 0; i < dmax && i < PHYS; i++)
        if (d[i]) { R->dall = 0; break; }
}

static int run_op(char *line) {
    const char *fn = tok(line, "fn");
    if (!fn)
        return -1;
    size_t dmax = tok(line, "dmax") ? strtoul(tok(line, "dmax"), NULL, 10) : 0;
    R->d0 = R->dall = -1;
    for (int k = 0; FMTFN[k].name; k++) {
        if (strcmp(fn, FMTFN[k].name))
            continue;
        Arg a[3];
        if (parse_arg(tok(line, "a0"), &a[0]) || parse_arg(tok(line, "a1"), &a[1]) || parse_arg(tok(line, "a2"), &a[2]))
            return -1;
        if (FMTFN[k].wide) {
            wchar_t *fmt = hex_wide(tok(line, "fmt"), NULL, 0);
            wchar_t *dest = __real_malloc(PHYS * sizeof(wchar_t));
            for (int i = 0; i < PHYS; i++)
                dest[i] = 0x5A5A;
            R->ret = call_fmt(FMTFN[k].id, dest, dmax, fmt, a);
            dest_state_w(dest, dmax);
        } else {
            char *fmt = hex_bytes(tok(line, "fmt"));
            char *dest = __real_malloc(PHYS);
            memset(dest, 0x5A, PHYS);
            R->ret = call_fmt(FMTFN[k].id, dest, dmax, fmt, a);
            if (FMTFN[k].hasdest)
                dest_state_c(dest, dmax);
        }
        return 0;
    }
    if (!strcmp(fn, "wcsnorm_s") || !strcmp(fn, "wcsnorm_reorder_s") || !strcmp(fn, "wcsnorm_compose_s")) {
        size_t n;
        wchar_t *src = hex_wide(tok(line, "src"), &n, 64);
        wchar_t *dest = __real_malloc(PHYS * sizeof(wchar_t));
        for (int i = 0; i < PHYS; i++)
            dest[i] = 0x5A5A;
        rsize_t len = tok(line, "len") ? strtoul(tok(line, "len"), NULL, 10) : n;
        R->lenp = (unsigned long)-1;
        if (!strcmp(fn, "wcsnorm_s")) {
            int mode = tok(line, "mode") ? atoi(tok(line, "mode")) : 1;
            rsize_t l = 0;
            armed = 1;
            R->ret = _wcsnorm_s_chk(dest, dmax, src, (wcsnorm_mode_t)mode, &l, BOSU);
            armed = 0;
            R->lenp = l;
        } else if (!strcmp(fn, "wcsnorm_reorder_s")) {
            armed = 1;
            R->ret = _wcsnorm_reorder_s_chk(dest, dmax, src, len, BOSU);
            armed = 0;
        } else {
            int contig = tok(line, "contig") ? atoi(tok(line, "contig")) : 0;
            rsize_t l = len;
            armed = 1;
            R->ret = _wcsnorm_compose_s_chk(dest, dmax, src, &l, contig != 0, BOSU);
            armed = 0;
            R->lenp = l;
        }
        dest_state_w(dest, dmax);
        return 0;
    }
    if (!strcmp(fn, "wcsicmp_s") || !strcmp(fn, "wcsnatcmp_s")) {
        wchar_t *d = hex_wide(tok(line, "dest"), NULL, 64);
        wchar_t *s = hex_wide(tok(line, "src"), NULL, 64);
        size_t smax = tok(line, "smax") ? strtoul(tok(line, "smax"), NULL, 10) : 0;
        int res = 12345;
        if (!strcmp(fn, "wcsicmp_s")) {
            armed = 1;
            R->ret = _wcsicmp_s_chk(d, dmax, s, smax, &res, BOSU, BOSU);
            armed = 0;
        } else {
            int fold = tok(line, "fold") ? atoi(tok(line, "fold")) : 1;
            armed = 1;
            R->ret = _wcsnatcmp_s_chk(d, dmax, s, smax, fold, &res, BOSU, BOSU);
            armed = 0;
        }
        R->result = res;
        return 0;
    }
    return -1;
}

int main(void) {
    static char line[400000];
    R = mmap(NULL, sizeof(Rec), PROT_READ | PROT_WRITE, MAP_SHARED | MAP_ANONYMOUS, -1, 0);
    if (R == MAP_FAILED)
        return 2;
    devnull = fopen("/dev/null", "w");
    setvbuf(stdout, NULL, _IOFBF, 1 << 16);
    while (fgets(line, sizeof line, stdin)) {
        const char *id = tok(line, "id");
        if (!id)
            continue;
        memset(R, 0, sizeof *R);
        nfail = 0;
        const char *fl = tok(line, "fail");
        if (fl && strcmp(fl, "-")) {
            char *q = (char *)fl;
            while (*q && nfail < MAXFAIL) {
                failat[nfail++] = (int)strtol(q, &q, 10);
                if (*q == ',')
                    q++;
            }
        }
        fflush(stdout);
        pid_t pid = fork();
        if (pid == 0) {
            struct sigaction sa;
            memset(&sa, 0, sizeof sa);
            sa.sa_sigaction = on_sig;
            sa.sa_flags = SA_SIGINFO;
            sigaction(SIGSEGV, &sa, NULL);
            sigaction(SIGBUS, &sa, NULL);
            sigaction(SIGFPE, &sa, NULL);
            sigaction(SIGABRT, &sa, NULL);
            sigaction(SIGALRM, &sa, NULL);
            alarm(10);
            int fd = open("/dev/null", O_WRONLY);
            dup2(fd, 1);
            set_str_constraint_handler_s(handler);
            set_mem_constraint_handler_s(handler);
            nlive = 0;
            int rc = run_op(line);
            armed = 0;
            R->done = rc == 0 ? 1 : 2;
            _exit(0);
        }
        int st = 0;
        waitpid(pid, &st, 0);
        if (R->done == 2) {
            printf("id=%s err=badop\n", id);
            continue;
        }
        int sig = R->sig;
        if (!R->done && !sig)
            sig = WIFSIGNALED(st) ? WTERMSIG(st) : 999;
        printf("id=%s sig=%d fa=%s ret=%ld hn=%d hc=%d d0=%d dall=%d out=%d bad=%d n=%d lenp=%ld res=%d seq=", id, sig,
               R->fa == 1 ? "null" : R->fa == 2 ? "low" : R->fa == 3 ? "other" : "-", R->ret, R->hn, R->hc, R->d0, R->dall,
               R->out, R->bad, R->nreq, (long)R->lenp, R->result);
        for (int i = 0; i < R->nev; i++)
            printf("%s%s", i ? "," : "", R->ev[i]);
        if (!R->nev)
            printf("-");
        printf(" sites=");
        for (int i = 0; i < R->nreq && i < MAXEV; i++)
            printf("%s%lx", i ? "," : "", R->site[i]);
        if (!R->nreq)
            printf("-");
        printf(" sz=");
        for (int i = 0; i < R->nreq && i < MAXEV; i++)
            printf("%s%lu", i ? "," : "", R->sz[i]);
        if (!R->nreq)
            printf("-");
        printf("\n");
    }
    fflush(stdout);
    return 0;
}

/* hfmt.c - C09: does any printf_s / scanf_s family member store through an argument for %n?
 *
 * stdin : id=<n> kind=<p|s> fmt=<hex bytes> in=<hex bytes> [only=<entry point>]
 *           kind p: the 16 printf entry points (+ plain glibc vsnprintf / vswprintf as reference)
 *           kind s: the 12 scanf  entry points (+ plain glibc vsscanf  / vswscanf  as reference)
 *           fmt   : the format (ASCII; widened for the wide entry points)
 *           in    : the input text of the scanf entry points (string; fmemopen stream for f*scanf_s, pipe stream
 *                   for f*wscanf_s; a pipe on fd 0 for the stdin readers)
 * stdout: one line per entry point
 *           id=<n>.<entry point> ret=<r> errno=<e> hn=<handler calls> hc=<last handler code>
 *                                ch=<hex mask of sentinel slots that changed> nd=<0|1>
 *           id=<n>.<entry point> sig=<signal>          the call killed its process
 *
 * Every variadic argument slot i (0..9) carries the address of its own sentinel slot
 *           S + i*stride         (stride 8 for printf, 256 for scanf; S is mapped at 0x700000000, so the low
 *                                 32 bits of slot i are i*stride: harmless as int / width / char value)
 * On x86-64 SysV pointer and integer variadic arguments travel the same way, so an integer
 * conversion given such a word prints a number and an `n` conversion stores through it.
 * Every call is made twice, on sentinel memory filled with 0xA5 and then with 0x5A; a slot counts as
 * changed when any of its bytes differs from the fill in either pass (so a stored value that happens to
 * equal one fill pattern is still seen).  nd=1: the two passes disagreed in ret or handler count.
 * Narrow and wide stdio are never mixed in one process: each format is run in two forked children
 * (narrow group, wide group), each with stdout reopened on /dev/null and stdin fed from a fresh pipe.
 * A child that dies is reported (sig=) and the remaining entry points are run in a new child.
 */
#define _GNU_SOURCE
#include <errno.h>
#include <signal.h>
#include <stdarg.h>
#include <stdint.h>
#include <stdio.h>
#include <stdio_ext.h>
#include <stdlib.h>
#include <string.h>
#include <sys/mman.h>
#include <sys/wait.h>
#include <unistd.h>
#include <wchar.h>

#include "safe_lib.h"
#include "safe_str_lib.h"

#define SBASE 0x700000000UL
#define RSZ 4096
#define NARG 10
#define DMAX_DEFAULT 4096   /* == RSIZE_MAX_STR */
#define WDMAX_DEFAULT 1024  /* == RSIZE_MAX_WSTR */
/* the dmax handed to the buffer variants: the limits by default, `dm=<n>` on an op line overrides both */
static size_t DMAX = DMAX_DEFAULT, WDMAX = WDMAX_DEFAULT;
#define OUTSZ (1 << 16)

static unsigned char *S;
static int stride;
static int hcount, hcode;
static void on_constraint(const char *msg, void *p, errno_t e) { (void)msg; (void)p; hcount++; hcode = (int)e; }

static char dest[2 * DMAX_DEFAULT];
static wchar_t wdest[2 * DMAX_DEFAULT];
static const char *g_in; static size_t g_inlen;
static wchar_t g_win[2048];
static FILE *g_stream;

#define A(i) ((void *)(S + (size_t)(i) * stride))
#define ARGS A(0), A(1), A(2), A(3), A(4), A(5), A(6), A(7), A(8), A(9)

enum {
    /* narrow printf */ REF_VSNPRINTF, SPRINTF_S, VSPRINTF_S, SNPRINTF_S, VSNPRINTF_S, PRINTF_S, VPRINTF_S, FPRINTF_S, VFPRINTF_S,
    /* wide printf   */ REF_VSWPRINTF, SWPRINTF_S, VSWPRINTF_S, SNWPRINTF_S, VSNWPRINTF_S, WPRINTF_S, VWPRINTF_S, FWPRINTF_S, VFWPRINTF_S,
    /* narrow scanf  */ REF_VSSCANF, SSCANF_S, VSSCANF_S, FSCANF_S, VFSCANF_S, SCANF_S, VSCANF_S,
    /* wide scanf    */ REF_VSWSCANF, SWSCANF_S, VSWSCANF_S, FWSCANF_S, VFWSCANF_S, WSCANF_S, VWSCANF_S,
    NEP
};
static const char *EPNAME[NEP] = {
    "ref_vsnprintf", "sprintf_s", "vsprintf_s", "snprintf_s", "vsnprintf_s", "printf_s", "vprintf_s", "fprintf_s", "vfprintf_s",
    "ref_vswprintf", "swprintf_s", "vswprintf_s", "snwprintf_s", "vsnwprintf_s", "wprintf_s", "vwprintf_s", "fwprintf_s", "vfwprintf_s",
    "ref_vsscanf", "sscanf_s", "vsscanf_s", "fscanf_s", "vfscanf_s", "scanf_s", "vscanf_s",
    "ref_vswscanf", "swscanf_s", "vswscanf_s", "fwscanf_s", "vfwscanf_s", "wscanf_s", "vwscanf_s",
};
/* groups: [first, last] */
static const int GROUP[4][2] = { {REF_VSNPRINTF, VFPRINTF_S}, {REF_VSWPRINTF, VFWPRINTF_S}, {REF_VSSCANF, VSCANF_S}, {REF_VSWSCANF, VWSCANF_S} };

/* the va_list entry points */
static int vcall(int ep, const void *fmt, ...) {
    va_list ap;
    int r = -9999;
    va_start(ap, fmt);
    switch (ep) {
    case REF_VSNPRINTF: r = vsnprintf(dest, DMAX, (const char *)fmt, ap); break;
    case VSPRINTF_S: r = vsprintf_s(dest, DMAX, (const char *)fmt, ap); break;
    case VSNPRINTF_S: r = vsnprintf_s(dest, DMAX, (const char *)fmt, ap); break;
    case VPRINTF_S: r = vprintf_s((const char *)fmt, ap); break;
    case VFPRINTF_S: r = vfprintf_s(g_stream, (const char *)fmt, ap); break;
    case REF_VSWPRINTF: r = vswprintf(wdest, WDMAX, (const wchar_t *)fmt, ap); break;
    case VSWPRINTF_S: r = vswprintf_s(wdest, WDMAX, (const wchar_t *)fmt, ap); break;
    case VSNWPRINTF_S: r = vsnwprintf_s(wdest, WDMAX, (const wchar_t *)fmt, ap); break;
    case VWPRINTF_S: r = vwprintf_s((const wchar_t *)fmt, ap); break;
    case VFWPRINTF_S: r = vfwprintf_s(g_stream, (const wchar_t *)fmt, ap); break;
    case REF_VSSCANF: r = vsscanf(g_in, (const char *)fmt, ap); break;
    case VSSCANF_S: r = vsscanf_s(g_in, (const char *)fmt, ap); break;
    case VFSCANF_S: r = vfscanf_s(g_stream, (const char *)fmt, ap); break;
    case VSCANF_S: r = vscanf_s((const char *)fmt, ap); break;
    case REF_VSWSCANF: r = vswscanf(g_win, (const wchar_t *)fmt, ap); break;
    case VSWSCANF_S: r = vswscanf_s(g_win, (const wchar_t *)fmt, ap); break;
    case VFWSCANF_S: r = vfwscanf_s(g_stream, (const wchar_t *)fmt, ap); break;
    case VWSCANF_S: r = vwscanf_s((const wchar_t *)fmt, ap); break;
    }
    va_end(ap);
    return r;
}

static void feed_stdin(void) {
    int fd[2];
    if (pipe(fd) != 0) _exit(97);
    if (g_inlen && write(fd[1], g_in, g_inlen) != (ssize_t)g_inlen) _exit(97);
    close(fd[1]);
    dup2(fd[0], 0);
    close(fd[0]);
    __fpurge(stdin);
    clearerr(stdin);
}

static FILE *pipe_stream(void) {
    int fd[2];
    if (pipe(fd) != 0) _exit(97);
    if (g_inlen && write(fd[1], g_in, g_inlen) != (ssize_t)g_inlen) _exit(97);
    close(fd[1]);
    return fdopen(fd[0], "r");
}

static int call_ep(int ep, const char *fmt, const wchar_t *wfmt) {
    int r = -9999;
    g_stream = NULL;
    switch (ep) {
    case FPRINTF_S: case VFPRINTF_S: case FWPRINTF_S: case VFWPRINTF_S:
        g_stream = fopen("/dev/null", "w"); break;
    case FSCANF_S: case VFSCANF_S:
        g_stream = fmemopen((void *)g_in, g_inlen, "r"); break;
    case FWSCANF_S: case VFWSCANF_S:      /* glibc's fmemopen streams cannot be read wide-oriented: a pipe instead */
        g_stream = pipe_stream(); break;
    case SCANF_S: case VSCANF_S: case WSCANF_S: case VWSCANF_S:
        feed_stdin(); break;
    }
    memset(dest, 0x11, 64); wmemset(wdest, 0x11, 64);
    errno = 0;
    switch (ep) {
    case SPRINTF_S: r = sprintf_s(dest, DMAX, fmt, ARGS); break;
    case SNPRINTF_S: r = snprintf_s(dest, DMAX, fmt, ARGS); break;
    case PRINTF_S: r = printf_s(fmt, ARGS); break;
    case FPRINTF_S: r = fprintf_s(g_stream, fmt, ARGS); break;
    case SWPRINTF_S: r = swprintf_s(wdest, WDMAX, wfmt, ARGS); break;
    case SNWPRINTF_S: r = snwprintf_s(wdest, WDMAX, wfmt, ARGS); break;
    case WPRINTF_S: r = wprintf_s(wfmt, ARGS); break;
    case FWPRINTF_S: r = fwprintf_s(g_stream, wfmt, ARGS); break;
    case SSCANF_S: r = sscanf_s(g_in, fmt, ARGS); break;
    case FSCANF_S: r = fscanf_s(g_stream, fmt, ARGS); break;
    case SCANF_S: r = scanf_s(fmt, ARGS); break;
    case SWSCANF_S: r = swscanf_s(g_win, wfmt, ARGS); break;
    case FWSCANF_S: r = fwscanf_s(g_stream, wfmt, ARGS); break;
    case WSCANF_S: r = wscanf_s(wfmt, ARGS); break;
    default:
        if ((ep >= REF_VSWPRINTF && ep <= VFWPRINTF_S) || ep >= REF_VSWSCANF) r = vcall(ep, wfmt, ARGS);
        else r = vcall(ep, fmt, ARGS);
    }
    int e = errno;
    if (g_stream) fclose(g_stream);
    errno = e;
    return r;
}

static unsigned changed_mask(unsigned char pat) {
    unsigned m = 0;
    for (size_t i = 0; i < RSZ; i++)
        if (S[i] != pat) { size_t s = i / (size_t)stride; m |= 1u << (s < 16 ? s : 16); }
    return m;
}

typedef struct { volatile int cur; volatile size_t len; char buf[OUTSZ]; } Shared;
static Shared *sh;

static void run_group(const char *id, int first, int last, const char *fmt, const wchar_t *wfmt) {
    static const unsigned char PAT[2] = { 0xA5, 0x5A };
    if (!freopen("/dev/null", "w", stdout)) _exit(98);
    alarm(20);
    for (int ep = first; ep <= last; ep++) {
        int ret[2], hn[2], hc[2], en[2];
        unsigned m = 0;
        sh->cur = ep;
        for (int pass = 0; pass < 2; pass++) {
            /* a priming call with the EMPTY format at the same address (an accepted, harmless format), then the real one:
               a validation result cached per format address must not let the second contents through */
            {
                char c0 = fmt[0]; wchar_t w0 = wfmt[0];
                ((char *)fmt)[0] = 0; ((wchar_t *)wfmt)[0] = 0;
                memset(S, PAT[pass], RSZ);
                (void)call_ep(ep, fmt, wfmt);
                ((char *)fmt)[0] = c0; ((wchar_t *)wfmt)[0] = w0;
            }
            memset(S, PAT[pass], RSZ);
            hcount = 0; hcode = 0;
            ret[pass] = call_ep(ep, fmt, wfmt);
            en[pass] = errno;
            hn[pass] = hcount; hc[pass] = hcode;
            m |= changed_mask(PAT[pass]);
        }
        int nd = ret[0] != ret[1] || hn[0] != hn[1];
        size_t n = sh->len;
        n += (size_t)snprintf(sh->buf + n, OUTSZ - n, "id=%s.%s ret=%d errno=%d hn=%d hc=%d ch=%x nd=%d\n",
                              id, EPNAME[ep], ret[0], en[0], hn[0], hc[0], m, nd);
        sh->len = n;
    }
    sh->cur = last + 1;
}

static int unhex(const char *h, unsigned char *out, size_t cap) {
    size_t n = 0;
    for (; h[0] && h[1] && n + 1 < cap; h += 2) {
        unsigned v;
        if (sscanf(h, "%2x", &v) != 1) return -1;
        out[n++] = (unsigned char)v;
    }
    out[n] = 0;
    return (int)n;
}

int main(void) {
    static char line[1 << 17];
    /* the format starts at cell 1; cell 0 holds a '%': a pre-scan that looks at the character in FRONT of the format (a
       look-behind without a lower bound) takes a leading "%n" for the escaped "%%n" and lets it through */
    static unsigned char fmt0[12001], in[2048];
    static wchar_t wfmt0[12001];
    unsigned char *fmt = fmt0 + 1;
    wchar_t *wfmt = wfmt0 + 1;
    fmt0[0] = '%'; wfmt0[0] = L'%';
    FILE *ops = fdopen(dup(0), "r");     /* the stdin FILE itself stays untouched for the scanf_s children */
    S = mmap((void *)SBASE, RSZ, PROT_READ | PROT_WRITE, MAP_PRIVATE | MAP_ANONYMOUS | MAP_FIXED_NOREPLACE, -1, 0);
    sh = mmap(NULL, sizeof(Shared), PROT_READ | PROT_WRITE, MAP_SHARED | MAP_ANONYMOUS, -1, 0);
    if (!ops || S != (unsigned char *)SBASE || sh == MAP_FAILED) { fprintf(stderr, "hfmt: setup failed\n"); return 2; }
    set_str_constraint_handler_s(on_constraint);
    signal(SIGPIPE, SIG_IGN);
    while (fgets(line, sizeof line, ops)) {
        char *id = NULL, *kind = NULL, *hf = NULL, *hi = NULL, *only = NULL, *save = NULL, *dm = NULL;
        size_t L = strlen(line);
        while (L && (line[L - 1] == '\n' || line[L - 1] == '\r')) line[--L] = 0;
        for (char *tok = strtok_r(line, " ", &save); tok; tok = strtok_r(NULL, " ", &save)) {
            if (!strncmp(tok, "id=", 3)) id = tok + 3;
            else if (!strncmp(tok, "kind=", 5)) kind = tok + 5;
            else if (!strncmp(tok, "fmt=", 4)) hf = tok + 4;
            else if (!strncmp(tok, "in=", 3)) hi = tok + 3;
            else if (!strncmp(tok, "only=", 5)) only = tok + 5;
            else if (!strncmp(tok, "dm=", 3)) dm = tok + 3;
        }
        if (!id || !kind || !hf) continue;
        DMAX = dm ? (size_t)strtoul(dm, NULL, 10) : DMAX_DEFAULT;
        WDMAX = dm ? (size_t)strtoul(dm, NULL, 10) : WDMAX_DEFAULT;
        if (DMAX > DMAX_DEFAULT) DMAX = DMAX_DEFAULT;
        if (WDMAX > WDMAX_DEFAULT) WDMAX = WDMAX_DEFAULT;
        int nf = unhex(hf, fmt, sizeof fmt0 - 1), ni = unhex(hi ? hi : "", in, sizeof in);
        if (nf < 0 || ni < 0) { printf("id=%s err=badhex\n", id); continue; }
        for (int i = 0; i <= nf; i++) wfmt[i] = (wchar_t)fmt[i];
        for (int i = 0; i <= ni; i++) g_win[i] = (wchar_t)in[i];
        g_in = (const char *)in; g_inlen = (size_t)ni;
        int isscan = kind[0] == 's';
        stride = isscan ? 256 : 8;
        for (int g = isscan ? 2 : 0; g < (isscan ? 4 : 2); g++) {
            int first = GROUP[g][0], last = GROUP[g][1];
            if (only) {
                int k = -1;
                for (int e = first; e <= last; e++) if (!strcmp(EPNAME[e], only)) k = e;
                if (k < 0) continue;
                first = last = k;
            }
            while (first <= last) {
                fflush(stdout);
                sh->cur = first; sh->len = 0;
                pid_t pid = fork();
                if (pid < 0) { perror("fork"); return 2; }
                if (pid == 0) { run_group(id, first, last, (const char *)fmt, wfmt); _exit(0); }
                int st = 0;
                waitpid(pid, &st, 0);
                fwrite(sh->buf, 1, sh->len, stdout);
                if (WIFEXITED(st) && WEXITSTATUS(st) == 0) break;
                int cur = sh->cur;
                if (cur > last) break;
                printf("id=%s.%s sig=%d\n", id, EPNAME[cur], WIFSIGNALED(st) ? WTERMSIG(st) : 1000 + WEXITSTATUS(st));
                first = cur + 1;
            }
        }
        fflush(stdout);
    }
    return 0;
}

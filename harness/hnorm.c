/* C17 correspondence harness: calls the real entry points of the library built from the current tree, in-process,
 * with dest and src flush against PROT_NONE guard pages.  Line protocol (see tools/p17.py):
 *   id=N uni=norm mode=M dmax=D src=h,h,..      -> _wcsnorm_s_chk
 *   id=N uni=reorder dmax=D src=..              -> _wcsnorm_reorder_s_chk (len = number of cells)
 *   id=N uni=compose dmax=D contig=0|1 src=..   -> _wcsnorm_compose_s_chk
 *   id=N uni=fc dmax=D src=..                   -> _wcsfc_s_chk
 *   id=N uni=towfc dmax=D c=h                   -> iswfc, _towfc_s_chk
 *   id=N uni=sweep what=nfd|nfc|fcd|fcc|fold|fc lo=h hi=h   -> one line per non-trivial code point, then id=N done=1 n=K
 * Answers: id=N ret=R len=L out=h,h,.. hn=H term=0|1 tail0=0|1 sig=S
 */
#define _GNU_SOURCE
#include <stdio.h>
#include <stdlib.h>
#include <string.h>
#include <stdint.h>
#include <wchar.h>
#include <locale.h>
#include <signal.h>
#include <setjmp.h>
#include <sys/mman.h>
#include "safe_str_lib.h"

extern errno_t _wcsnorm_s_chk(wchar_t *, rsize_t, const wchar_t *, wcsnorm_mode_t, rsize_t *, size_t);
extern errno_t _wcsnorm_reorder_s_chk(wchar_t *, rsize_t, const wchar_t *, rsize_t, size_t);
extern errno_t _wcsnorm_compose_s_chk(wchar_t *, rsize_t, const wchar_t *, rsize_t *, bool, size_t);
extern errno_t _wcsfc_s_chk(wchar_t *, rsize_t, const wchar_t *, rsize_t *, size_t);
extern int _towfc_s_chk(wchar_t *, rsize_t, uint32_t, size_t);
extern int iswfc(uint32_t);

#define PAGE 4096
#define APAGES 4                         /* 4096 cells per arena */
#define BOSU ((size_t)-1)
static wchar_t *arenaD, *arenaS;         /* end (exclusive) of the usable part = start of the guard page */
static sigjmp_buf jb;
static volatile int in_call;
static volatile uintptr_t fault_addr;
static int hn;

static void handler(const char *msg, void *ptr, errno_t err) { (void)msg; (void)ptr; (void)err; hn++; }
static void on_segv(int sig, siginfo_t *si, void *ctx) {
    (void)ctx;
    if (in_call) { fault_addr = (uintptr_t)si->si_addr; siglongjmp(jb, sig); }
    signal(sig, SIG_DFL); raise(sig);
}
static wchar_t *mk_arena(void) {
    char *p = mmap(NULL, (APAGES + 1) * PAGE, PROT_READ | PROT_WRITE, MAP_PRIVATE | MAP_ANONYMOUS, -1, 0);
    if (p == MAP_FAILED) { perror("mmap"); exit(2); }
    mprotect(p + APAGES * PAGE, PAGE, PROT_NONE);
    return (wchar_t *)(p + APAGES * PAGE);
}
static const char *tok(const char *line, const char *key, char *buf, size_t n) {
    size_t kl = strlen(key);
    const char *p = line;
    while ((p = strstr(p, key))) {
        if ((p == line || p[-1] == ' ') && p[kl] == '=') {
            const char *v = p + kl + 1; size_t i = 0;
            while (v[i] && v[i] != ' ' && v[i] != '\n' && i + 1 < n) { buf[i] = v[i]; i++; }
            buf[i] = 0; return buf;
        }
        p += kl;
    }
    buf[0] = 0; return NULL;
}
static size_t parse_cells(const char *s, uint32_t *out, size_t max) {
    size_t n = 0;
    if (!s || !*s || !strcmp(s, "-")) return 0;
    while (*s && n < max) {
        char *e; out[n++] = (uint32_t)strtoul(s, &e, 16);
        if (*e != ',') break;
        s = e + 1;
    }
    return n;
}
static const char *addr_class(uintptr_t a) {
    if (a >= (uintptr_t)arenaD && a < (uintptr_t)arenaD + PAGE) return "guard-1";
    if (a >= (uintptr_t)arenaS && a < (uintptr_t)arenaS + PAGE) return "guard-2";
    if (a < 65536) return "null";
    return "other";
}
struct obs { long ret; unsigned long len; int sig; int hn; wchar_t *dest; size_t dmax; };

static void print_obs(FILE *o, const char *pfx, const struct obs *r) {
    size_t i, n = 0; int term = 0, tail0 = 1;
    if (r->sig) { fprintf(o, "%s sig=%d fa=%s\n", pfx, r->sig, addr_class(fault_addr)); return; }
    for (i = 0; i < r->dmax; i++) if (r->dest[i] == 0) { term = 1; break; }
    n = i;
    for (; i < r->dmax; i++) if (r->dest[i] != 0) { tail0 = 0; break; }
    fprintf(o, "%s ret=%ld len=%lu out=", pfx, r->ret, r->len);
    if (!n) fputc('-', o);
    for (i = 0; i < n; i++) fprintf(o, "%s%x", i ? "," : "", (unsigned)r->dest[i]);
    fprintf(o, " hn=%d term=%d tail0=%d sig=0\n", r->hn, term, tail0);
}

/* kind: 0 norm(mode) 1 reorder 2 compose(contig) 3 wcsfc */
static int swap_arenas;                  /* swap=1: dest behind src in memory (the other overlap-bumper branch of the decompose loop) */
static void call(int kind, int arg, size_t dmax, const uint32_t *src, size_t n, struct obs *r) {
    size_t i, phys = dmax ? dmax : 1;
    wchar_t *d, *s;
    wchar_t *aD = swap_arenas ? arenaS : arenaD, *aS = swap_arenas ? arenaD : arenaS;
    rsize_t len = 0xDEAD;
    int sig;
    if (phys > APAGES * PAGE / 4 - 8) phys = 8;          /* dmax beyond the arena: the call must reject it before writing */
    d = aD - phys;
    for (i = 0; i < phys; i++) d[i] = 0x5A5A5A5A;
    if (kind == 1 || kind == 2) { s = aS - (n ? n : 1); for (i = 0; i < n; i++) s[i] = (wchar_t)src[i]; }
    else { s = aS - (n + 1); for (i = 0; i < n; i++) s[i] = (wchar_t)src[i]; s[n] = 0; }
    hn = 0; r->sig = 0; r->dest = d; r->dmax = phys < dmax ? phys : dmax;
    if ((sig = sigsetjmp(jb, 1)) == 0) {
        in_call = 1;
        switch (kind) {
        case 0: r->ret = _wcsnorm_s_chk(d, dmax, s, (wcsnorm_mode_t)arg, &len, BOSU); break;
        case 1: r->ret = _wcsnorm_reorder_s_chk(d, dmax, s, n, BOSU); len = 0; break;
        case 2: len = n; r->ret = _wcsnorm_compose_s_chk(d, dmax, s, &len, arg != 0, BOSU); break;
        default: r->ret = _wcsfc_s_chk(d, dmax, s, &len, BOSU); break;
        }
        in_call = 0;
    } else { in_call = 0; r->sig = sig; }
    r->len = len; r->hn = hn;
}

int main(int argc, char **argv) {
    static char line[1 << 16], buf[1 << 16], pfx[64];
    static uint32_t cells[8192];
    struct sigaction sa;
    FILE *o = stdout;
    setlocale(LC_ALL, argc > 1 ? argv[1] : "C.UTF-8");
    arenaD = mk_arena(); arenaS = mk_arena();
    memset(&sa, 0, sizeof sa); sa.sa_sigaction = on_segv; sa.sa_flags = SA_SIGINFO | SA_NODEFER;
    sigaction(SIGSEGV, &sa, NULL); sigaction(SIGBUS, &sa, NULL);
    set_str_constraint_handler_s(handler);
    set_mem_constraint_handler_s(handler);
    while (fgets(line, sizeof line, stdin)) {
        char op[32], id[32];
        struct obs r;
        size_t n, dmax;
        if (!tok(line, "id", id, sizeof id) || !tok(line, "uni", op, sizeof op)) continue;
        snprintf(pfx, sizeof pfx, "id=%s", id);
        dmax = tok(line, "dmax", buf, sizeof buf) ? strtoul(buf, 0, 10) : 0;
        if (!strcmp(op, "norm") || !strcmp(op, "reorder") || !strcmp(op, "compose") || !strcmp(op, "fc")) {
            int kind = !strcmp(op, "norm") ? 0 : !strcmp(op, "reorder") ? 1 : !strcmp(op, "compose") ? 2 : 3;
            int arg = 0;
            if (kind == 0) arg = tok(line, "mode", buf, sizeof buf) ? atoi(buf) : 0;
            if (kind == 2) arg = tok(line, "contig", buf, sizeof buf) ? atoi(buf) : 0;
            n = parse_cells(tok(line, "src", buf, sizeof buf), cells, 8000);
            swap_arenas = tok(line, "swap", buf, sizeof buf) ? atoi(buf) : 0;
            call(kind, arg, dmax, cells, n, &r);
            swap_arenas = 0;
            print_obs(o, pfx, &r);
        } else if (!strcmp(op, "towfc")) {
            uint32_t c = (uint32_t)strtoul(tok(line, "c", buf, sizeof buf) ? buf : "0", 0, 16);
            wchar_t *d = arenaD - (dmax && dmax <= 1024 ? dmax : 4);
            int i, rc, nn, sig;
            for (i = 0; i < 4 && d + i < arenaD; i++) d[i] = 0x5A5A5A5A;
            hn = 0;
            if ((sig = sigsetjmp(jb, 1)) == 0) {
                in_call = 1; nn = iswfc(c); rc = _towfc_s_chk(d, dmax, c, BOSU); in_call = 0;
                fprintf(o, "%s n=%d ret=%d out=", pfx, nn, rc);
                if (d[0] == 0x5A5A5A5A) fputs("untouched", o);
                else { if (!d[0]) fputc('-', o); for (i = 0; d + i < arenaD && d[i]; i++) fprintf(o, "%s%x", i ? "," : "", (unsigned)d[i]); }
                fprintf(o, " hn=%d sig=0\n", hn);
            } else { in_call = 0; fprintf(o, "%s sig=%d fa=%s\n", pfx, sig, addr_class(fault_addr)); }
        } else if (!strcmp(op, "sweep")) {
            char what[16]; uint32_t lo, hi, c; unsigned long cnt = 0;
            tok(line, "what", what, sizeof what);
            lo = (uint32_t)strtoul(tok(line, "lo", buf, sizeof buf) ? buf : "0", 0, 16);
            hi = (uint32_t)strtoul(tok(line, "hi", buf, sizeof buf) ? buf : "0", 0, 16);
            for (c = lo; c < hi; c++) {
                char p2[32];
                snprintf(p2, sizeof p2, "cp=%x", c);
                if (!strcmp(what, "fold")) {
                    wchar_t *d = arenaD - 4; int nn, rc, i;
                    d[0] = d[1] = d[2] = d[3] = 0x5A5A5A5A;
                    nn = iswfc(c); rc = _towfc_s_chk(d, 4, c, BOSU);
                    if (nn == 0 && rc == -ESNOTFND && (uint32_t)d[0] == c && d[1] == 0) continue;
                    fprintf(o, "%s n=%d ret=%d out=", p2, nn, rc);
                    if (!d[0]) fputc('-', o);
                    for (i = 0; i < 4 && d[i]; i++) fprintf(o, "%s%x", i ? "," : "", (unsigned)d[i]);
                    fputc('\n', o); cnt++;
                } else {
                    int kind = !strcmp(what, "fc") ? 3 : 0;
                    int mode = !strcmp(what, "nfd") ? 0 : !strcmp(what, "nfc") ? 1 : !strcmp(what, "fcd") ? 2 : 3;
                    call(kind, mode, 16, &c, 1, &r);
                    if (!r.sig && r.ret == 0 && r.len == 1 && (uint32_t)r.dest[0] == c && r.dest[1] == 0) continue;
                    print_obs(o, p2, &r); cnt++;
                }
            }
            fprintf(o, "%s done=1 n=%lu\n", pfx, cnt);
        } else fprintf(o, "%s err=badop\n", pfx);
        fflush(o);
    }
    return 0;
}

/* ct.c - C19 auxiliary: one call of a timingsafe function, run under valgrind --tool=lackey.
 * usage: ct <bcmp|memcmp> <n> <variant>   (variant selects the CONTENTS only; addresses and n are fixed) */
#include <stdio.h>
#include <stdlib.h>
#include <string.h>
#include "safe_mem_lib.h"
static unsigned char A[256] __attribute__((aligned(64)));
static unsigned char B[256] __attribute__((aligned(64)));
int main(int argc, char **argv) {
    if (argc < 4) return 2;
    size_t n = strtoul(argv[2], NULL, 10);
    int v = atoi(argv[3]);
    unsigned s = 12345u * (unsigned)(v + 1);
    for (size_t i = 0; i < sizeof A; i++) {
        s = s * 1103515245u + 12345u;
        unsigned char x = (unsigned char)(s >> 16);
        A[i] = x;
        B[i] = x;
    }
    switch (v) {
    case 0: break;                                  /* equal */
    case 1: if (n) B[0] ^= 0x80; break;             /* differ at the first byte */
    case 2: if (n) B[n - 1] ^= 1; break;            /* differ at the last byte */
    case 3: memset(A, 0, sizeof A); memset(B, 0xff, sizeof B); break;
    case 4: memset(A, 0xff, sizeof A); memset(B, 0, sizeof B); break;
    default: for (size_t i = 0; i < n; i++) B[i] = (unsigned char)(A[i] + (i % 3)); break;
    }
    int r = argv[1][0] == 'b' ? _timingsafe_bcmp_chk(A, B, n, (size_t)-1, (size_t)-1)
                              : _timingsafe_memcmp_chk(A, B, n, (size_t)-1, (size_t)-1);
    printf("r=%d\n", r);
    return 0;
}

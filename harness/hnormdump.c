/* C17 data translator, C half: compiled on every run against the CURRENT tree.  It #includes the three
 * translation units that own the (static) tables, so that what is dumped is what the compiler saw:
 * the raw three-level tables (planes -> rows -> pages, value tables), the composition lists, the
 * exclusion predicate (evaluated), the Hangul constants, tbl2/tbl3 of towfc_s.c, the case tables of
 * towctrans.c and glibc's iswupper in the running locale.  Output: one JSON object on stdout.
 * Pointer-valued table cells are numbered in order of first appearance (0 = NULL).
 */
#include "extwchar/wcsnorm_s.c"
#define tbl2 fc_tbl2
#define tbl3 fc_tbl3
#include "extwchar/towfc_s.c"
#include "extwchar/towctrans.c"
#include <stdio.h>
#include <locale.h>
#include <string.h>
#include <stdlib.h>

#define NEL(a) (sizeof(a) / sizeof((a)[0]))
#define MAXP 4096
static const void *seen[MAXP];
static int nseen;
static int idof(const void *p) {
    int i;
    if (!p) return 0;
    for (i = 0; i < nseen; i++) if (seen[i] == p) return i + 1;
    seen[nseen++] = p;
    return nseen;
}
static void arr_begin(const char *k) { printf("\"%s\":[", k); }
static void arr_end(void) { printf("],\n"); }

/* translator validation: the static helpers themselves, per code point, in the format of the model's `tab` sweep */
static int tab_mode(uint32_t lo, uint32_t hi) {
    uint32_t c; unsigned long n = 0;
    for (c = lo; c < hi && c <= _UNICODE_MAX; c++) {
        wchar_t d[8]; int l, i, cc, x;
        l = _decomp_s(d, 8, c, false);
        cc = _combin_class(c);
        x = isExclusion(c) ? 1 : 0;
        if (!l && !cc && !x) continue;
        printf("cp=%x", c);
        if (l > 0) { printf(" d="); for (i = 0; i < l; i++) printf("%s%x", i ? "," : "", (unsigned)d[i]); }
        if (l < 0) printf(" derr=%d", -l);
        if (cc) printf(" cc=%d", cc);
        if (x) printf(" x=1");
        printf("\n"); n++;
    }
    printf("id=0 done=1 n=%lu\n", n);
    return 0;
}
/* `a b` pairs (hex) on stdin -> _composite_cp(a, b) */
static int comp_mode(void) {
    unsigned a, b;
    while (scanf("%x %x", &a, &b) == 2) printf("%x %x %x\n", a, b, (unsigned)_composite_cp(a, b));
    return 0;
}

int main(int argc, char **argv) {
    size_t i, j, k;
    const char *loc;
    if (argc > 3 && !strcmp(argv[1], "tab")) return tab_mode((uint32_t)strtoul(argv[2], 0, 16), (uint32_t)strtoul(argv[3], 0, 16));
    if (argc > 1 && !strcmp(argv[1], "comp")) return comp_mode();
    loc = setlocale(LC_ALL, argc > 1 ? argv[1] : "C.UTF-8");
    printf("{\n\"locale\":\"%s\",\n", loc ? loc : "(null)");
    printf("\"unicode_max\":%u,\"cc_seq_size\":%d,\"cc_seq_step\":%d,\n", (unsigned)_UNICODE_MAX, CC_SEQ_SIZE, CC_SEQ_STEP);
    printf("\"hangul\":{\"SBase\":%u,\"SFinal\":%u,\"SCount\":%u,\"NCount\":%u,\"LBase\":%u,\"LFinal\":%u,\"LCount\":%u,"
           "\"VBase\":%u,\"VFinal\":%u,\"VCount\":%u,\"TBase\":%u,\"TFinal\":%u,\"TCount\":%u},\n",
           Hangul_SBase, Hangul_SFinal, Hangul_SCount, Hangul_NCount, Hangul_LBase, Hangul_LFinal, Hangul_LCount,
           Hangul_VBase, Hangul_VFinal, Hangul_VCount, Hangul_TBase, Hangul_TFinal, Hangul_TCount);
    printf("\"canon_exc_size\":%d,\"canon_maxlen\":%d,\"complist_first_long\":%u,\n", (int)UNWIF_canon_exc_size,
           (int)UNWIF_canon_MAXLEN, (unsigned)UNWIF_COMPLIST_FIRST_LONG);
    /* ---- canonical decomposition */
    {
        const uint16_t **planes[64]; const uint16_t *rows[MAXP]; int np = 0, nr = 0;
        nseen = 0;
        arr_begin("canon_main");
        for (i = 0; i < NEL(UNWIF_canon); i++) {
            int id = idof(UNWIF_canon[i]);
            if (id > np) planes[np++] = UNWIF_canon[i];
            printf("%s%d", i ? "," : "", id);
        }
        arr_end();
        nseen = 0;
        arr_begin("canon_planes");
        for (i = 0; i < (size_t)np; i++)
            for (j = 0; j < 256; j++) {
                int id = idof(planes[i][j]);
                if (id > nr) rows[nr++] = planes[i][j];
                printf("%s%d", (i || j) ? "," : "", id);
            }
        arr_end();
        arr_begin("canon_rows");
        for (i = 0; i < (size_t)nr; i++)
            for (j = 0; j < 256; j++) printf("%s%u", (i || j) ? "," : "", (unsigned)rows[i][j]);
        arr_end();
        arr_begin("canon_tbl_n");
        printf("%zu", NEL(UNWIF_canon_tbl));
        arr_end();
#define DUMPTBL(name, T) arr_begin(name); for (i = 0; i < sizeof(T) / sizeof(wchar_t); i++) printf("%s%u", i ? "," : "", (unsigned)((const wchar_t *)T)[i]); arr_end();
        DUMPTBL("canon_tbl_1", UNWIF_canon_tbl_1)
        DUMPTBL("canon_tbl_2", UNWIF_canon_tbl_2)
        DUMPTBL("canon_tbl_3", UNWIF_canon_tbl_3)
        DUMPTBL("canon_tbl_4", UNWIF_canon_tbl_4)
        /* the array of table pointers must be exactly these four, in this order */
        printf("\"canon_tbl_order_ok\":%d,\n", UNWIF_canon_tbl[0] == (const wchar_t *)UNWIF_canon_tbl_1 && UNWIF_canon_tbl[1] == (const wchar_t *)UNWIF_canon_tbl_2 &&
               UNWIF_canon_tbl[2] == (const wchar_t *)UNWIF_canon_tbl_3 && UNWIF_canon_tbl[3] == (const wchar_t *)UNWIF_canon_tbl_4);
    }
    /* ---- combining classes */
    {
        const uint8_t **planes[64]; const uint8_t *rows[MAXP]; int np = 0, nr = 0;
        nseen = 0;
        arr_begin("combin_main");
        for (i = 0; i < NEL(UNWIF_combin); i++) {
            int id = idof(UNWIF_combin[i]);
            if (id > np) planes[np++] = UNWIF_combin[i];
            printf("%s%d", i ? "," : "", id);
        }
        arr_end();
        nseen = 0;
        arr_begin("combin_planes");
        for (i = 0; i < (size_t)np; i++)
            for (j = 0; j < 256; j++) {
                int id = idof(planes[i][j]);
                if (id > nr) rows[nr++] = planes[i][j];
                printf("%s%d", (i || j) ? "," : "", id);
            }
        arr_end();
        arr_begin("combin_rows");
        for (i = 0; i < (size_t)nr; i++)
            for (j = 0; j < 256; j++) printf("%s%u", (i || j) ? "," : "", (unsigned)rows[i][j]);
        arr_end();
    }
    /* ---- composition lists */
    {
        const UNWIF_complist_s ***planes[64]; const UNWIF_complist_s **rows[MAXP]; int np = 0, nr = 0, nc = 0;
        static const UNWIF_complist_s *cells[65536]; static uint32_t cellcp[65536];
        nseen = 0;
        arr_begin("compos_main");
        for (i = 0; i < NEL(UNWIF_compos); i++) {
            int id = idof(UNWIF_compos[i]);
            if (id > np) planes[np++] = UNWIF_compos[i];
            printf("%s%d", i ? "," : "", id);
        }
        arr_end();
        nseen = 0;
        arr_begin("compos_planes");
        for (i = 0; i < (size_t)np; i++)
            for (j = 0; j < 256; j++) {
                int id = idof(planes[i][j]);
                if (id > nr) rows[nr++] = planes[i][j];
                printf("%s%d", (i || j) ? "," : "", id);
            }
        arr_end();
        /* cells: numbered per (row, index) in order; a list may not be shared between cells with a different width */
        arr_begin("compos_rows");
        for (i = 0; i < (size_t)nr; i++)
            for (j = 0; j < 256; j++) {
                int id = 0;
                if (rows[i][j]) { cells[nc] = rows[i][j]; id = ++nc; }
                printf("%s%d", (i || j) ? "," : "", id);
            }
        arr_end();
        /* which code point reaches cell id: recomputed from the main table */
        for (i = 0; i < NEL(UNWIF_compos); i++) {
            if (!UNWIF_compos[i]) continue;
            for (j = 0; j < 256; j++) {
                if (!UNWIF_compos[i][j]) continue;
                for (k = 0; k < 256; k++) {
                    const UNWIF_complist_s *c = UNWIF_compos[i][j][k];
                    int q;
                    if (!c) continue;
                    for (q = 0; q < nc; q++) if (cells[q] == c) cellcp[q] = (uint32_t)((i << 16) | (j << 8) | k);
                }
            }
        }
        arr_begin("compos_lists");
        for (i = 0; i < (size_t)nc; i++) {
            printf("%s{\"cp\":%u,\"pairs\":[", i ? "," : "", cellcp[i]);
            if (cellcp[i] < UNWIF_COMPLIST_FIRST_LONG) {
                const UNWIF_complist_s *p = cells[i];
                for (j = 0; p[j].nextchar; j++) printf("%s[%u,%u]", j ? "," : "", (unsigned)p[j].nextchar, (unsigned)p[j].composite);
            } else {
                const UNWIF_complist *p = (const UNWIF_complist *)cells[i];
                for (j = 0; p[j].nextchar; j++) printf("%s[%u,%u]", j ? "," : "", (unsigned)p[j].nextchar, (unsigned)p[j].composite);
            }
            printf("]}");
        }
        arr_end();
    }
    /* ---- exclusions: the predicate evaluated on 0..0x110100, printed as closed ranges */
    {
        uint32_t c; int open = 0, first = 1; uint32_t lo = 0;
        arr_begin("exclusions");
        for (c = 0; c <= 0x110100; c++) {
            int x = isExclusion(c) ? 1 : 0;
            if (x && !open) { lo = c; open = 1; }
            if (!x && open) { printf("%s[%u,%u]", first ? "" : ",", lo, c - 1); first = 0; open = 0; }
        }
        arr_end();
    }
    /* ---- fold tables */
    arr_begin("tbl2");
    for (i = 0; i < NEL(fc_tbl2); i++) printf("%s[%u,%u,%u]", i ? "," : "", fc_tbl2[i].upper, fc_tbl2[i].lower1, fc_tbl2[i].lower2);
    arr_end();
    arr_begin("tbl3");
    for (i = 0; i < NEL(fc_tbl3); i++) printf("%s[%u,%u,%u,%u]", i ? "," : "", fc_tbl3[i].upper, fc_tbl3[i].lower1, fc_tbl3[i].lower2, fc_tbl3[i].lower3);
    arr_end();
    arr_begin("casemaps");
    for (i = 0; i < NEL(casemaps); i++) printf("%s[%u,%d,%u]", i ? "," : "", casemaps[i].upper, (int)casemaps[i].lower, casemaps[i].len);
    arr_end();
    arr_begin("casemapsl");
    for (i = 0; i < NEL(casemapsl); i++) printf("%s[%u,%d,%u]", i ? "," : "", casemapsl[i].upper, casemapsl[i].lower, casemapsl[i].len);
    arr_end();
    arr_begin("pairs");
    for (i = 0; i < NEL(pairs); i++) printf("%s[%u,%u]", i ? "," : "", pairs[i][0], pairs[i][1]);
    arr_end();
    /* ---- libc: iswupper over the whole range, tolower for ASCII */
    {
        uint32_t c; int open = 0, first = 1; uint32_t lo = 0;
        arr_begin("iswupper");
        for (c = 0; c <= 0x110100; c++) {
            int x = iswupper((wint_t)c) ? 1 : 0;
            if (x && !open) { lo = c; open = 1; }
            if (!x && open) { printf("%s[%u,%u]", first ? "" : ",", lo, c - 1); first = 0; open = 0; }
        }
        arr_end();
        open = 0; first = 1;
        arr_begin("iswspace");
        for (c = 0; c <= 0x110100; c++) {
            int x = iswspace((wint_t)c) ? 1 : 0;
            if (x && !open) { lo = c; open = 1; }
            if (!x && open) { printf("%s[%u,%u]", first ? "" : ",", lo, c - 1); first = 0; open = 0; }
        }
        arr_end();
        arr_begin("tolower128");
        for (c = 0; c < 128; c++) printf("%s%d", c ? "," : "", tolower((int)c));
        arr_end();
    }
    printf("\"end\":1}\n");
    return 0;
}

/* hsort.c - C16: drives the real _qsort_s_chk / _bsearch_s_chk on arrays placed between PROT_NONE pages.
 *
 * One op per input line (key=value tokens), one observation line per op.  See tools/p16.py for the generator.
 *   sort=1|bs=1  n=<nmemb> w=<size> [mem=<elements really there>] keys=<k,k,..|ident:N|rev:N|rnd:N:seed:mod>
 *   cmp=<asc|desc|zero|pos|neg|rnd|mix|posn> seed=<u64> ctx=<id> bos=<u|bytes> base=<0|1> fn=<0|1> keyp=<0|1> key=<K>
 *   lay=<R|L> full=<0|1> fork=<0|1>
 * The array occupies exactly mem*w bytes: lay=R its END is flush against a PROT_NONE page, lay=L its START.
 * Element i: first min(w,4) bytes = key (little endian), the rest pseudo-random payload derived from (seed, i).
 * The comparator checks, BEFORE dereferencing: both pointers inside [base, base+mem*w), offset multiple of w, ctx identity
 * (bsearch: first argument is the key object); it logs (offset/w of a, offset/w of b).
 * Observation: ret= ev=<kind:code,...> nc=<calls> lh=<FNV of the call sequence> bad=<count>[:first] ctxbad=<n>
 *   hb=/ha= FNV of every whole element before/after, ka= keys after, ph= FNV of the key sequence after,
 *   log=<i:j,...>  |  fault=<r|w|?>@<offset from base, or 'wild'>
 */
#define _GNU_SOURCE
#include <errno.h>
#include <setjmp.h>
#include <signal.h>
#include <stdint.h>
#include <stdio.h>
#include <stdlib.h>
#include <string.h>
#include <sys/mman.h>
#include <sys/wait.h>
#include <ucontext.h>
#include <unistd.h>

#include "safe_lib.h"
#include "safe_mem_lib.h"
#include "safe_str_lib.h"

#define PG 4096UL

static uint64_t mix64(uint64_t seed, uint64_t k) {
    uint64_t z = seed + k * 0x9E3779B97F4A7C15ULL;
    z = (z ^ (z >> 30)) * 0xBF58476D1CE4E5B9ULL;
    z = (z ^ (z >> 27)) * 0x94D049BB133111EBULL;
    return z ^ (z >> 31);
}
#define FNV0 0xcbf29ce484222325ULL
static inline uint64_t fnv(uint64_t h, uint64_t v) { return (h ^ v) * 0x100000001b3ULL; }

/* ---- state shared with the comparator ---- */
static unsigned char *g_base;
static size_t g_bytes, g_w;
static void *g_ctx;
static const void *g_keyobj;
static int g_mode;
static uint64_t g_seed, g_nc, g_lh, g_bad, g_ctxbad;
static char g_badfirst[96];
static uint32_t *g_log;
static size_t g_logcap, g_loglen;
static uint64_t g_bskey;
static sigjmp_buf jb;

enum { M_ASC, M_DESC, M_ZERO, M_POS, M_NEG, M_RND, M_MIX, M_POSN };

static int mode_of(const char *s) {
    if (!strcmp(s, "desc")) return M_DESC;
    if (!strcmp(s, "zero")) return M_ZERO;
    if (!strcmp(s, "pos")) return M_POS;
    if (!strcmp(s, "neg")) return M_NEG;
    if (!strcmp(s, "rnd")) return M_RND;
    if (!strcmp(s, "mix")) return M_MIX;
    if (!strcmp(s, "posn")) return M_POSN;
    return M_ASC;
}

static uint64_t key_of(const unsigned char *p) {
    uint64_t k = 0;
    size_t kb = g_w < 4 ? g_w : 4;
    for (size_t i = 0; i < kb; i++) k |= (uint64_t)p[i] << (8 * i);
    return k;
}
static int cmp3(uint64_t x, uint64_t y) { return x < y ? -1 : x > y ? 1 : 0; }
static int rnd3(uint64_t k) { return (int)(mix64(g_seed, k) % 3) - 1; }

/* returns 1 if p is a valid element pointer, else records the violation */
static int chk_ptr(const void *pv, const char *which) {
    const unsigned char *p = (const unsigned char *)pv;
    if (g_w == 0 && p == g_base) return 1; /* zero-size elements: all at base, nothing may be read */
    if (p >= g_base && p < g_base + g_bytes && g_w && (size_t)(p - g_base) % g_w == 0) return 1;
    if (!g_bad++)
        snprintf(g_badfirst, sizeof g_badfirst, "%s@%ld/call%lu", which, (long)(p - g_base), (unsigned long)g_nc);
    return 0;
}

static void logpair(uint64_t i, uint64_t j) {
    g_lh = fnv(g_lh, (i << 32) | (j & 0xffffffffULL));
    if (g_log && g_loglen + 2 <= g_logcap) {
        g_log[g_loglen++] = (uint32_t)i;
        g_log[g_loglen++] = (uint32_t)j;
    }
}

static int sort_cmp(const void *a, const void *b, void *ctx) {
    uint64_t k = g_nc;
    int oa = chk_ptr(a, "a"), ob = chk_ptr(b, "b");
    if (ctx != g_ctx) g_ctxbad++;
    uint64_t ia = oa ? (g_w ? (size_t)((const unsigned char *)a - g_base) / g_w : 0) : 0xffffffffULL;
    uint64_t ib = ob ? (g_w ? (size_t)((const unsigned char *)b - g_base) / g_w : 0) : 0xffffffffULL;
    logpair(ia, ib);
    g_nc++;
    if (!oa || !ob) siglongjmp(jb, 2); /* a real comparator would dereference the pointer */
    switch (g_mode) {
    case M_ASC: return cmp3(key_of(a), key_of(b));
    case M_DESC: return cmp3(key_of(b), key_of(a));
    case M_ZERO: return 0;
    case M_POS: return 1;
    case M_NEG: return -1;
    case M_RND: return rnd3(k);
    case M_MIX: return (mix64(g_seed + 1, k) % 4 == 0) ? rnd3(k) : cmp3(key_of(a), key_of(b));
    case M_POSN: return cmp3(ia, ib);
    }
    return 0;
}

static int bs_cmp(const void *key, const void *elt, void *ctx) {
    uint64_t k = g_nc;
    int ob = chk_ptr(elt, "elt");
    if (key != g_keyobj) {
        if (!g_bad++) snprintf(g_badfirst, sizeof g_badfirst, "key-pointer/call%lu", (unsigned long)g_nc);
    }
    if (ctx != g_ctx) g_ctxbad++;
    uint64_t ib = ob ? (g_w ? (size_t)((const unsigned char *)elt - g_base) / g_w : 0) : 0xffffffffULL;
    logpair(ib, ib);
    g_nc++;
    if (!ob || key != g_keyobj) siglongjmp(jb, 2);
    switch (g_mode) {
    case M_DESC: return cmp3(key_of(elt), g_bskey);
    case M_ZERO: return 0;
    case M_POS: return 1;
    case M_NEG: return -1;
    case M_RND: return rnd3(k);
    default: return cmp3(g_bskey, key_of(elt));
    }
}

/* ---- handlers ---- */
static char g_ev[256];
static void ev_add(char kind, errno_t e) {
    size_t l = strlen(g_ev);
    snprintf(g_ev + l, sizeof g_ev - l, "%s%c:%d", l ? "," : "", kind, (int)e);
}
static void h_str(const char *msg, void *ptr, errno_t e) { (void)msg; (void)ptr; ev_add('s', e); }
static void h_mem(const char *msg, void *ptr, errno_t e) { (void)msg; (void)ptr; ev_add('m', e); }

/* ---- faults ---- */
static volatile uintptr_t fault_addr;
static volatile int fault_wr, fault_code;
static void on_alarm(int sig) { (void)sig; siglongjmp(jb, 3); }
static void on_segv(int sig, siginfo_t *si, void *uc_) {
    ucontext_t *uc = (ucontext_t *)uc_;
    (void)sig;
    fault_addr = (uintptr_t)si->si_addr;
    fault_code = si->si_code;
    fault_wr = (int)((uc->uc_mcontext.gregs[REG_ERR] >> 1) & 1);
    siglongjmp(jb, 1);
}

/* ---- parsing ---- */
static const char *tok(char **toks, int nt, const char *k) {
    size_t kl = strlen(k);
    for (int i = 0; i < nt; i++)
        if (!strncmp(toks[i], k, kl) && toks[i][kl] == '=') return toks[i] + kl + 1;
    return NULL;
}
static uint64_t toku(char **toks, int nt, const char *k, uint64_t d) {
    const char *v = tok(toks, nt, k);
    return v ? strtoull(v, NULL, 10) : d;
}

static size_t parse_keys(const char *s, uint64_t **out) {
    size_t n = 0;
    uint64_t *k = NULL;
    if (!s || !strcmp(s, "-") || !*s) { *out = NULL; return 0; }
    if (!strncmp(s, "ident:", 6)) {
        n = strtoull(s + 6, NULL, 10);
        k = malloc(n * 8 + 8);
        for (size_t i = 0; i < n; i++) k[i] = i;
    } else if (!strncmp(s, "rev:", 4)) {
        n = strtoull(s + 4, NULL, 10);
        k = malloc(n * 8 + 8);
        for (size_t i = 0; i < n; i++) k[i] = n - 1 - i;
    } else if (!strncmp(s, "rnd:", 4)) {
        char *e;
        n = strtoull(s + 4, &e, 10);
        uint64_t sd = strtoull(e + 1, &e, 10);
        uint64_t md = strtoull(e + 1, &e, 10);
        if (!md) md = 1;
        k = malloc(n * 8 + 8);
        for (size_t i = 0; i < n; i++) k[i] = mix64(sd, i) % md;
    } else {
        size_t cap = 16;
        k = malloc(cap * 8);
        const char *p = s;
        while (*p) {
            char *e;
            uint64_t v = strtoull(p, &e, 10);
            if (e == p) break;
            if (n == cap) { cap *= 2; k = realloc(k, cap * 8); }
            k[n++] = v;
            p = (*e == ',') ? e + 1 : e;
        }
    }
    *out = k;
    return n;
}

static uint64_t elem_hash(const unsigned char *p, size_t w) {
    uint64_t h = FNV0;
    for (size_t i = 0; i < w; i++) h = fnv(h, p[i]);
    return h;
}

static void run_op(char **toks, int nt) {
    const char *id = tok(toks, nt, "id");
    int is_bs = tok(toks, nt, "bs") != NULL;
    uint64_t n = toku(toks, nt, "n", 0), w = toku(toks, nt, "w", 0);
    uint64_t *keys;
    size_t nk = parse_keys(tok(toks, nt, "keys"), &keys);
    size_t mem = nk; /* elements really there */
    const char *bos_s = tok(toks, nt, "bos");
    size_t bos = (!bos_s || !strcmp(bos_s, "u")) ? (size_t)-1 : strtoull(bos_s, NULL, 10);
    int base_nn = toku(toks, nt, "base", 1) != 0, fn_nn = toku(toks, nt, "fn", 1) != 0, key_nn = toku(toks, nt, "keyp", 1) != 0;
    int full = toku(toks, nt, "full", 1) != 0;
    const char *lay = tok(toks, nt, "lay");
    int layR = !(lay && lay[0] == 'L');
    g_mode = mode_of(tok(toks, nt, "cmp") ? tok(toks, nt, "cmp") : "asc");
    g_seed = toku(toks, nt, "seed", 0);
    g_ctx = (void *)(uintptr_t)(0x1000 + toku(toks, nt, "ctx", 0));
    g_bskey = toku(toks, nt, "key", 0);
    g_w = w;
    g_nc = g_bad = g_ctxbad = 0;
    g_lh = FNV0;
    g_badfirst[0] = 0;
    g_ev[0] = 0;
    if (mem && w > (1UL << 22)) { printf("id=%s err=element-too-large-for-the-harness\n", id); free(keys); return; }
    size_t bytes = mem * w;
    g_bytes = bytes;
    size_t dpages = (bytes + PG - 1) / PG;
    if (!dpages) dpages = 1;
    unsigned char *map = mmap(0, (dpages + 2) * PG, PROT_NONE, MAP_PRIVATE | MAP_ANONYMOUS | MAP_NORESERVE, -1, 0);
    if (map == MAP_FAILED) { printf("id=%s err=mmap\n", id); free(keys); return; }
    mprotect(map + PG, dpages * PG, PROT_READ | PROT_WRITE);
    unsigned char *data = map + PG;
    memset(data, 0xEE, dpages * PG);
    unsigned char *base = layR ? data + dpages * PG - bytes : data;
    if (bytes == 0 && !layR) base = data; /* zero-length array: a valid pointer, nothing readable promised */
    g_base = base;
    uint64_t pseed = g_seed ^ 0xABCDEF12345ULL;
    for (size_t i = 0; i < mem; i++) {
        unsigned char *p = base + i * w;
        size_t kb = w < 4 ? w : 4;
        for (size_t b = 0; b < kb; b++) p[b] = (unsigned char)(keys[i] >> (8 * b));
        for (size_t b = kb; b < w; b++) p[b] = (unsigned char)mix64(pseed, i * w + b);
    }
    uint64_t *hb = NULL, *ha = NULL;
    uint64_t sumb = 0;
    for (size_t i = 0; i < mem; i++) sumb += mix64(1, elem_hash(base + i * w, w));
    if (full) {
        hb = malloc(mem * 8 + 8);
        ha = malloc(mem * 8 + 8);
        for (size_t i = 0; i < mem; i++) hb[i] = elem_hash(base + i * w, w);
    }
    /* the bytes around the array inside the data pages must not change either */
    g_logcap = full ? 8192 : 0;
    g_loglen = 0;
    g_log = g_logcap ? malloc(g_logcap * 4) : NULL;
    static uint64_t keyobj[2];
    keyobj[0] = g_bskey;
    g_keyobj = keyobj;

    volatile int faulted = 0;
    errno_t rc = 0;
    void *res = NULL;
    int en = 0;
    int jv;
    alarm((unsigned)toku(toks, nt, "to", 60));
    if ((jv = sigsetjmp(jb, 1)) == 0) {
        if (is_bs) {
            errno = 7777;
            res = _bsearch_s_chk(key_nn ? (const void *)keyobj : NULL, base_nn ? base : NULL, n, w, fn_nn ? bs_cmp : NULL, g_ctx, bos);
            en = errno;
        } else {
            rc = _qsort_s_chk(base_nn ? base : NULL, n, w, fn_nn ? sort_cmp : NULL, g_ctx, bos);
        }
    } else
        faulted = jv;
    alarm(0);
    if (faulted == 2)
        printf("id=%s fault=cmp@%s nc=%lu\n", id, g_badfirst, (unsigned long)g_nc);
    else if (faulted == 3)
        printf("id=%s fault=timeout nc=%lu\n", id, (unsigned long)g_nc);
    else if (faulted) {
        uintptr_t a = fault_addr;
        char where[64];
        if (a >= (uintptr_t)map && a < (uintptr_t)map + (dpages + 2) * PG)
            snprintf(where, sizeof where, "%ld", (long)(a - (uintptr_t)base));
        else
            snprintf(where, sizeof where, "wild");
        printf("id=%s fault=%c@%s nc=%lu\n", id, fault_code == SI_KERNEL ? '?' : (fault_wr ? 'w' : 'r'), where, (unsigned long)g_nc);
    } else {
        /* slack bytes of the data pages outside the array */
        size_t slackbad = 0;
        for (unsigned char *p = data; p < base; p++) slackbad += (*p != 0xEE);
        for (unsigned char *p = base + bytes; p < data + dpages * PG; p++) slackbad += (*p != 0xEE);
        if (is_bs) {
            if (res == NULL)
                printf("id=%s ret=null", id);
            else if (w == 0 && res == (void *)base)
                printf("id=%s ret=0", id);
            else if ((unsigned char *)res >= base && (unsigned char *)res < base + bytes && w && ((unsigned char *)res - base) % w == 0)
                printf("id=%s ret=%lu", id, (unsigned long)(((unsigned char *)res - base) / w));
            else
                printf("id=%s ret=badptr:%ld", id, (long)((unsigned char *)res - base));
            printf(" errno=%d", en);
        } else
            printf("id=%s ret=%d", id, (int)rc);
        printf(" ev=%s nc=%lu lh=%lu bad=%lu%s%s ctxbad=%lu slack=%lu", g_ev[0] ? g_ev : "-", (unsigned long)g_nc, (unsigned long)g_lh,
               (unsigned long)g_bad, g_bad ? ":" : "", g_bad ? g_badfirst : "", (unsigned long)g_ctxbad, (unsigned long)slackbad);
        uint64_t ph = FNV0, suma = 0;
        int sorted = 1;
        for (size_t i = 0; i < mem; i++) {
            uint64_t k = key_of(base + i * w);
            ph = fnv(ph, k);
            if (i && key_of(base + (i - 1) * w) > k) sorted = 0;
        }
        printf(" ph=%lu sorted=%d", (unsigned long)ph, sorted);
        if (full) {
            for (size_t i = 0; i < mem; i++) ha[i] = elem_hash(base + i * w, w);
            printf(" hb=");
            if (!mem) printf("-");
            for (size_t i = 0; i < mem; i++) printf("%s%lx", i ? "," : "", (unsigned long)hb[i]);
            printf(" ha=");
            if (!mem) printf("-");
            for (size_t i = 0; i < mem; i++) printf("%s%lx", i ? "," : "", (unsigned long)ha[i]);
            printf(" ka=");
            if (!mem) printf("-");
            for (size_t i = 0; i < mem; i++) printf("%s%lu", i ? "," : "", (unsigned long)key_of(base + i * w));
            printf(" log=");
            if (g_loglen == 0 || g_nc * 2 > g_logcap)
                printf("-");
            else
                for (size_t i = 0; i < g_loglen; i += 2) {
                    if (is_bs)
                        printf("%s%u", i ? "," : "", g_log[i]);
                    else
                        printf("%s%u:%u", i ? "," : "", g_log[i], g_log[i + 1]);
                }
        }
        /* multiset of whole elements as a sum of mixed element hashes */
        for (size_t i = 0; i < mem; i++) suma += mix64(1, elem_hash(base + i * w, w));
        printf(" sumb=%lu suma=%lu", (unsigned long)sumb, (unsigned long)suma);
        printf("\n");
    }
    free(keys);
    free(hb);
    free(ha);
    free(g_log);
    g_log = NULL;
    munmap(map, (dpages + 2) * PG);
}

int main(void) {
    static char stack[1 << 16];
    stack_t ss = {.ss_sp = stack, .ss_size = sizeof stack, .ss_flags = 0};
    sigaltstack(&ss, NULL);
    struct sigaction sa;
    memset(&sa, 0, sizeof sa);
    sa.sa_sigaction = on_segv;
    sa.sa_flags = SA_SIGINFO | SA_ONSTACK | SA_NODEFER;
    sigaction(SIGSEGV, &sa, 0);
    sigaction(SIGBUS, &sa, 0);
    signal(SIGALRM, on_alarm);
    set_str_constraint_handler_s(h_str);
    set_mem_constraint_handler_s(h_mem);
    char *line = NULL;
    size_t cap = 0;
    ssize_t len;
    while ((len = getline(&line, &cap, stdin)) > 0) {
        char *toks[64];
        int nt = 0;
        for (char *p = strtok(line, " \n"); p && nt < 64; p = strtok(NULL, " \n")) toks[nt++] = p;
        if (!nt) continue;
        const char *id = tok(toks, nt, "id");
        if (toku(toks, nt, "fork", 0)) {
            fflush(stdout);
            pid_t pid = fork();
            if (pid == 0) {
                run_op(toks, nt);
                fflush(stdout);
                _exit(0);
            }
            int st = 0;
            waitpid(pid, &st, 0);
            if (WIFSIGNALED(st)) printf("id=%s fault=?@signal%d\n", id ? id : "?", WTERMSIG(st));
        } else
            run_op(toks, nt);
        fflush(stdout);
    }
    return 0;
}
